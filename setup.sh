#!/bin/sh
# Build the verification framework from files on disk only (offline).
set -e
cd "$(dirname "$0")"
mkdir -p target evidence replays
gcc -shared -fPIC -O2 -o target/detrand.so harness/detrand.c
cd harness
CARGO_NET_OFFLINE=true cargo build --release --offline --workspace 2>&1 | tail -5

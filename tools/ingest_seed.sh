#!/bin/bash
# usage: ingest_seed.sh <seed-out-dir> <ID> <n>   -> copies into /verif/seeded/<ID>-<n>/ and runs the property's quick check against it
OUT="$1"; ID="$2"; N="$3"; D=/verif/seeded/$ID-$N
mkdir -p "$D"; cp -r "$OUT"/patch.diff "$OUT"/meta.json "$OUT"/demo "$D"/ 2>/dev/null
/verif/tools/mutant_run.sh "$D/patch.diff" "$ID" > "$D/check_result.txt" 2>&1
tail -4 "$D/check_result.txt"

#!/bin/bash
# usage: confirm_seed.sh <seed-out-dir> "<crates for existing tests, space separated>" "<demo command run in worktree>"
# Confirms an independently seeded change in a scratch worktree of /repo (removed afterwards):
#  (1) patch applies and the listed crates' existing tests pass with it, (2) demo fails with it,
#  (3) demo passes without it. Prints CONFIRM-* lines.
OUT=$(readlink -f "$1"); CRATES="$2"; DEMO="$3"
WT=$(mktemp -d /tmp/confirm.XXXXXX); rmdir "$WT"
git -C /repo worktree add -q "$WT" HEAD || exit 3
trap 'git -C /repo worktree remove --force "$WT" 2>/dev/null; rm -rf "$WT"' EXIT
cd "$WT"; export CARGO_TARGET_DIR="$WT/target" CARGO_NET_OFFLINE=true
git apply "$OUT/patch.diff" || { echo "CONFIRM-FAIL patch does not apply"; exit 1; }
ok=1
for c in $CRATES; do
  if cargo test --offline -q -p $c > "$WT/test-$c.log" 2>&1; then echo "CONFIRM existing tests of $c pass with the change"; else
    if grep -q "test result: FAILED" "$WT/test-$c.log" && ! grep -E "^test .* FAILED" "$WT/test-$c.log" | grep -v test_derive | grep -q FAILED; then echo "CONFIRM existing tests of $c pass with the change (only test_derive fails, known offline)"; else echo "CONFIRM-FAIL existing tests of $c fail with the change"; grep -E "FAILED|panicked" "$WT/test-$c.log" | head -5; ok=0; fi
  fi
done
for d in "$OUT"/demo/*.patch; do [ -f "$d" ] && { git apply "$d" || { echo "CONFIRM-FAIL demo patch does not apply"; exit 1; }; }; done
if bash -c "$DEMO" > "$WT/demo-with.log" 2>&1; then echo "CONFIRM-FAIL demo passes WITH the change"; ok=0; else echo "CONFIRM demo fails with the change"; fi
git apply -R "$OUT/patch.diff" || { echo "CONFIRM-FAIL cannot revert"; exit 1; }
if bash -c "$DEMO" > "$WT/demo-without.log" 2>&1; then echo "CONFIRM demo passes without the change"; else echo "CONFIRM-FAIL demo fails WITHOUT the change"; tail -5 "$WT/demo-without.log"; ok=0; fi
[ $ok = 1 ] && echo "CONFIRM-OK" || echo "CONFIRM-NOT-OK"

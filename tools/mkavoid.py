import json,glob,sys,re
pid=sys.argv[1]
out=[]
for p in sorted(glob.glob(f'/verif/seeded/{pid}-*/meta.json')):
    d=json.load(open(p))
    s=d.get('summary','')
    s=re.sub(r'\s+',' ',s)[:260]
    out.append(f"({len(out)+1}) {s}")
print(' '.join(out))

#!/bin/sh
# usage: tools/mutant_run.sh <patch.diff> <ID> [<ID>...]  (env TIER=quick|thorough)
# Detection self-test without touching /repo: copies /repo's working tree (without target/) and
# /verif (without target/ evidence/ replays/) to a scratch directory, applies the patch to the
# copy, points the scratch harness at it (symlink `subject`), runs the checks there and removes
# everything again. Third-party dependency artefacts are seeded from /verif/target to save time.
set -u
PATCH=$(readlink -f "$1"); shift
S=$(mktemp -d /tmp/vmut.XXXXXX)
trap 'rm -rf "$S"' EXIT INT TERM
mkdir -p "$S/repo" "$S/verif"
rsync -a --exclude target --exclude .git /repo/ "$S/repo/"
rsync -a --exclude target --exclude .git --exclude replays --exclude evidence --exclude seeded /verif/ "$S/verif/"
mkdir -p "$S/verif/replays" "$S/verif/evidence" "$S/verif/target"
if [ -d /verif/target/release ]; then
  mkdir -p "$S/verif/target/release"
  rsync -a /verif/target/release/deps /verif/target/release/build /verif/target/release/.fingerprint "$S/verif/target/release/" 2>/dev/null
  cp /verif/target/detrand.so "$S/verif/target/" 2>/dev/null
fi
rm -f "$S/verif/subject"; ln -s "$S/repo" "$S/verif/subject"
( cd "$S/repo" && patch -p1 --no-backup-if-mismatch < "$PATCH" >/dev/null ) || { echo "MUTANT-RESULT patch does not apply"; exit 3; }
rc_all=0
if [ -n "${REPLAY_FILE:-}" ]; then ( cd "$S/verif" && VERIF_ROOT="$S/verif" ./check "$1" --tier quick --replay "$REPLAY_FILE" 2>&1 | grep -v "^KNOWN" | tail -${FULL:-60} ); exit 0; fi
for ID in "$@"; do
  ( cd "$S/verif" && VERIF_ROOT="$S/verif" ./check "$ID" --tier "${TIER:-quick}" > "$S/out.$ID" 2>&1 ); rc=$?
  grep -E "^(VIOLATION|KNOWN-FINDING|MACHINERY)" "$S/out.$ID" | sed "s|$S|<scratch>|g" | head -5
  grep -E "violation signature" "$S/out.$ID" | head -5
  [ $rc -ge 2 ] && tail -20 "$S/out.$ID"
  [ -n "${FULL:-}" ] && tail -${FULL} "$S/out.$ID"
  echo "MUTANT-RESULT id=$ID exit=$rc ($( [ $rc -eq 1 ] && echo DETECTED || echo not-detected ))"
  [ $rc -ne 1 ] && rc_all=1
done
exit $rc_all

#!/usr/bin/env python3
"""Add the violations recorded in replays/<ID>-*.json to findings/known_findings.json.
Run by hand, after each listed violation has been confirmed against the real code as a genuine
defect of swimos/swim-rust (never at check time). usage: register_known.py <ID> [substring-filter]"""
import fcntl, glob, json, os, sys
root = os.path.dirname(os.path.dirname(os.path.abspath(__file__)))
pid = sys.argv[1]
flt = sys.argv[2] if len(sys.argv) > 2 else ""
path = os.path.join(root, "findings", "known_findings.json")
_lock = open(path + ".lock", "w"); fcntl.flock(_lock, fcntl.LOCK_EX)
kf = json.load(open(path)) if os.path.exists(path) else {"known": [], "fixed": []}
have = {(k["property"], k["signature"]) for k in kf["known"]}
n = 0
for f in sorted(glob.glob(os.path.join(root, "replays", pid + "-*.json"))):
    v = json.load(open(f))
    if flt and flt not in v["signature"]:
        continue
    if (pid, v["signature"]) in have:
        continue
    d = v.get("detail", {})
    what = d.get("what") or d.get("explanation") or ""
    ex = d.get("values") or d.get("example") or d.get("schedule") or d.get("ops") or d.get("input")
    kf["known"].append({"property": pid, "signature": v["signature"], "what": what, "example": ex, "leg": v.get("leg")})
    n += 1
kf["known"].sort(key=lambda k: (k["property"], k["signature"]))
json.dump(kf, open(path, "w"), indent=1, ensure_ascii=False)
print("added", n, "entries; total", len(kf["known"]))

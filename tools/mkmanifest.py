#!/usr/bin/env python3
"""Regenerate MANIFEST.json from tools/manifest_src.json (one entry per claimed property) and
properties.jsonl (everything not claimed goes under not_applicable with its reason)."""
import json, os
root = os.path.dirname(os.path.dirname(os.path.abspath(__file__)))
src = json.load(open(os.path.join(root, "tools", "manifest_src.json")))
props = [json.loads(l)["id"] for l in open(os.path.join(root, "properties.jsonl"))]
checks = []
for pid in props:
    c = src["checks"].get(pid)
    if not c:
        continue
    checks.append({
        "property_id": pid,
        "quick_cmd": "./check %s --tier quick" % pid,
        "thorough_cmd": "./check %s --tier thorough" % pid,
        "evidence_file": "/verif/evidence/%s.json" % pid,
        "replay_cmd_template": "./check %s --replay {path}" % pid,
        "engine": c["engine"],
        "level_claimed": {"category": c.get("category", "model_checking"), "text": c["text"], "design_ref": c["design_ref"]},
        "level_note": c["note"],
        "technique": c["technique"],
    })
na = [{"property_id": pid, "reason": src["not_applicable"].get(pid, "designed in DESIGN.md section 2, engine not built yet in this round")}
      for pid in props if pid not in src["checks"]]
m = {
    "version": 1,
    "setup_cmd": "./setup.sh",
    "hooks": src["hooks"],
    "engines": src["engines"],
    "checks": checks,
    "notes": src["notes"],
    "not_applicable": na,
}
json.dump(m, open(os.path.join(root, "MANIFEST.json"), "w"), indent=1)
print("checks:", len(checks), "not_applicable:", len(na))

#!/usr/bin/env python3
"""usage: move_fixed.py <ID> <repo-commit> <what failed>  - after a fix: commit, runs ./check <ID>, and moves every
listed known finding of <ID> that is no longer reproduced into the `fixed` list (documentation only)."""
import json, subprocess, sys, os
root = os.path.dirname(os.path.dirname(os.path.abspath(__file__)))
pid, commit, what = sys.argv[1], sys.argv[2], sys.argv[3]
# MOVE_TIER=thorough when the property has signatures that only the thorough tier reproduces (a
# quick run would report those as "not reproduced" although nothing repaired them)
out = subprocess.run([os.path.join(root, "check"), pid, "--tier", os.environ.get("MOVE_TIER", "quick")], cwd=root, capture_output=True, text=True)
gone = [l.split("not reproduced in this run: ", 1)[1].strip() for l in out.stderr.splitlines() if "not reproduced in this run: " in l]
p = os.path.join(root, "findings", "known_findings.json")
k = json.load(open(p))
keep = []
n = 0
for e in k["known"]:
    if e["property"] == pid and e["signature"] in gone:
        k["fixed"].append("fixed: property=%s %s %s (signature `%s`)" % (pid, commit, what, e["signature"]))
        n += 1
    else:
        keep.append(e)
k["known"] = keep
json.dump(k, open(p, "w"), indent=1, ensure_ascii=False)
print("moved", n, "of", len(gone), "exit", out.returncode)

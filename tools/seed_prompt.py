#!/usr/bin/env python3
"""Print the prompt for an independent 'seeded change' sub-agent for one property (property text only)."""
import json, sys
pid = sys.argv[1]; n = sys.argv[2] if len(sys.argv) > 2 else "1"
avoid = sys.argv[3] if len(sys.argv) > 3 else ""
p = next(json.loads(l) for l in open('/verif/properties.jsonl') if json.loads(l)['id'] == pid)
wt = "/tmp/seed-%s-%s" % (pid.lower(), n)
out = "/tmp/seed-%s-%s-out" % (pid.lower(), n)
print(f"""You are a careful Rust engineer doing adversarial testing of a verification effort. You work ONLY inside the git worktree {wt} (a checkout of the repository swimos/swim-rust: a Tokio-based framework for stateful streaming agents) and write your results to {out}/ (create it). Do NOT read or use anything under /verif (it is off limits so that your work stays independent), and do not touch /repo itself.

Here is a semantic property that the code base is supposed to satisfy:

  id: {p['id']}
  title: {p['title']}
  statement: {p['statement']}
  quantified over: {p['quantifier']['text']}
  why ordinary tests cannot settle it: {p['why_tests_cant']}
  code it is anchored in: {', '.join(p['anchors']['files'])}
  mechanisms meant to make it hold: {'; '.join(m['name'] + ' (' + m.get('where','') + ')' for m in p['anchors']['mechanism'])}

Task: make ONE realistic change to the repository's source (not to its tests) that BREAKS this property while (a) the workspace still compiles, and (b) the repository's existing tests still pass. The change must need something specific to manifest - a particular interleaving, a crash or fault at a particular point, a multi-step sequence of operations, an unusual input, or two cooperating sites that each look fine alone - NOT something ordinary use or the existing tests would expose at once. Think like a plausible regression: an optimisation that drops a re-arm, a cursor advanced a line too early, a flag cleared in the wrong branch, publishing before persisting, a boundary condition flipped, a cache key made too coarse. Keep it small (a few lines).""" + ((" Other people have already tried the following ideas - pick a DIFFERENT mechanism and a different code site: " + avoid) if avoid else "") + f"""

Then write a DEMONSTRATION: a test or small program (put it in {out}/demo/, e.g. a new integration test file or a tiny crate with path dependencies on the worktree's crates; it may also be a unit test file added to the worktree, given as a second patch) that FAILS with your change and PASSES without it, deterministically. Build with `cargo ... --offline` and set `CARGO_TARGET_DIR={wt}/target` (no network; all dependencies are already in the local cargo cache; copy {wt}/Cargo.lock next to any new stand-alone crate's Cargo.toml before building it).

Verify all of this yourself:
 1. with the change applied: `cargo build --offline` of the affected crates succeeds and the existing tests of every crate you touched and of the crates that directly depend on it pass (`cargo test --offline -p <crate>`; the test `swimos_form::tests::test_derive` is known to fail offline, ignore it);
 2. the demonstration fails with the change and passes without it (stash/unstash the change).

Deliverables in {out}/: `patch.diff` (output of `git -C {wt} diff` for the source change only, applicable with `git apply`), `demo/` (the demonstration plus a `RUN.md` with the exact commands to run it against a checkout at a given path), and `meta.json` with fields: property (the id), summary (what the change does), needs (what is required for it to manifest), files (touched files), tests_run (commands you ran and their results), demo_cmd. When done, leave the worktree with the change REVERTED (git -C {wt} checkout -- . ; remove untracked demo files from it) and delete {wt}/target to free disk space. Your final message: the summary, what it needs to manifest, and confirmation of the verification steps.""")

//! C18 - Routing is deterministic: patterns invert, ambiguity is detected.
//! Engine E4 (bounded exhaustive enumeration) over `swimos_route::{RoutePattern, RouteUri}`.
//!
//! For every space (a segment alphabet, a length bound, a set of schemes) the check
//!  1. `parse`    : parses every generated pattern (well-formed ones must parse to the generated
//!                  structure, duplicate-parameter ones must be rejected) plus hand-written malformed
//!                  patterns (must be `Err`, never a panic) and odd ones (no panic);
//!  2. `roundtrip`: for every pattern and every parameter map, `apply` then `unapply_str` /
//!                  `RouteUri::from_str` + `unapply_route_uri` (the server's route, see
//!                  `server/runtime/mod.rs`: `RouteUri::from_str(node)` -> `Routes::find_route` ->
//!                  `pattern.unapply_route_uri`) must return exactly the map;
//!  3. `matrix`   : every synthesised URI (plus probes with an emptied segment) is matched against
//!                  every pattern: a binding is never "", the string and the `RouteUri` entry points
//!                  agree (matching is a function of the URI text alone);
//!  4. `pairs`    : for every pair of distinct patterns, if some URI of the pool matches both then
//!                  `RoutePattern::are_ambiguous` (the call `PlaneBuilder::build` and
//!                  `PlaneModel::check_meta_collisions` make) must be true in both argument orders.
//!                  Ambiguous pairs without a common URI in the pool are only counted.

use serde_json::{json, Value};
use std::collections::{BTreeMap, BTreeSet, HashMap};
use std::panic::{catch_unwind, AssertUnwindSafe};
use std::str::FromStr;
use std::sync::atomic::{AtomicU64, Ordering};
use std::sync::Mutex;
use std::time::Instant;
use swimos_route::{RoutePattern, RouteUri};
use vcommon::{ncpu, par_map, Ctx, Leg};

type PMap = BTreeMap<String, String>;

const VALUES: [&str; 7] = ["a", "b", "a b", "/", "%", "é", ""];
const SENTINEL: &str = "QQZQQ";

// ------------------------------------------------------------------------------------------
// generator-side description of a pattern

#[derive(Clone, Debug, PartialEq, Eq, PartialOrd, Ord, Hash)]
enum Seg {
    Lit(String),
    Par(String),
}

impl Seg {
    fn text(&self) -> String {
        match self {
            Seg::Lit(s) => s.clone(),
            Seg::Par(n) => format!(":{}", n),
        }
    }
    fn to_json(&self) -> Value {
        match self {
            Seg::Lit(s) => json!(["lit", s]),
            Seg::Par(n) => json!(["par", n]),
        }
    }
    fn from_json(v: &Value) -> Seg {
        let k = v[0].as_str().unwrap_or("");
        let s = v[1].as_str().unwrap_or("").to_string();
        if k == "par" {
            Seg::Par(s)
        } else {
            Seg::Lit(s)
        }
    }
}

fn lit(s: &str) -> Seg {
    Seg::Lit(s.to_string())
}
fn par(s: &str) -> Seg {
    Seg::Par(s.to_string())
}

#[derive(Clone, Debug)]
struct Spec {
    text: String,
    scheme: Option<String>,
    absolute: bool,
    segs: Vec<Seg>,
}

impl Spec {
    fn new(scheme: Option<&str>, absolute: bool, segs: Vec<Seg>) -> Spec {
        let mut text = String::new();
        if let Some(s) = scheme {
            text.push_str(s);
            text.push(':');
        }
        if absolute {
            text.push('/');
        }
        text.push_str(&segs.iter().map(|s| s.text()).collect::<Vec<_>>().join("/"));
        Spec { text, scheme: scheme.map(|s| s.to_string()), absolute, segs }
    }
    fn params(&self) -> Vec<String> {
        self.segs
            .iter()
            .filter_map(|s| match s {
                Seg::Par(n) => Some(n.clone()),
                _ => None,
            })
            .collect()
    }
    fn has_dup(&self) -> bool {
        let p = self.params();
        let s: BTreeSet<&String> = p.iter().collect();
        s.len() != p.len()
    }
    fn to_json(&self) -> Value {
        json!({"text": self.text, "scheme": self.scheme, "absolute": self.absolute,
               "segs": self.segs.iter().map(|s| s.to_json()).collect::<Vec<_>>()})
    }
    fn from_json(v: &Value) -> Spec {
        let segs = v["segs"].as_array().map(|a| a.iter().map(Seg::from_json).collect()).unwrap_or_default();
        Spec::new(v["scheme"].as_str(), v["absolute"].as_bool().unwrap_or(false), segs)
    }
}

struct Pat {
    spec: Spec,
    rp: RoutePattern,
    params: Vec<String>,
    /// keys over which parameter maps are enumerated for this pattern
    universe: Vec<String>,
}

fn make_pat(spec: &Spec, universe: &[String]) -> Option<Pat> {
    match guard(|| RoutePattern::parse_str(&spec.text)) {
        Ok(Ok(rp)) => Some(Pat { spec: spec.clone(), rp, params: spec.params(), universe: universe.to_vec() }),
        _ => None,
    }
}

struct Space {
    name: &'static str,
    segs: Vec<Seg>,
    max_len: usize,
    /// (scheme, largest pattern length generated with it)
    schemes: Vec<(Option<&'static str>, usize)>,
    extras: Vec<Spec>,
}

impl Space {
    fn universe(&self) -> Vec<String> {
        let s: BTreeSet<String> = self
            .segs
            .iter()
            .filter_map(|s| match s {
                Seg::Par(n) => Some(n.clone()),
                _ => None,
            })
            .collect();
        s.into_iter().collect()
    }

    /// All generated patterns, smallest first: by length, then form, then segment sequence.
    fn specs(&self) -> Vec<Spec> {
        let mut out = vec![];
        let k = self.segs.len();
        for len in 1..=self.max_len {
            for (scheme, smax) in &self.schemes {
                if len > *smax {
                    continue;
                }
                for absolute in [true, false] {
                    let mut idx = vec![0usize; len];
                    'seq: loop {
                        let segs: Vec<Seg> = idx.iter().map(|i| self.segs[*i].clone()).collect();
                        out.push(Spec::new(*scheme, absolute, segs));
                        let mut pos = len;
                        loop {
                            if pos == 0 {
                                break 'seq;
                            }
                            pos -= 1;
                            idx[pos] += 1;
                            if idx[pos] < k {
                                break;
                            }
                            idx[pos] = 0;
                        }
                    }
                }
            }
        }
        out
    }

    fn bounds(&self) -> Value {
        json!({"segments": self.segs.iter().map(|s| s.text()).collect::<Vec<_>>(), "max_len": self.max_len,
               "schemes": self.schemes.iter().map(|(s, l)| json!({"scheme": s, "max_len": l})).collect::<Vec<_>>(),
               "forms": "absolute and relative",
               "extra_patterns": self.extras.iter().map(|s| s.text.clone()).collect::<Vec<_>>(),
               "values": VALUES, "maps": "every key of the space's parameter universe absent or bound to one of the values"})
    }
}

// ------------------------------------------------------------------------------------------
// helpers

fn guard<T>(f: impl FnOnce() -> T) -> Result<T, String> {
    catch_unwind(AssertUnwindSafe(f)).map_err(|e| {
        if let Some(s) = e.downcast_ref::<&str>() {
            s.to_string()
        } else if let Some(s) = e.downcast_ref::<String>() {
            s.clone()
        } else {
            "panic".to_string()
        }
    })
}

fn pdecode(s: &str) -> Vec<u8> {
    let b = s.as_bytes();
    let mut out = vec![];
    let mut i = 0;
    let hex = |c: u8| (c as char).to_digit(16);
    while i < b.len() {
        if b[i] == b'%' && i + 2 < b.len() {
            if let (Some(h), Some(l)) = (hex(b[i + 1]), hex(b[i + 2])) {
                out.push((h * 16 + l) as u8);
                i += 3;
                continue;
            }
        }
        out.push(b[i]);
        i += 1;
    }
    out
}

fn all_maps(universe: &[String]) -> Vec<PMap> {
    // every key: one of the values (smallest first) or absent (last)
    let opts: Vec<Option<&str>> = VALUES.iter().map(|v| Some(*v)).chain(std::iter::once(None)).collect();
    let mut out = vec![PMap::new()];
    for k in universe {
        let mut next = vec![];
        for m in &out {
            for o in &opts {
                let mut m2 = m.clone();
                if let Some(v) = o {
                    m2.insert(k.clone(), v.to_string());
                }
                next.push(m2);
            }
        }
        out = next;
    }
    out
}

fn to_hash(m: &PMap) -> HashMap<String, String> {
    m.iter().map(|(k, v)| (k.clone(), v.clone())).collect()
}

fn norm<E: std::fmt::Debug>(r: Result<HashMap<String, String>, E>) -> Result<PMap, String> {
    match r {
        Ok(m) => Ok(m.into_iter().collect()),
        Err(_) => Err("no match".to_string()),
    }
}

/// Re-assemble the text a parsed RouteUri accounts for.
fn rebuild(ru: &RouteUri) -> String {
    let mut s = String::new();
    if let Some(sc) = ru.scheme() {
        s.push_str(sc);
        s.push(':');
    }
    s.push_str(ru.path());
    if let Some(q) = ru.query() {
        s.push('?');
        s.push_str(q);
    }
    if let Some(f) = ru.fragment() {
        s.push('#');
        s.push_str(f);
    }
    s
}

#[derive(Clone, Debug)]
struct Fail {
    law: String,
    kind: String,
    what: String,
}

fn fail(law: &str, kind: &str, what: String) -> Option<Fail> {
    Some(Fail { law: law.to_string(), kind: kind.to_string(), what })
}

// ------------------------------------------------------------------------------------------
// case evaluators (also used by --replay)

struct Rt {
    uri: Option<String>,
    /// the URI came from a successful apply with every parameter validly bound
    synth: bool,
    fail: Option<Fail>,
    calls: u64,
}

fn roundtrip(p: &Pat, m: &PMap) -> Rt {
    let hm = to_hash(m);
    let expect_ok = p.params.iter().all(|n| m.get(n).map_or(false, |v| !v.is_empty()));
    let expected: PMap = p.params.iter().filter_map(|n| m.get(n).map(|v| (n.clone(), v.clone()))).collect();
    let mut calls = 1;
    let applied = match guard(|| p.rp.apply(&hm)) {
        Ok(r) => r,
        Err(pm) => {
            return Rt { uri: None, synth: false, fail: fail("no_panic", "apply", format!("apply panicked: {}", pm)), calls }
        }
    };
    match (expect_ok, applied) {
        (false, Err(_)) => Rt { uri: None, synth: false, fail: None, calls },
        (true, Err(e)) => Rt {
            uri: None,
            synth: false,
            fail: fail("apply_total", "", format!("apply failed ({}) although every parameter has a non-empty value", e)),
            calls,
        },
        (false, Ok(u)) => Rt {
            fail: fail(
                "apply_rejects_missing_or_empty",
                "",
                format!("apply produced '{}' although a parameter is missing or empty", u),
            ),
            uri: Some(u),
            synth: false,
            calls,
        },
        (true, Ok(u)) => {
            calls += 2;
            let parsed = guard(|| RouteUri::from_str(&u));
            let via_str = guard(|| p.rp.unapply_str(&u));
            let (parsed, via_str) = match (parsed, via_str) {
                (Ok(a), Ok(b)) => (a, b),
                (Err(pm), _) => {
                    return Rt { uri: Some(u), synth: true, fail: fail("no_panic", "RouteUri::from_str", pm), calls }
                }
                (_, Err(pm)) => return Rt { uri: Some(u), synth: true, fail: fail("no_panic", "unapply_str", pm), calls },
            };
            let via_str = norm(via_str);
            let f = match parsed {
                Err(_) => {
                    if via_str.is_ok() {
                        fail("entrypoints_agree", "", format!("unapply_str matched '{}' which RouteUri::from_str rejects", u))
                    } else {
                        fail(
                            "roundtrip",
                            "uri_rejected",
                            format!("apply produced '{}' which is not a valid RouteUri, so it matches nothing", u),
                        )
                    }
                }
                Ok(ru) => {
                    let covered = rebuild(&ru);
                    let truncated = covered != u;
                    calls += 1;
                    match guard(|| p.rp.unapply_route_uri(&ru)) {
                        Err(pm) => fail("no_panic", "unapply_route_uri", pm),
                        Ok(r) => {
                            let via_uri = norm(r);
                            if via_uri != via_str {
                                fail(
                                    "entrypoints_agree",
                                    "",
                                    format!("unapply_str('{}') = {:?} but unapply_route_uri = {:?}", u, via_str, via_uri),
                                )
                            } else {
                                match via_uri {
                                    Ok(b) if b == expected => None,
                                    Ok(b) => fail(
                                        "roundtrip",
                                        if truncated { "uri_truncated" } else { "wrong_bindings" },
                                        format!(
                                            "apply produced '{}'{}; unapply returned {:?}, expected {:?}",
                                            u,
                                            if truncated { format!(" (RouteUri only accounts for '{}')", covered) } else { String::new() },
                                            b,
                                            expected
                                        ),
                                    ),
                                    Err(_) => fail(
                                        "roundtrip",
                                        if truncated { "uri_truncated" } else { "no_match" },
                                        format!(
                                            "apply produced '{}'{} which the same pattern does not match",
                                            u,
                                            if truncated { format!(" (RouteUri only accounts for '{}')", covered) } else { String::new() }
                                        ),
                                    ),
                                }
                            }
                        }
                    }
                }
            };
            Rt { uri: Some(u), synth: true, fail: f, calls }
        }
    }
}

/// Reduce a failing (pattern, map) to the single segment that fails the same law on its own.
fn roundtrip_culprit(p: &Pat, m: &PMap, law: &str) -> String {
    let mut found: BTreeSet<String> = BTreeSet::new();
    let segs: BTreeSet<&Seg> = p.spec.segs.iter().collect();
    for seg in segs {
        let single = Spec::new(None, true, vec![seg.clone()]);
        let sp = match make_pat(&single, &[]) {
            Some(sp) => sp,
            None => continue,
        };
        let fails = |mm: &PMap| roundtrip(&sp, mm).fail.map_or(false, |f| f.law == law);
        match seg {
            Seg::Lit(s) => {
                if fails(&PMap::new()) {
                    found.insert(format!("lit({})", s));
                }
            }
            Seg::Par(n) => {
                let mut plain = PMap::new();
                plain.insert(n.clone(), "a".to_string());
                if fails(&plain) {
                    found.insert(format!("param_name({})", n));
                } else {
                    match m.get(n) {
                        Some(v) => {
                            let mut mm = PMap::new();
                            mm.insert(n.clone(), v.clone());
                            if fails(&mm) {
                                found.insert(format!("param_value({:?})", v));
                            }
                        }
                        None => {
                            if fails(&PMap::new()) {
                                found.insert("param_absent".to_string());
                            }
                        }
                    }
                }
            }
        }
    }
    match found.into_iter().next() {
        Some(c) => c,
        None => format!("whole(pattern={} map={:?})", p.spec.text, m),
    }
}

struct Mx {
    matched: bool,
    fail: Option<Fail>,
    calls: u64,
}

fn matrix_case(u: &str, ru: Option<&RouteUri>, q: &Pat) -> Mx {
    let mut calls = 1;
    let s = match guard(|| q.rp.unapply_str(u)) {
        Ok(r) => norm(r),
        Err(pm) => return Mx { matched: false, fail: fail("no_panic", "unapply_str", pm), calls },
    };
    let ru = match ru {
        None => {
            let f = if s.is_ok() {
                fail("function_of_uri", "str_accepts_unparsable", format!("unapply_str matched '{}' which RouteUri::from_str rejects", u))
            } else {
                None
            };
            return Mx { matched: false, fail: f, calls };
        }
        Some(ru) => ru,
    };
    calls += 1;
    let r = match guard(|| q.rp.unapply_route_uri(ru)) {
        Ok(r) => norm(r),
        Err(pm) => return Mx { matched: false, fail: fail("no_panic", "unapply_route_uri", pm), calls },
    };
    if r != s {
        return Mx {
            matched: r.is_ok(),
            fail: fail(
                "function_of_uri",
                "str_vs_route_uri",
                format!("unapply_str('{}') = {:?} but unapply_route_uri of the same text = {:?}", u, s, r),
            ),
            calls,
        };
    }
    match r {
        Err(_) => Mx { matched: false, fail: None, calls },
        Ok(b) => {
            let mut f = None;
            for (k, v) in &b {
                if v.is_empty() {
                    // where is the empty segment?
                    let parts: Vec<&str> = ru.path().split('/').collect();
                    let pos = q.spec.segs.iter().position(|s| match s {
                        Seg::Par(n) => n == k || pdecode(n) == k.as_bytes(),
                        _ => false,
                    });
                    let wh = match pos {
                        Some(i) => {
                            let raw = i + if q.spec.absolute { 1 } else { 0 };
                            if raw == 0 {
                                "leading"
                            } else if raw + 1 == parts.len() {
                                "trailing"
                            } else {
                                "inner"
                            }
                        }
                        None => "unknown",
                    };
                    f = fail("no_empty_binding", wh, format!("pattern '{}' matched '{}' binding {} = \"\"", q.spec.text, u, k));
                    break;
                }
            }
            Mx { matched: true, fail: f, calls }
        }
    }
}

struct Pr {
    amb_pq: bool,
    amb_qp: bool,
    fail: Option<Fail>,
}

fn pair_case(p: &Pat, q: &Pat, witness: Option<&str>) -> Pr {
    let a = guard(|| RoutePattern::are_ambiguous(&p.rp, &q.rp));
    let b = guard(|| RoutePattern::are_ambiguous(&q.rp, &p.rp));
    let (a, b) = match (a, b) {
        (Ok(a), Ok(b)) => (a, b),
        (Err(pm), _) | (_, Err(pm)) => {
            return Pr { amb_pq: false, amb_qp: false, fail: fail("no_panic", "are_ambiguous", pm) }
        }
    };
    let f = match witness {
        Some(u) if !(a && b) => fail(
            "overlap_implies_ambiguous",
            if !a && !b { "both" } else { "one" },
            format!(
                "'{}' matches both '{}' and '{}' but are_ambiguous(p,q)={} are_ambiguous(q,p)={}",
                u, p.spec.text, q.spec.text, a, b
            ),
        ),
        _ => None,
    };
    Pr { amb_pq: a, amb_qp: b, fail: f }
}

fn col_class(a: &Seg, b: &Seg) -> &'static str {
    match (a, b) {
        (Seg::Lit(x), Seg::Lit(y)) => {
            if x == y {
                "same_lit"
            } else if pdecode(x) == pdecode(y) {
                "alias_lit"
            } else {
                "diff_lit"
            }
        }
        (Seg::Par(_), Seg::Par(_)) => "param_param",
        _ => "lit_param",
    }
}

/// URIs obtained from a one-segment pattern with every non-empty value.
fn single_uris(p: &Pat) -> Vec<String> {
    let mut out = vec![];
    match p.params.first() {
        None => {
            if let Ok(Ok(u)) = guard(|| p.rp.apply(&HashMap::new())) {
                out.push(u);
            }
        }
        Some(n) => {
            for v in VALUES {
                let mut hm = HashMap::new();
                hm.insert(n.clone(), v.to_string());
                if let Ok(Ok(u)) = guard(|| p.rp.apply(&hm)) {
                    out.push(u);
                }
            }
        }
    }
    out
}

/// Reduce a failing pair to the single column that reproduces the failure on its own.
fn pair_culprit(p: &Pat, q: &Pat, cache: &Mutex<HashMap<(Seg, Seg), bool>>) -> String {
    let mut found: BTreeSet<&'static str> = BTreeSet::new();
    let n = p.spec.segs.len().min(q.spec.segs.len());
    for i in 0..n {
        let (a, b) = (&p.spec.segs[i], &q.spec.segs[i]);
        if a == b {
            continue;
        }
        let key = if a <= b { (a.clone(), b.clone()) } else { (b.clone(), a.clone()) };
        let cached = cache.lock().unwrap().get(&key).copied();
        let bad = match cached {
            Some(x) => x,
            None => {
                let sa = make_pat(&Spec::new(None, true, vec![a.clone()]), &[]);
                let sb = make_pat(&Spec::new(None, true, vec![b.clone()]), &[]);
                let x = match (sa, sb) {
                    (Some(sa), Some(sb)) => {
                        let mut uris = single_uris(&sa);
                        uris.extend(single_uris(&sb));
                        uris.iter().any(|u| {
                            let ru = RouteUri::from_str(u).ok();
                            let m1 = matrix_case(u, ru.as_ref(), &sa).matched;
                            let m2 = matrix_case(u, ru.as_ref(), &sb).matched;
                            m1 && m2 && pair_case(&sa, &sb, Some(u)).fail.is_some()
                        })
                    }
                    _ => false,
                };
                cache.lock().unwrap().insert(key, x);
                x
            }
        };
        if bad {
            found.insert(col_class(a, b));
        }
    }
    match found.into_iter().next() {
        Some(c) => format!("col({})", c),
        None => {
            // no single column reproduces it: identify by the relation of the two patterns' forms
            let scheme = match (&p.spec.scheme, &q.spec.scheme) {
                (None, None) => "none",
                (Some(a), Some(b)) if a == b => "same",
                (Some(_), Some(_)) => "differ",
                _ => "one_none",
            };
            format!(
                "shape(len={} abs={} scheme={})",
                if p.spec.segs.len() == q.spec.segs.len() { "same" } else { "differ" },
                if p.spec.absolute == q.spec.absolute { "same" } else { "differ" },
                scheme
            )
        }
    }
}

fn signature(f: &Fail, culprit: Option<&str>) -> String {
    let mut s = format!("law={}", f.law);
    if !f.kind.is_empty() {
        let key = match f.law.as_str() {
            "no_empty_binding" => "where",
            "overlap_implies_ambiguous" => "dir",
            "no_panic" => "call",
            _ => "kind",
        };
        s.push_str(&format!(" {}={}", key, f.kind));
    }
    if let Some(c) = culprit {
        s.push_str(&format!(" culprit={}", c));
    }
    s
}

// ------------------------------------------------------------------------------------------
// hand-written patterns

fn must_err() -> Vec<(&'static str, &'static str)> {
    vec![
        ("", "empty_pattern"),
        ("/", "empty_segment"),
        ("//", "empty_segment"),
        ("//a", "empty_segment"),
        ("/a//b", "empty_segment"),
        ("a//b", "empty_segment"),
        ("/a/", "empty_segment"),
        ("a/", "empty_segment"),
        ("/a//", "empty_segment"),
        ("swim:/", "empty_segment"),
        ("swim://a", "empty_segment"),
        ("swim:/a/", "empty_segment"),
        ("/:x/", "empty_segment"),
        (":", "lone_colon"),
        ("/:", "lone_colon"),
        ("/:/a", "lone_colon"),
        ("/a/:", "lone_colon"),
        (":/a", "lone_colon"),
        ("swim::", "lone_colon"),
        ("swim:/:", "lone_colon"),
        ("/:x/:", "lone_colon"),
        ("/:x/:x", "duplicate_parameter"),
        (":x/:x", "duplicate_parameter"),
        ("/:x/a/:x", "duplicate_parameter"),
        ("swim:/:y/:y", "duplicate_parameter"),
        ("/:x/:y/:x", "duplicate_parameter"),
        ("/:x/:y/:y", "duplicate_parameter"),
    ]
}

fn odd_patterns() -> Vec<String> {
    let mut v: Vec<String> = [
        "swim:", "a:b:c", "/:x:y", "/a:b", "%", "/%", "/%zz", "/%f", "/a?b", "/a#b", " ", "/ ", "\0", "/\u{0}", "é:", "é:/a",
        "/:é", "/é:x", "1:/a", "swim:/:x/::", "::", ":/", "/😀", "/:😀", "/%F0%9F", "/%ff", "/:%ff", "/aé", "/a/%", "+:/a",
        "a+b:/a", "/:x/é", "\u{feff}/a", "/a\n", "/:x\n/b",
    ]
    .iter()
    .map(|s| s.to_string())
    .collect();
    v.push("a".repeat(300));
    v.push(format!("/{}", ":x/".repeat(40)));
    v
}

fn odd_uris() -> Vec<&'static str> {
    vec![
        "", "/", "//", "/a/", "/a//b", "a/", "a//b", "swim:", "swim:/", "swim:/a/", "/%", "/%ff", "/%zz", "/a b", "/é", "/a/é",
        "/a?b", "/a#b", "/a?", "/a/?q", "/a//", "warp:/a", "swim:a", ":", "/:x", "swim::x",
    ]
}

// ------------------------------------------------------------------------------------------
// one space

struct Collected {
    sig: String,
    leg: String,
    detail: Value,
}

/// Violations in enumeration order; only the first (smallest) case per signature is kept.
#[derive(Default)]
struct Sink {
    seen: BTreeSet<String>,
    items: Vec<Collected>,
}

impl Sink {
    fn push(&mut self, c: Collected) {
        if self.seen.insert(c.sig.clone()) {
            self.items.push(c);
        }
    }
}

fn run_space(ctx: &Ctx, sp: &Space, wall_cap_s: f64, out: &mut Sink) {
    let threads = ncpu();
    let universe = sp.universe();

    // ---------------- parse leg
    let t0 = Instant::now();
    let leg_parse = format!("{}_parse", sp.name);
    let mut specs = sp.specs();
    let n_generated = specs.len();
    specs.extend(sp.extras.iter().cloned());
    let mut pats: Vec<Pat> = vec![];
    let mut parse_calls = 0u64;
    let mut n_dup = 0u64;
    let mut parse_samples = vec![];
    for (si, spec) in specs.iter().enumerate() {
        let extra = si >= n_generated;
        parse_calls += 1;
        let r = guard(|| RoutePattern::parse_str(&spec.text));
        let case = json!({"case": "parse", "pattern": spec.to_json(), "expect": if spec.has_dup() { "err" } else { "ok" }});
        match r {
            Err(pm) => out.push(Collected {
                sig: "law=no_panic call=parse_str".to_string(),
                leg: leg_parse.clone(),
                detail: json!({"what": format!("parse_str panicked: {}", pm), "example": spec.text, "replay": case}),
            }),
            Ok(Ok(rp)) => {
                if spec.has_dup() {
                    n_dup += 1;
                    out.push(Collected {
                        sig: "law=parse_rejects_malformed class=duplicate_parameter".to_string(),
                        leg: leg_parse.clone(),
                        detail: json!({"what": "a pattern naming the same parameter twice was accepted", "example": spec.text, "replay": case}),
                    });
                } else {
                    // structure
                    let got_params: Vec<String> = rp.parameters().map(|s| s.to_string()).collect();
                    let mut bad = None;
                    if got_params != spec.params() {
                        bad = Some(("parameters", format!("{:?} expected {:?}", got_params, spec.params())));
                    } else if rp.scheme_str().map(|s| s.to_string()) != spec.scheme {
                        bad = Some(("scheme", format!("{:?} expected {:?}", rp.scheme_str(), spec.scheme)));
                    } else if rp.has_absolute_path() != spec.absolute {
                        bad = Some(("absolute", format!("{} expected {}", rp.has_absolute_path(), spec.absolute)));
                    } else if rp.to_string() != spec.text {
                        bad = Some(("display", format!("{} expected {}", rp, spec.text)));
                    }
                    if let Some((field, d)) = bad {
                        out.push(Collected {
                            sig: format!("law=parse_structure field={}", field),
                            leg: leg_parse.clone(),
                            detail: json!({"what": format!("parsed pattern has {} {}", field, d), "example": spec.text, "replay": case}),
                        });
                    }
                    let uni = if extra { spec.params() } else { universe.clone() };
                    pats.push(Pat { spec: spec.clone(), rp, params: spec.params(), universe: uni });
                    if parse_samples.len() < 3 && spec.segs.len() >= 2 {
                        parse_samples.push(json!({"pattern": spec.text, "parsed": "ok", "parameters": got_params}));
                    }
                }
            }
            Ok(Err(e)) => {
                if spec.has_dup() {
                    n_dup += 1;
                } else {
                    out.push(Collected {
                        sig: format!(
                            "law=parse_accepts_wellformed culprit={}",
                            spec.segs.iter().map(|s| s.text()).min().unwrap_or_default()
                        ),
                        leg: leg_parse.clone(),
                        detail: json!({"what": format!("well-formed pattern rejected: {}", e), "example": spec.text, "replay": case}),
                    });
                }
            }
        }
    }
    ctx.add_leg(Leg {
        name: leg_parse.clone(),
        engine: "E4".into(),
        states: specs.len() as u64,
        transitions: parse_calls,
        evaluations: specs.len() as u64,
        distinct_nontrivial: n_dup,
        rule: "generated patterns that name a parameter twice (must be rejected)".into(),
        samples: parse_samples,
        exhaustive: true,
        bounds: sp.bounds(),
        wall_s: t0.elapsed().as_secs_f64(),
    });

    // ---------------- roundtrip leg
    let t0 = Instant::now();
    let leg_rt = format!("{}_roundtrip", sp.name);
    struct RtRow {
        uris: Vec<(String, bool)>, // (uri, probe)
        fails: Vec<(PMap, Fail, String)>,
        nfail: u64,
        calls: u64,
        evals: u64,
        nontrivial: u64,
        sample: Option<Value>,
    }
    let maps_cache: Mutex<HashMap<Vec<String>, std::sync::Arc<Vec<PMap>>>> = Mutex::new(HashMap::new());
    let rows: Vec<RtRow> = par_map(&pats, threads, |_, p| {
        let maps = {
            let mut c = maps_cache.lock().unwrap();
            c.entry(p.universe.clone()).or_insert_with(|| std::sync::Arc::new(all_maps(&p.universe))).clone()
        };
        let mut row = RtRow { uris: vec![], fails: vec![], nfail: 0, calls: 0, evals: 0, nontrivial: 0, sample: None };
        let mut row_sigs: BTreeSet<String> = BTreeSet::new();
        let mut row_uris: BTreeSet<(String, bool)> = BTreeSet::new();
        let mut nontriv: BTreeSet<PMap> = BTreeSet::new();
        let encoded_lit = p.spec.segs.iter().any(|s| matches!(s, Seg::Lit(l) if l.contains('%') || !l.is_ascii()));
        for m in maps.iter() {
            let r = roundtrip(p, m);
            row.calls += r.calls;
            row.evals += 1;
            if let Some(u) = &r.uri {
                row_uris.insert((u.clone(), !r.synth));
                if r.synth && (!p.params.is_empty() || encoded_lit) {
                    let restricted: PMap = p.params.iter().filter_map(|n| m.get(n).map(|v| (n.clone(), v.clone()))).collect();
                    if nontriv.insert(restricted.clone()) && row.sample.is_none() && restricted.values().any(|v| !v.is_ascii() || v.contains(' ')) {
                        row.sample = Some(json!({"pattern": p.spec.text, "map": restricted, "uri": u, "roundtrip": r.fail.is_none()}));
                    }
                }
            }
            if let Some(f) = r.fail {
                row.nfail += 1;
                // smallest reproducing map: the pattern's own parameters only, if that still fails
                let restricted: PMap = p.params.iter().filter_map(|n| m.get(n).map(|v| (n.clone(), v.clone()))).collect();
                let (mm, f) = match roundtrip(p, &restricted).fail {
                    Some(f2) if f2.law == f.law && f2.kind == f.kind => (restricted, f2),
                    _ => (m.clone(), f),
                };
                let culprit =
                    if f.law == "no_panic" || f.law == "entrypoints_agree" { None } else { Some(roundtrip_culprit(p, &mm, &f.law)) };
                let sig = signature(&f, culprit.as_deref());
                if row_sigs.insert(sig.clone()) {
                    row.fails.push((mm, f, sig));
                }
            }
        }
        // probes: one parameter's segment emptied (apply itself refuses "")
        for (i, n) in p.params.iter().enumerate() {
            let mut hm = HashMap::new();
            for (j, n2) in p.params.iter().enumerate() {
                hm.insert(n2.clone(), if i == j { SENTINEL.to_string() } else { "a".to_string() });
            }
            row.calls += 1;
            if let Ok(Ok(u)) = guard(|| p.rp.apply(&hm)) {
                let _ = n;
                row_uris.insert((u.replacen(SENTINEL, "", 1), true));
            }
        }
        // canonical URIs: the same (pattern, map) written through an all-parameter sibling pattern of
        // the same form, so that literals appear percent-encoded as apply encodes values (for the
        // literal "é" this is the only valid URI text that matches it)
        if p.spec.segs.iter().any(|s| matches!(s, Seg::Lit(_))) {
            let sib_segs: Vec<Seg> = (0..p.spec.segs.len()).map(|i| Seg::Par(format!("p{}", i))).collect();
            let sib = Spec::new(p.spec.scheme.as_deref(), p.spec.absolute, sib_segs);
            if let Some(sib) = make_pat(&sib, &[]) {
                let mut seen: BTreeSet<PMap> = BTreeSet::new();
                for m in maps.iter() {
                    if !p.params.iter().all(|n| m.get(n).map_or(false, |v| !v.is_empty())) {
                        continue;
                    }
                    let mut mm = PMap::new();
                    for (i, sg) in p.spec.segs.iter().enumerate() {
                        let v = match sg {
                            Seg::Lit(l) => String::from_utf8_lossy(&pdecode(l)).to_string(),
                            Seg::Par(n) => m[n].clone(),
                        };
                        mm.insert(format!("p{}", i), v);
                    }
                    if !seen.insert(mm.clone()) {
                        continue;
                    }
                    row.calls += 1;
                    if let Ok(Ok(u)) = guard(|| sib.rp.apply(&to_hash(&mm))) {
                        row_uris.insert((u, true));
                    }
                }
            }
        }
        row.uris = row_uris.into_iter().collect();
        row.nontrivial = nontriv.len() as u64;
        row
    });
    let mut rt_calls = 0;
    let mut rt_evals = 0;
    let mut rt_nontrivial = 0;
    let mut rt_samples = vec![];
    let mut origins: BTreeMap<String, u32> = BTreeMap::new();
    let mut probes: BTreeSet<String> = BTreeSet::new();
    let mut rt_fail_count = 0u64;
    for (pi, row) in rows.iter().enumerate() {
        rt_calls += row.calls;
        rt_evals += row.evals;
        rt_nontrivial += row.nontrivial;
        if let Some(s) = &row.sample {
            if rt_samples.len() < 3 && pi % 7 == 3 {
                rt_samples.push(s.clone());
            }
        }
        for (u, probe) in &row.uris {
            if *probe {
                probes.insert(u.clone());
            } else {
                *origins.entry(u.clone()).or_insert(0) += 1;
            }
        }
        rt_fail_count += row.nfail;
        for (m, f, sig) in &row.fails {
            let p = &pats[pi];
            out.push(Collected {
                sig: sig.clone(),
                leg: leg_rt.clone(),
                detail: json!({"what": f.what, "example": {"pattern": p.spec.text, "map": m},
                               "replay": {"case": "roundtrip", "pattern": p.spec.to_json(), "map": m}}),
            });
        }
    }
    if rt_samples.is_empty() {
        rt_samples = rows.iter().filter_map(|r| r.sample.clone()).take(3).collect();
    }
    let multi_origin = origins.values().filter(|c| **c >= 2).count();
    ctx.add_leg(Leg {
        name: leg_rt.clone(),
        engine: "E4".into(),
        states: rt_evals,
        transitions: rt_calls,
        evaluations: rt_evals,
        distinct_nontrivial: rt_nontrivial,
        rule: "distinct (pattern, bound parameters) whose apply succeeded and that has a parameter or a percent-encoded / non-ASCII literal".into(),
        samples: rt_samples,
        exhaustive: true,
        bounds: json!({"patterns": pats.len(), "maps_per_pattern": all_maps(&universe).len(), "failing_cases": rt_fail_count,
                       "distinct_uris": origins.len(), "uris_reached_from_more_than_one_pattern": multi_origin}),
        wall_s: t0.elapsed().as_secs_f64(),
    });
    drop(rows);

    // ---------------- matrix leg
    let t0 = Instant::now();
    let leg_mx = format!("{}_matrix", sp.name);
    for u in odd_uris() {
        probes.insert(u.to_string());
    }
    let mut pool: Vec<(String, bool)> = origins.keys().map(|u| (u.clone(), false)).collect();
    for u in &probes {
        if !origins.contains_key(u) {
            pool.push((u.clone(), true));
        }
    }
    pool.sort_by(|a, b| (a.0.len(), &a.0).cmp(&(b.0.len(), &b.0)));
    let n = pats.len();
    let tri = |i: usize, j: usize| -> usize { i * n - i * (i + 1) / 2 + (j - i - 1) };
    // one bit per unordered pair of patterns: some URI of the pool matches both
    let npairs = n * n.saturating_sub(1) / 2;
    let overlap: Vec<AtomicU64> = (0..npairs / 64 + 1).map(|_| AtomicU64::new(0)).collect();
    let set_overlap = |i: usize, j: usize| {
        let t = tri(i, j);
        let bit = 1u64 << (t % 64);
        if overlap[t / 64].load(Ordering::Relaxed) & bit == 0 {
            overlap[t / 64].fetch_or(bit, Ordering::Relaxed);
        }
    };
    let has_overlap = |i: usize, j: usize| -> bool {
        let t = tri(i, j);
        overlap[t / 64].load(Ordering::Relaxed) & (1u64 << (t % 64)) != 0
    };
    struct MxRow {
        valid: bool,
        matches: u32,
        fails: Vec<(usize, Fail)>,
        calls: u64,
        sample: Option<Value>,
    }
    let mut mx_calls = 0u64;
    let mut mx_evals = 0u64;
    let mut mx_matches = 0u64;
    let mut mx_invalid = 0u64;
    let mut mx_done = 0usize;
    let mut mx_samples = vec![];
    let mut capped = false;
    let chunk = 2048;
    let mut start = 0;
    while start < pool.len() {
        if t0.elapsed().as_secs_f64() > wall_cap_s {
            capped = true;
            break;
        }
        let end = (start + chunk).min(pool.len());
        let base = start;
        let rows: Vec<MxRow> = par_map(&pool[start..end], threads, |_k, (u, _probe)| {
            let ru = guard(|| RouteUri::from_str(u)).ok().and_then(|r| r.ok());
            let mut row = MxRow { valid: ru.is_some(), matches: 0, fails: vec![], calls: 1, sample: None };
            let mut ms: Vec<u32> = vec![];
            for (qi, q) in pats.iter().enumerate() {
                let r = matrix_case(u, ru.as_ref(), q);
                row.calls += r.calls;
                if r.matched {
                    ms.push(qi as u32);
                }
                if let Some(f) = r.fail {
                    if row.fails.len() < 4 {
                        row.fails.push((qi, f));
                    }
                }
            }
            for a in 0..ms.len() {
                for b in a + 1..ms.len() {
                    set_overlap(ms[a] as usize, ms[b] as usize);
                }
            }
            row.matches = ms.len() as u32;
            if ms.len() >= 2 && ms.len() <= 6 {
                row.sample = Some(json!({"uri": u, "matched_by": ms.iter().map(|i| pats[*i as usize].spec.text.clone()).collect::<Vec<_>>()}));
            }
            row
        });
        for (k, row) in rows.iter().enumerate() {
            mx_calls += row.calls;
            mx_evals += n as u64;
            mx_matches += row.matches as u64;
            if !row.valid {
                mx_invalid += 1;
            }
            if let Some(s) = &row.sample {
                if mx_samples.len() < 3 && (base + k) % 97 == 5 {
                    mx_samples.push(s.clone());
                }
            }
            for (qi, f) in &row.fails {
                let q = &pats[*qi];
                let u = &pool[base + k].0;
                out.push(Collected {
                    sig: signature(f, None),
                    leg: leg_mx.clone(),
                    detail: json!({"what": f.what, "example": {"uri": u, "pattern": q.spec.text},
                                   "replay": {"case": "matrix", "uri": u, "pattern": q.spec.to_json()}}),
                });
            }
        }
        mx_done = end;
        start = end;
    }
    if capped {
        ctx.assume(&format!(
            "{}: wall cap hit after {} of {} URIs (smallest first); later URIs were not matched",
            leg_mx,
            mx_done,
            pool.len()
        ));
    }
    ctx.add_leg(Leg {
        name: leg_mx.clone(),
        engine: "E4".into(),
        states: mx_done as u64,
        transitions: mx_calls,
        evaluations: mx_evals,
        distinct_nontrivial: mx_matches,
        rule: "(URI, pattern) cases in which the pattern matched the URI".into(),
        samples: mx_samples,
        exhaustive: !capped,
        bounds: json!({"uris": pool.len(), "uris_done": mx_done, "derived_uris_not_produced_by_a_generated_pattern": pool.iter().filter(|p| p.1).count(),
                       "uris_rejected_by_RouteUri": mx_invalid, "patterns": n}),
        wall_s: t0.elapsed().as_secs_f64(),
    });

    // ---------------- pairs leg
    let t0 = Instant::now();
    let leg_pr = format!("{}_pairs", sp.name);
    #[derive(Default)]
    struct PrRow {
        pairs: u64,
        ambiguous: u64,
        overlap: u64,
        over_absrel: u64,
        over_scheme: u64,
        over_other: u64,
        asym: u64,
        nfail: u64,
        fails: Vec<usize>,
        over_sample: Option<Value>,
        sample: Option<usize>,
    }
    // first URI of the (completed part of the) pool that both patterns match
    let find_witness = |p: &Pat, q: &Pat| -> Option<String> {
        pool[..mx_done].iter().map(|(u, _)| u).find(|u| {
            let ru = guard(|| RouteUri::from_str(u)).ok().and_then(|r| r.ok());
            ru.is_some() && matrix_case(u, ru.as_ref(), p).matched && matrix_case(u, ru.as_ref(), q).matched
        }).cloned()
    };
    let idx: Vec<usize> = (0..n).collect();
    let rows: Vec<PrRow> = par_map(&idx, threads, |_, &i| {
        let mut row = PrRow::default();
        for j in i + 1..n {
            let (p, q) = (&pats[i], &pats[j]);
            if p.spec.text == q.spec.text {
                continue;
            }
            let ov = has_overlap(i, j);
            let r = pair_case(p, q, if ov { Some("") } else { None });
            row.pairs += 1;
            if r.amb_pq || r.amb_qp {
                row.ambiguous += 1;
            }
            if r.amb_pq != r.amb_qp {
                row.asym += 1;
            }
            if ov {
                row.overlap += 1;
                if row.sample.is_none() && r.fail.is_none() && p.spec.segs.len() >= 2 {
                    row.sample = Some(j);
                }
            } else if r.amb_pq || r.amb_qp {
                if p.spec.absolute != q.spec.absolute {
                    row.over_absrel += 1;
                } else if matches!((&p.spec.scheme, &q.spec.scheme), (Some(a), Some(b)) if a != b) {
                    row.over_scheme += 1;
                } else {
                    row.over_other += 1;
                    if row.over_sample.is_none() {
                        row.over_sample = Some(json!({"p": p.spec.text, "q": q.spec.text}));
                    }
                }
            }
            if r.fail.is_some() {
                row.nfail += 1;
                if row.fails.len() < 8 {
                    row.fails.push(j);
                }
            }
        }
        row
    });
    let cache = Mutex::new(HashMap::new());
    let mut tot = PrRow::default();
    let mut pr_samples = vec![];
    let mut over_samples = vec![];
    let mut sample_pairs = vec![];
    for (i, row) in rows.iter().enumerate() {
        tot.pairs += row.pairs;
        tot.ambiguous += row.ambiguous;
        tot.overlap += row.overlap;
        tot.over_absrel += row.over_absrel;
        tot.over_scheme += row.over_scheme;
        tot.over_other += row.over_other;
        tot.asym += row.asym;
        tot.nfail += row.nfail;
        if let Some(j) = row.sample {
            if sample_pairs.len() < 3 && (i % 11 == 7 || n < 12) {
                sample_pairs.push((i, j));
            }
        }
        if let Some(s) = &row.over_sample {
            if over_samples.len() < 5 {
                over_samples.push(s.clone());
            }
        }
        for j in &row.fails {
            let (p, q) = (&pats[i], &pats[*j]);
            let f0 = match pair_case(p, q, Some("")).fail {
                Some(f) => f,
                None => continue,
            };
            let culprit = if f0.law == "no_panic" { None } else { Some(pair_culprit(p, q, &cache)) };
            let sig = signature(&f0, culprit.as_deref());
            if out.seen.contains(&sig) {
                continue;
            }
            // only now look for the smallest common URI (a scan of the pool)
            let wu = find_witness(p, q);
            let f = pair_case(p, q, wu.as_deref()).fail.unwrap_or(f0);
            out.push(Collected {
                sig,
                leg: leg_pr.clone(),
                detail: json!({"what": f.what, "example": {"p": p.spec.text, "q": q.spec.text, "uri": wu},
                               "replay": {"case": "pair", "p": p.spec.to_json(), "q": q.spec.to_json(), "uri": wu}}),
            });
        }
    }
    for (i, j) in sample_pairs {
        let (p, q) = (&pats[i], &pats[j]);
        pr_samples.push(json!({"p": p.spec.text, "q": q.spec.text, "common_uri": find_witness(p, q), "are_ambiguous": true}));
    }
    ctx.add_leg(Leg {
        name: leg_pr.clone(),
        engine: "E4".into(),
        states: tot.pairs,
        transitions: tot.pairs * 2,
        evaluations: tot.pairs,
        distinct_nontrivial: tot.overlap,
        rule: "unordered pairs of distinct patterns for which some URI of the pool matches both".into(),
        samples: pr_samples,
        exhaustive: !capped,
        bounds: json!({"patterns": n, "pairs": tot.pairs, "pairs_with_common_uri": tot.overlap,
                       "pairs_reported_ambiguous": tot.ambiguous,
                       "over_approximation_count": tot.over_absrel + tot.over_scheme + tot.over_other,
                       "over_approximation_absolute_vs_relative": tot.over_absrel,
                       "over_approximation_different_schemes": tot.over_scheme,
                       "over_approximation_other": tot.over_other,
                       "over_approximation_other_samples": over_samples,
                       "asymmetric_answers": tot.asym,
                       "pairs_with_common_uri_not_reported": tot.nfail}),
        wall_s: t0.elapsed().as_secs_f64(),
    });
}

// ------------------------------------------------------------------------------------------
// malformed / odd patterns

/// Every printable ASCII character (alone, doubled, and before / after a plain letter) as the
/// value of a parameter in first and in second position: whatever `apply` chooses not to escape
/// must be accepted, whole, by the URI parser and come back unchanged.
fn run_ascii_values(ctx: &Ctx, out: &mut Sink) {
    let t0 = Instant::now();
    let pats: Vec<Pat> = [Spec::new(None, true, vec![par("x")]), Spec::new(None, true, vec![lit("a"), par("x")]), Spec::new(None, true, vec![par("x"), lit("a")]), Spec::new(Some("swim"), false, vec![lit("a"), par("x")])]
        .iter()
        .filter_map(|sp| make_pat(sp, &[]))
        .collect();
    let mut evals = 0u64;
    let mut calls = 0u64;
    let mut failing = 0u64;
    for c in 0x20u8..0x7f {
        let ch = c as char;
        for v in [format!("{}", ch), format!("{}{}", ch, ch), format!("a{}", ch), format!("{}a", ch), format!("a{}b", ch)] {
            for p in &pats {
                let mut m = PMap::new();
                m.insert("x".to_string(), v.clone());
                let rt = roundtrip(p, &m);
                evals += 1;
                calls += rt.calls;
                if let Some(f) = rt.fail {
                    failing += 1;
                    let sig = signature(&f, Some(&format!("param_value_char({:?})", ch)));
                    out.push(Collected {
                        sig,
                        leg: "ascii_values".to_string(),
                        detail: json!({"what": f.what, "example": {"pattern": p.spec.text, "map": m},
                                       "replay": {"case": "roundtrip", "pattern": p.spec.to_json(), "map": m}}),
                    });
                }
            }
        }
    }
    ctx.add_leg(Leg {
        name: "ascii_values".into(),
        engine: "E4".into(),
        states: evals,
        transitions: calls,
        evaluations: evals,
        distinct_nontrivial: evals,
        rule: "every printable ASCII character in five placements as a parameter value, four one/two segment patterns".into(),
        samples: vec![],
        exhaustive: true,
        bounds: json!({"characters": "0x20..0x7e", "placements": ["c", "cc", "ac", "ca", "acb"], "patterns": pats.iter().map(|p| p.spec.text.clone()).collect::<Vec<_>>(), "failing_cases": failing}),
        wall_s: t0.elapsed().as_secs_f64(),
    });
}

fn run_malformed(ctx: &Ctx, out: &mut Sink) {
    let t0 = Instant::now();
    let leg = "malformed";
    let mut calls = 0u64;
    let mut evals = 0u64;
    let mut rejected = 0u64;
    let mut samples = vec![];
    for (text, class) in must_err() {
        evals += 1;
        calls += 1;
        let case = json!({"case": "parse_text", "text": text, "expect": "err", "class": class});
        match guard(|| RoutePattern::parse_str(text)) {
            Err(pm) => out.push(Collected {
                sig: "law=no_panic call=parse_str".into(),
                leg: leg.into(),
                detail: json!({"what": format!("parse_str panicked: {}", pm), "example": text, "replay": case}),
            }),
            Ok(Ok(_)) => out.push(Collected {
                sig: format!("law=parse_rejects_malformed class={}", class),
                leg: leg.into(),
                detail: json!({"what": format!("malformed pattern ({}) was accepted", class), "example": text, "replay": case}),
            }),
            Ok(Err(e)) => {
                rejected += 1;
                if samples.len() < 3 && evals % 9 == 5 {
                    samples.push(json!({"pattern": text, "class": class, "result": e.to_string()}));
                }
            }
        }
    }
    let uris = odd_uris();
    for text in odd_patterns() {
        evals += 1;
        let case = json!({"case": "parse_text", "text": text, "expect": "nopanic"});
        let f = odd_case(&text, &uris, &mut calls);
        if let Some(f) = f {
            out.push(Collected {
                sig: signature(&f, None),
                leg: leg.into(),
                detail: json!({"what": f.what, "example": text, "replay": case}),
            });
        }
    }
    ctx.add_leg(Leg {
        name: leg.into(),
        engine: "E4".into(),
        states: evals,
        transitions: calls,
        evaluations: evals,
        distinct_nontrivial: rejected,
        rule: "hand-written malformed patterns (empty pattern, empty segment, lone ':', duplicate parameter) that were rejected with Err".into(),
        samples,
        exhaustive: true,
        bounds: json!({"must_be_rejected": must_err().len(), "no_panic_only": odd_patterns().len(), "odd_uris": uris.len()}),
        wall_s: t0.elapsed().as_secs_f64(),
    });
}

/// An odd pattern: whatever parse says, nothing may panic on parse / apply / unapply.
fn odd_case(text: &str, uris: &[&str], calls: &mut u64) -> Option<Fail> {
    *calls += 1;
    let rp = match guard(|| RoutePattern::parse_str(text)) {
        Err(pm) => return fail("no_panic", "parse_str", format!("parse_str({:?}) panicked: {}", text, pm)),
        Ok(Err(_)) => return None,
        Ok(Ok(rp)) => rp,
    };
    let params: Vec<String> = match guard(|| rp.parameters().map(|s| s.to_string()).collect::<Vec<_>>()) {
        Ok(p) => p,
        Err(pm) => return fail("no_panic", "parameters", pm),
    };
    let mut uni: Vec<String> = params.clone();
    uni.sort();
    uni.dedup();
    uni.truncate(2);
    for m in all_maps(&uni) {
        *calls += 1;
        match guard(|| rp.apply(&to_hash(&m))) {
            Err(pm) => return fail("no_panic", "apply", format!("apply on {:?} panicked: {}", text, pm)),
            Ok(Err(_)) => {}
            Ok(Ok(u)) => {
                *calls += 1;
                if let Err(pm) = guard(|| rp.unapply_str(&u)) {
                    return fail("no_panic", "unapply_str", format!("unapply_str({:?}) on {:?} panicked: {}", u, text, pm));
                }
            }
        }
    }
    for u in uris {
        *calls += 1;
        if let Err(pm) = guard(|| rp.unapply_str(u)) {
            return fail("no_panic", "unapply_str", format!("unapply_str({:?}) on {:?} panicked: {}", u, text, pm));
        }
    }
    None
}

// ------------------------------------------------------------------------------------------

fn replay(ctx: &Ctx, r: &Value) -> Option<String> {
    let d = &r["detail"]["replay"];
    match d["case"].as_str().unwrap_or("") {
        "parse" => {
            let spec = Spec::from_json(&d["pattern"]);
            match (guard(|| RoutePattern::parse_str(&spec.text)), d["expect"].as_str().unwrap_or("")) {
                (Err(pm), _) => Some(format!("parse_str panicked: {}", pm)),
                (Ok(Ok(_)), "err") => Some(format!("'{}' accepted", spec.text)),
                (Ok(Err(e)), "ok") => Some(format!("'{}' rejected: {}", spec.text, e)),
                (Ok(Ok(rp)), "ok") => {
                    let got: Vec<String> = rp.parameters().map(|s| s.to_string()).collect();
                    if got != spec.params()
                        || rp.scheme_str().map(|s| s.to_string()) != spec.scheme
                        || rp.has_absolute_path() != spec.absolute
                        || rp.to_string() != spec.text
                    {
                        Some(format!("'{}' parsed to a different structure", spec.text))
                    } else {
                        None
                    }
                }
                _ => None,
            }
        }
        "parse_text" => {
            let text = d["text"].as_str().unwrap_or("");
            if d["expect"] == "err" {
                match guard(|| RoutePattern::parse_str(text)) {
                    Err(pm) => Some(format!("parse_str panicked: {}", pm)),
                    Ok(Ok(_)) => Some(format!("{:?} accepted", text)),
                    Ok(Err(_)) => None,
                }
            } else {
                let mut c = 0;
                odd_case(text, &odd_uris(), &mut c).map(|f| f.what)
            }
        }
        "roundtrip" => {
            let spec = Spec::from_json(&d["pattern"]);
            let m: PMap = d["map"]
                .as_object()
                .map(|o| o.iter().map(|(k, v)| (k.clone(), v.as_str().unwrap_or("").to_string())).collect())
                .unwrap_or_default();
            match make_pat(&spec, &[]) {
                None => Some(format!("pattern '{}' no longer parses", spec.text)),
                Some(p) => roundtrip(&p, &m).fail.map(|f| f.what),
            }
        }
        "matrix" => {
            let spec = Spec::from_json(&d["pattern"]);
            let u = d["uri"].as_str().unwrap_or("");
            match make_pat(&spec, &[]) {
                None => Some(format!("pattern '{}' no longer parses", spec.text)),
                Some(q) => {
                    let ru = guard(|| RouteUri::from_str(u)).ok().and_then(|r| r.ok());
                    matrix_case(u, ru.as_ref(), &q).fail.map(|f| f.what)
                }
            }
        }
        "pair" => {
            let (p, q) = (Spec::from_json(&d["p"]), Spec::from_json(&d["q"]));
            let u = d["uri"].as_str().unwrap_or("");
            match (make_pat(&p, &[]), make_pat(&q, &[])) {
                (Some(p), Some(q)) => {
                    let ru = guard(|| RouteUri::from_str(u)).ok().and_then(|r| r.ok());
                    let both = matrix_case(u, ru.as_ref(), &p).matched && matrix_case(u, ru.as_ref(), &q).matched;
                    if both {
                        pair_case(&p, &q, Some(u)).fail.map(|f| f.what)
                    } else {
                        None
                    }
                }
                _ => Some("a pattern of the pair no longer parses".to_string()),
            }
        }
        other => vcommon::machinery_failure(&format!("{}: unknown replay case {:?}", ctx.id, other)),
    }
}

// ---------------------------------------------------------------------------------------------
// leg server-accepts-routes: the route table of a server
// ---------------------------------------------------------------------------------------------

struct AgentDef;

impl swimos_api::agent::Agent for AgentDef {
    fn run(
        &self,
        _route: RouteUri,
        _route_params: HashMap<String, String>,
        _config: swimos_api::agent::AgentConfig,
        _context: Box<dyn swimos_api::agent::AgentContext + Send>,
    ) -> futures::future::BoxFuture<'static, swimos_api::agent::AgentInitResult> {
        panic!("not runnable")
    }
}

/// Does the real `ServerBuilder` accept this route table? `Err` = machinery trouble.
fn server_accepts(table: &[&str]) -> Result<bool, String> {
    let table: Vec<String> = table.iter().map(|s| s.to_string()).collect();
    std::thread::spawn(move || {
        let rt = tokio::runtime::Builder::new_current_thread().enable_all().build().map_err(|e| e.to_string())?;
        rt.block_on(async move {
            let mut b = swimos_server_app::ServerBuilder::with_plane_name("plane");
            for t in &table {
                let p = RoutePattern::parse_str(t).map_err(|e| format!("{}: {:?}", t, e))?;
                b = b.add_route(p, AgentDef);
            }
            match b.build().await {
                Ok(_) => Ok(true),
                Err(swimos_server_app::ServerBuilderError::BadRoutes(_)) => Ok(false),
                Err(e) => Err(format!("{}", e)),
            }
        })
    })
    .join()
    .unwrap_or_else(|_| Err("panic".into()))
}

/// Every table of two routes (the same text twice included) and of three routes with an unrelated
/// one in the middle, over a small pool: the server refuses the table exactly when two of its
/// routes are ambiguous - so that a server that accepted its routes resolves every URI to at most
/// one agent definition.
fn run_server_tables(ctx: &Ctx, out: &mut Sink) {
    let t0 = Instant::now();
    let pool = ["/a", "/:x", "/a/:x", "/a/b", "/:x/b", "swim:/a", "/%61", "/é", "/a/:y", "/b", "/unit/:id", "swim:/a/b"];
    let mut tables: Vec<Vec<&str>> = vec![];
    for p in pool {
        for q in pool {
            tables.push(vec![p, q]);
            tables.push(vec![p, "/zz/zz/zz", q]);
        }
    }
    let results = vcommon::par_map(&tables, vcommon::ncpu(), |_, t| {
        let accepted = server_accepts(t);
        let pats: Vec<RoutePattern> = t.iter().map(|s| RoutePattern::parse_str(s).unwrap()).collect();
        let mut amb = false;
        for i in 0..pats.len() {
            for j in (i + 1)..pats.len() {
                amb |= RoutePattern::are_ambiguous(&pats[i], &pats[j]);
            }
        }
        (accepted, amb)
    });
    let mut evals = 0u64;
    for (t, (accepted, amb)) in tables.iter().zip(results) {
        evals += 1;
        match accepted {
            Err(e) => vcommon::machinery_failure(&format!("server-accepts-routes: {:?}: {}", t, e)),
            Ok(acc) => {
                if acc == amb {
                    let same_text = t.first() == t.last();
                    let what = format!("route table {:?}: the server {} it although the routes {} pairwise ambiguous", t, if acc { "accepted" } else { "refused" }, if amb { "are" } else { "are not" });
                    out.push(Collected {
                        leg: "server-accepts-routes".into(),
                        sig: format!("law=server_refuses_iff_ambiguous got={} same_text={} routes={}", if acc { "accepted" } else { "refused" }, same_text, t.len()),
                        detail: json!({"what": what, "example": t, "replay": {"table": t}}),
                    });
                }
            }
        }
    }
    ctx.add_leg(Leg {
        name: "server-accepts-routes".into(),
        engine: "E4-enum".into(),
        states: tables.len() as u64,
        transitions: evals * 2,
        evaluations: evals,
        distinct_nontrivial: tables.iter().filter(|t| t.first() == t.last()).count() as u64,
        rule: "every route table of two routes from the pool (the same text twice included), with and without an unrelated route between them, given to the real ServerBuilder; non-trivial = tables with the same pattern text twice".into(),
        samples: vec![json!(["/unit/:id", "/unit/:id"]), json!(["swim:/a/b", "/zz/zz/zz", "swim:/a/b"])],
        exhaustive: true,
        bounds: json!({"pool": pool, "table_sizes": [2, 3]}),
        wall_s: t0.elapsed().as_secs_f64(),
    });
}

fn main() {
    std::panic::set_hook(Box::new(|_| {}));
    let ctx = Ctx::from_env("C18");

    if let Some(r) = ctx.replay_request() {
        let r = r.clone();
        if let Some(what) = replay(&ctx, &r) {
            ctx.violation(
                "replay",
                r["signature"].as_str().unwrap_or("replay"),
                json!({"what": what, "example": r["detail"]["example"], "replay": r["detail"]["replay"]}),
            );
        }
        ctx.finish("model_checking", "replay");
    }

    let quick = ctx.quick();
    let main_len = if quick { 3 } else { 4 };
    let alias_len = if quick { 2 } else { 3 };
    let meta = vec![
        // the patterns PlaneModel::check_meta_collisions tests every route against
        Spec::new(Some("swimos"), false, vec![lit("meta:node"), par("node_uri")]),
        Spec::new(Some("swimos"), false, vec![lit("meta:node"), par("node_uri"), lit("lane"), par("lane_name")]),
        Spec::new(Some("swimos"), false, vec![lit("meta:mesh")]),
    ];
    let mut spaces = vec![
        Space {
            name: "main",
            segs: vec![lit("a"), lit("b"), par("x"), par("y"), lit("a%20b"), lit("é")],
            max_len: main_len,
            schemes: vec![(None, main_len), (Some("swim"), main_len), (Some("warp"), 2)],
            extras: meta,
        },
        Space {
            // literals / parameter names that are different texts of the same decoded segment
            name: "alias",
            // (%E9 / %E8: single bytes that are not valid UTF-8 on their own)
            segs: vec![lit("a"), lit("%61"), lit("é"), lit("%C3%A9"), lit("%c3%a9"), lit("%E9"), lit("%E8"), par("x"), par("%78")],
            max_len: alias_len,
            schemes: vec![(None, alias_len), (Some("swim"), alias_len)],
            extras: vec![],
        },
    ];
    if !quick {
        // one segment deeper than the stated bound (without the literal "b", which is symmetric to
        // "a"), run last under its own wall cap: if the cap is hit the legs above are still complete
        // and this one says how far it got
        spaces.push(Space {
            name: "deep",
            segs: vec![lit("a"), par("x"), par("y"), lit("a%20b"), lit("é")],
            max_len: 5,
            schemes: vec![(None, 5), (Some("swim"), 5)],
            extras: vec![],
        });
    }
    let mut out = Sink::default();
    run_malformed(&ctx, &mut out);
    run_ascii_values(&ctx, &mut out);
    run_server_tables(&ctx, &mut out);
    for sp in &spaces {
        let cap = if quick {
            40.0
        } else if sp.name == "deep" {
            420.0
        } else {
            240.0
        };
        run_space(&ctx, sp, cap, &mut out);
    }
    // violations are reported in enumeration order (smallest first): the first per signature is kept
    for c in &out.items {
        ctx.violation(&c.leg, &c.sig, c.detail.clone());
    }
    ctx.finish(
        "model_checking",
        "Bounded exhaustive enumeration (E4) of route patterns over a segment alphabet (literals, parameters, \
         percent-encoded and non-ASCII segments; with and without scheme; absolute and relative), all parameter \
         maps over boundary values, every synthesised URI against every pattern, and every pair of patterns; \
         checked on swimos_route::RoutePattern / RouteUri through the entry points the server uses \
         (RouteUri::from_str + unapply_route_uri, RoutePattern::are_ambiguous).",
    );
}

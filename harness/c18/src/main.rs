fn main() {
    vcommon::machinery_failure("C18: engine not built yet");
}

//! C01 - Value lanes: subscribers see an ordered, gap-tolerant, never-stale view.
//! Engine E1 over the agent-system harness: real agent + runtime future, scripted remotes that
//! link/sync/command a value lane (commands and handler-originated sets), slow and fast readers,
//! tiny and large channels, every schedule within the deviation bound.

use asys::grid::{grid, replay, run_grid, GridSpec};
use asys::oracle::{check_c01, check_c04};
use asys::scripts::*;
use asys::world::{set_checker, Mode, Observation, Step};
use vcommon::Ctx;

fn checker(obs: &Observation) -> Vec<(String, String)> {
    let mut v = check_c01(obs);
    // frames must also be well formed (a fabricated body is a C01 violation too: "never invented")
    for (s, e) in check_c04(obs) {
        if s.contains("never produced") || s.contains("undecodable") {
            v.push((s, e));
        }
    }
    v
}

fn setv(xs: &[i32]) -> Step {
    let ops: Vec<String> = xs.iter().map(|x| format!("@setv({})", x)).collect();
    let refs: Vec<&str> = ops.iter().map(|s| s.as_str()).collect();
    act(&refs)
}

fn scripts(quick: bool) -> Vec<(Vec<(usize, Step)>, usize)> {
    let observer = vec![link("v")];
    let syncer = vec![sync("v")];
    let writer = vec![link("v"), cmd("v", "1"), cmd("v", "2")];
    let handler_writer = vec![setv(&[4, 5]), setv(&[6])];
    let sync_write_unlink = vec![sync("v"), setv(&[7]), unlink("v")];
    let resync = vec![link("v"), sync("v"), cmd("v", "8"), sync("v")];
    let two_lanes = vec![link("w"), link("v"), cmd("w", "9"), cmd("v", "10")];
    let burst = vec![link("v"), setv(&[11, 22222222, 3, 44444])];
    let late = vec![cmd("v", "20"), cmd("v", "21"), link("v")];
    let mut out: Vec<(Vec<(usize, Step)>, usize)> = vec![];
    // single remote
    for s in [&writer, &sync_write_unlink, &resync, &two_lanes, &burst, &late] {
        out.push((sequential(&[s.clone()]), 1));
    }
    // observer + writer pairs: all interleavings for short ones, alternating for longer
    let pairs: Vec<(&Vec<Step>, &Vec<Step>)> = vec![
        (&observer, &writer),
        (&syncer, &handler_writer),
        (&observer, &handler_writer),
        (&syncer, &writer),
        (&sync_write_unlink, &writer),
        (&resync, &handler_writer),
        (&two_lanes, &observer),
        (&burst, &syncer),
    ];
    for (a, b) in pairs {
        let all = interleavings(&[a.clone(), b.clone()]);
        let step = if quick { (all.len() / 4).max(1) } else { 1 };
        for (i, s) in all.into_iter().enumerate() {
            if i % step == 0 {
                out.push((s, 2));
            }
        }
    }
    // set / sync / set from ONE remote (per-remote order is preserved) while a second remote only
    // observes: the sync is served with a change still pending inside the lane
    out.push((vec![(1, link("v")), (0, link("v")), (0, cmd("v", "31")), (0, sync("v")), (0, cmd("v", "32"))], 2));
    out.push((vec![(1, link("v")), (0, cmd("v", "33")), (0, sync("v")), (0, setv(&[34])), (0, sync("v")), (0, cmd("v", "35"))], 2));
    // a link request repeated on an open link, and a sync that overtakes its link, while values are
    // still waiting for the remote
    out.push((sequential(&[vec![link("v"), cmd("v", "41"), cmd("v", "42"), link("v"), cmd("v", "43")]]), 1));
    out.push((sequential(&[vec![sync("v"), link("v"), cmd("v", "44"), link("v")]]), 1));
    out.push((vec![(0, link("v")), (1, link("v")), (1, cmd("v", "45")), (0, link("v")), (1, cmd("v", "46")), (0, sync("v"))], 2));
    // a command the lane cannot decode (text for an i32 lane), in the middle of ordinary traffic
    out.push((sequential(&[vec![link("v"), cmd("v", "1"), cmd("v", "abc"), cmd("v", "2"), sync("v")]]), 1));
    out.push((vec![(1, link("v")), (0, cmd("v", "@bogus")), (0, cmd("v", "51")), (1, sync("v"))], 2));
    // values whose encodings differ in length
    out.push((sequential(&[vec![link("v"), cmd("v", "1"), cmd("v", "22222222"), cmd("v", "3"), sync("v"), cmd("v", "44444")]]), 1));
    // three remotes: observer, syncer, writer
    out.push((sequential(&[observer.clone(), syncer.clone(), writer.clone()]), 3));
    out.push((sequential(&[writer.clone(), observer.clone(), syncer.clone()]), 3));
    if !quick {
        for s in interleavings(&[observer.clone(), syncer.clone(), vec![cmd("v", "1"), setv(&[2, 3])]]) {
            out.push((s, 3));
        }
    }
    out
}

fn main() {
    let ctx = Ctx::from_env("C01");
    set_checker(checker);
    if let Some(r) = ctx.replay_request() {
        if r["leg"].as_str().map(|l| l.starts_with("uplinks")).unwrap_or(false) {
            asys::uplinks::replay(&ctx, r);
            ctx.finish("model_checking", "replay");
        }
        replay(&ctx, r);
        ctx.finish("model_checking", "replay");
    }
    let quick = ctx.quick();
    asys::uplinks::run(&ctx, "uplinks-bfs-value", if quick { 7 } else { 8 }, |m| {
        // every law except those that only concern the answer to a sync (C03): a value event that
        // leaves under another lane's name first shows as a violation of that other lane's law
        // (and the state is not explored further), while the value lane's subscriber goes stale
        !(m.contains("law=sync") || m.contains("law=synced")) || m.contains("lane-kind=value")
    });
    let sc = scripts(quick);
    let modes = [Mode::Eager, Mode::Burst, Mode::SlowRead];
    let cfgs = grid(&sc, &[8, 48, 4096], &[2, 3, 64], &modes, &[0]);
    let mut small = asys::grid::with_small_lane_buf(&cfgs);
    small.extend(asys::grid::with_small_lane_in_buf(&cfgs));
    small.extend(cfgs);
    let cfgs = small;
    run_grid(&ctx, GridSpec { name: "as-value-grid-d1".into(), cfgs, bound: 1, max_exec_per_cfg: 20_000, wall_cap_s: if quick { 25.0 } else { 900.0 } });
    // core: tightest capacity, small credit, d <= 2
    let core: Vec<_> = sc.iter().filter(|(s, _)| s.len() <= 5).cloned().collect();
    let cfgs = grid(&core, &[8], &[2, 64], &[Mode::Eager, Mode::SlowRead], &[0, 7]);
    run_grid(&ctx, GridSpec { name: "as-value-core-d2".into(), cfgs, bound: if quick { 2 } else { 3 }, max_exec_per_cfg: if quick { 20_000 } else { 3_000_000 }, wall_cap_s: if quick { 20.0 } else { 1200.0 } });
    ctx.assume("tokio select! start index and HashMap iteration order are fixed per VERIF_SEED (deterministic interposer), not enumerated");
    ctx.assume("values are i32; every value written in a run is distinct so a received value identifies its write");
    ctx.finish(
        "model_checking",
        "deviation-bounded exhaustive schedule exploration of the real agent+runtime future; per remote and link session the received values must embed in order into the ground-truth history and equal the lane's value at quiescence",
    );
}

fn main() {
    vcommon::machinery_failure("C01: engine not built yet");
}

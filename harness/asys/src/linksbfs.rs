//! BFS over the real `Links` registry of the agent runtime's write task (with real
//! `UplinkReporter`s): every sequence of register / insert / remove / remove_remote / remove_lane /
//! remove_all / count_single / count_broadcast over 3 lanes x 3 remotes; after every operation the
//! reported counts and every public query must agree with a reference set of (lane, remote) pairs.
//! Used by C20 (all laws) and by C04 (the structural laws: which remote is linked to what).

use serde_json::json;
use std::collections::{BTreeMap, BTreeSet};
use std::time::Instant;
use swimos_runtime::agent::reporting::{UplinkReportReader, UplinkReporter};
use swimos_runtime::verif_hooks::Links;
use uuid::Uuid;
use vcommon::space::bfs_classified;
use vcommon::{Ctx, Leg};

#[derive(Clone, Debug, PartialEq, Eq, Hash, serde::Serialize, serde::Deserialize)]
pub enum Op {
    Register(u64),
    Insert(u64, u8),
    Remove(u64, u8),
    RemoveRemote(u8),
    RemoveLane(u64),
    RemoveAll,
    CountSingle(u64),
    CountBroadcast(u64),
}

const LANES: [u64; 3] = [1, 2, 3];
const REMOTES: [u8; 3] = [0, 1, 2];

fn rid(r: u8) -> Uuid {
    Uuid::from_u128(500 + r as u128)
}

pub struct Sim {
    links: Links,
    agg: UplinkReportReader,
    readers: BTreeMap<u64, UplinkReportReader>,
    /// a second handle on every lane's reporter, as the read task's lane sender holds one: the
    /// counters outlive the registry's entry and whoever reads them keeps seeing the last value set
    holders: Vec<UplinkReporter>,
    // reference
    pairs: BTreeSet<(u64, u8)>,
    registered: BTreeSet<u64>,
    removed_lanes: BTreeSet<u64>,
    ever_linked: BTreeSet<u64>,
}

impl Sim {
    fn new() -> Sim {
        let agg = UplinkReporter::default();
        let reader = agg.reader();
        Sim {
            links: Links::new(Some(agg)),
            agg: reader,
            readers: BTreeMap::new(),
            holders: vec![],
            pairs: BTreeSet::new(),
            registered: BTreeSet::new(),
            removed_lanes: BTreeSet::new(),
            ever_linked: BTreeSet::new(),
        }
    }

    fn enabled(&self) -> Vec<Op> {
        let mut v = vec![];
        for l in LANES {
            // a lane is registered (with its reporter) before it can be linked, once
            if !self.registered.contains(&l) && !self.ever_linked.contains(&l) && !self.removed_lanes.contains(&l) {
                v.push(Op::Register(l));
            }
        }
        for l in LANES {
            if self.removed_lanes.contains(&l) || !self.registered.contains(&l) {
                continue;
            }
            for r in REMOTES {
                v.push(Op::Insert(l, r));
                v.push(Op::Remove(l, r));
            }
        }
        for r in REMOTES {
            v.push(Op::RemoveRemote(r));
        }
        for l in LANES {
            if !self.removed_lanes.contains(&l) && self.registered.contains(&l) {
                v.push(Op::RemoveLane(l));
                v.push(Op::CountSingle(l));
                v.push(Op::CountBroadcast(l));
            }
        }
        v.push(Op::RemoveAll);
        v
    }

    fn apply(&mut self, op: &Op) -> Result<(), String> {
        let mut expect_lane_events: BTreeMap<u64, u64> = BTreeMap::new();
        let mut expect_agg_events = 0u64;
        match op {
            Op::Register(l) => {
                let rep = UplinkReporter::default();
                self.readers.insert(*l, rep.reader());
                self.holders.push(rep.clone());
                self.links.register_reporter(*l, rep);
                self.registered.insert(*l);
            }
            Op::Insert(l, r) => {
                self.links.insert(*l, rid(*r));
                self.pairs.insert((*l, *r));
                self.ever_linked.insert(*l);
            }
            Op::Remove(l, r) => {
                let t = self.links.remove(*l, rid(*r));
                let had = self.pairs.remove(&(*l, *r));
                let remote_has_links = self.pairs.iter().any(|(_, x)| x == r);
                if had && t.schedule_prune == remote_has_links {
                    return Err(format!("law=prune_iff_no_links: remove({},{}) schedule_prune={} but remote still has links: {}", l, r, t.schedule_prune, remote_has_links));
                }
            }
            Op::RemoveRemote(r) => {
                self.links.remove_remote(rid(*r));
                self.pairs.retain(|(_, x)| x != r);
            }
            Op::RemoveLane(l) => {
                let got: BTreeSet<Uuid> = self.links.remove_lane(*l).map(|t| t.remote_id).collect();
                let want: BTreeSet<Uuid> = self.pairs.iter().filter(|(x, _)| x == l).map(|(_, r)| rid(*r)).collect();
                if got != want {
                    return Err(format!("law=remove_lane_reports_its_links: remove_lane({}) yielded {:?}, linked were {:?}", l, got, want));
                }
                self.pairs.retain(|(x, _)| x != l);
                self.removed_lanes.insert(*l);
            }
            Op::RemoveAll => {
                let got: BTreeSet<(u64, Uuid)> = self.links.remove_all_links().collect();
                let want: BTreeSet<(u64, Uuid)> = self.pairs.iter().map(|(l, r)| (*l, rid(*r))).collect();
                if got != want {
                    return Err(format!("law=remove_all_reports_every_link: remove_all_links yielded {:?}, linked were {:?}", got, want));
                }
                self.pairs.clear();
            }
            Op::CountSingle(l) => {
                self.links.count_single(*l);
                // one event sent to one link of a lane that reports
                if self.registered.contains(l) {
                    *expect_lane_events.entry(*l).or_default() += 1;
                    expect_agg_events += 1;
                }
            }
            Op::CountBroadcast(l) => {
                self.links.count_broadcast(*l);
                let n = self.pairs.iter().filter(|(x, _)| x == l).count() as u64;
                if self.registered.contains(l) {
                    *expect_lane_events.entry(*l).or_default() += n;
                    expect_agg_events += n;
                }
            }
        }
        // observe: every reader, after every operation
        for l in LANES {
            if let Some(rd) = self.readers.get(&l) {
                if self.removed_lanes.contains(&l) {
                    // the lane is gone, its counters are not (the read task still holds them and the
                    // introspection reader keeps pulsing): no remote is linked to it any more
                    if let Some(s) = rd.snapshot() {
                        if s.link_count != 0 {
                            return Err(format!("law=removed_lane_reports_no_links: lane {} was removed (failed) but still reports {} links", l, s.link_count));
                        }
                    }
                    continue;
                }
                let want_links = self.pairs.iter().filter(|(x, _)| *x == l).count() as u64;
                match rd.snapshot() {
                    Some(s) => {
                        if s.link_count != want_links {
                            return Err(format!("law=lane_link_count_true: lane {} reports {} links but {} remotes are linked", l, s.link_count, want_links));
                        }
                        let want_ev = expect_lane_events.get(&l).cloned().unwrap_or(0);
                        if s.event_count != want_ev {
                            return Err(format!("law=lane_events_counted: lane {} counted {} events for this operation, expected {}", l, s.event_count, want_ev));
                        }
                    }
                    None => {
                        return Err(format!("law=lane_reporter_alive: the reporter registered for lane {} was dropped although the lane still exists", l));
                    }
                }
            }
        }
        match self.agg.snapshot() {
            Some(s) => {
                let want = self.pairs.len() as u64;
                if s.link_count != want {
                    return Err(format!("law=aggregate_link_count_true: the agent reports {} links but {} exist", s.link_count, want));
                }
                if s.event_count != expect_agg_events {
                    return Err(format!("law=aggregate_events_counted: the agent counted {} events for this operation, expected {}", s.event_count, expect_agg_events));
                }
            }
            None => return Err("law=aggregate_reporter_alive: aggregate reporter dropped".into()),
        }
        // structural agreement with the reference through the public queries
        for r in REMOTES {
            let want: BTreeSet<u64> = self.pairs.iter().filter(|(_, x)| *x == r).map(|(l, _)| *l).collect();
            let got: BTreeSet<u64> = self.links.linked_to(rid(r)).map(|s| s.iter().cloned().collect()).unwrap_or_default();
            if got != want {
                return Err(format!("law=linked_to_true: linked_to(remote {}) is {:?} but the remote is linked to {:?} (a remote with open links looks idle to the pruning timer, or the reverse)", r, got, want));
            }
        }
        for l in LANES {
            let want: BTreeSet<Uuid> = self.pairs.iter().filter(|(x, _)| *x == l).map(|(_, r)| rid(*r)).collect();
            let got: BTreeSet<Uuid> = self.links.linked_from(l).map(|s| s.iter().cloned().collect()).unwrap_or_default();
            if got != want {
                return Err(format!("law=linked_from_true: linked_from(lane {}) is {:?} but the linked remotes are {:?}", l, got, want));
            }
        }
        for l in LANES {
            for r in REMOTES {
                if self.links.is_linked(rid(r), l) != self.pairs.contains(&(l, r)) {
                    return Err(format!("law=is_linked_true: is_linked({},{}) disagrees with the reference", r, l));
                }
            }
        }
        Ok(())
    }
}

pub fn build(hist: &[Op]) -> Result<Sim, String> {
    let mut s = Sim::new();
    for op in hist {
        s.apply(op)?;
    }
    Ok(s)
}

pub fn law_of(msg: &str) -> String {
    msg.split(':').next().unwrap_or(msg).trim().to_string()
}

/// Run the BFS as leg `name`. `laws`: report only violations of these laws (the structural ones
/// belong to the link protocol, C04; the counting ones to C20); `None` reports all.
pub fn links_leg(ctx: &Ctx, name: &str, laws: Option<&[&str]>) {
    if vcommon::sched::is_worker() {
        return;
    }
    let t0 = Instant::now();
    let depth = if ctx.quick() { 20 } else { 30 };
    let stats = bfs_classified(
        Vec::<Op>::new(),
        |h| build(h).map(|s| s.enabled()).unwrap_or_default(),
        |h, op| {
            let mut h2 = h.clone();
            h2.push(op.clone());
            build(&h2)?;
            Ok(h2)
        },
        |h| {
            let s = build(h).expect("valid");
            format!("{};reg={:?};rm={:?};ever={:?}", s.links.verif_key(), s.registered, s.removed_lanes, s.ever_linked)
        },
        |_| Ok(()),
        law_of,
        depth,
        3_000_000,
        vcommon::ncpu(),
    );
    for (path, msg) in &stats.violations {
        if let Some(laws) = laws {
            if !laws.iter().any(|l| law_of(msg) == format!("law={}", l)) {
                continue;
            }
        }
        let sig = format!("links: {} minimal_history={}", law_of(msg), path.iter().map(|o| format!("{:?}", o)).collect::<Vec<_>>().join(","));
        ctx.violation(name, &sig, json!({"ops": path, "explanation": msg, "what": format!("after {:?}: {}", path, msg)}));
    }
    ctx.add_leg(Leg {
        name: name.into(),
        engine: "E2-space".into(),
        states: stats.states,
        transitions: stats.transitions,
        evaluations: stats.transitions,
        distinct_nontrivial: stats.states.saturating_sub(1),
        rule: "BFS over operation histories on the real Links registry, de-duplicated by Links::verif_key + reference flags; every reporter is read after every operation".into(),
        samples: stats.sample_paths.iter().map(|p| json!(format!("{:?}", p))).collect(),
        exhaustive: !stats.capped,
        bounds: json!({"depth": depth, "depth_reached": stats.depth_reached, "fixpoint": stats.fixpoint, "lanes": LANES.len(), "remotes": REMOTES.len()}),
        wall_s: t0.elapsed().as_secs_f64(),
    });
}


pub mod agent;
pub mod grid;
pub mod mapq;
pub mod oracle;
pub mod scripts;
pub mod store;
pub mod uplinks;
pub mod world;

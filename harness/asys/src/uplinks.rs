//! Engine E2 leg over the real `Uplinks` scheduler (one remote's lent-out writer, special queue,
//! write queue and three backpressure kinds) reached through the cfg(swimos_verif) re-exports.
//! The caller obeys the write task's own protocol (data only for linked lanes, one outstanding
//! write); every `WriteTask` it hands out is interpreted frame-for-frame like `perform_write`.
//! Oracles: per-lane frame state machine, no body that was not pushed for that lane in that
//! session, supply FIFO exact, synced only when requested and not before the value it answers,
//! and from every reached state a drain leaves nothing owed.

use bytes::{Bytes, BytesMut};
use serde_json::json;
use std::collections::BTreeMap;
use std::num::NonZeroUsize;
use std::time::Instant;
use swimos_agent_protocol::MapOperation;
use swimos_api::agent::UplinkKind;
use swimos_model::Text;
use swimos_runtime::verif_hooks::{BackpressureStrategy, LaneRegistry, RemoteSender, SpecialAction, UplinkResponse, Uplinks, WriteAction, WriteTask};
use swimos_utilities::byte_channel::{byte_channel, ByteReader};
use swimos_utilities::trigger::promise;
use uuid::Uuid;
use vcommon::space::bfs_classified;
use vcommon::{Ctx, Leg};

#[derive(Clone, Debug, PartialEq, Eq, Hash, serde::Serialize, serde::Deserialize)]
pub enum UOp {
    Linked(u8),
    Unlinked(u8),
    NotFound,
    Value(u8),      // body index into VBODIES, lane v
    Supply(u8),     // body index into SBODIES, lane s
    MapUpd(u8, u8), // key, value index
    MapRem(u8),
    MapClr,
    /// an operation whose key is not UTF-8 (0 = update, 1 = remove): `push` refuses it and the write
    /// task drops it - nothing may be sent for it, now or when the writer comes back
    MapBad(u8),
    Synced(u8),
    WriteDone,
}

const LANES: [&str; 3] = ["v", "s", "m"]; // ids 0,1,2
// bodies of different encoded lengths: buffers that are swapped or rewritten in place must not leak
// the tail of a longer predecessor
const VBODIES: [&str; 3] = ["a", "bbbbbbbb", ""];
const SBODIES: [&str; 3] = ["x", "yyyyyyyy", ""];
const MVALS: [&str; 2] = ["p", "qqqqqqqq"];

#[derive(Clone, Debug, PartialEq, Eq)]
enum FK {
    Linked,
    Synced,
    Unlinked,
    Event,
}

#[derive(Default, Clone)]
struct LaneRef {
    linked: bool,            // protocol level (after Linked pushed, until Unlinked pushed)
    session: u32,            // number of Linked pushes
    emitted_linked: bool,    // frame level
    emitted_session: u32,    // number of Linked frames emitted (first of a session)
    /// per session: link requests repeated on the open link whose `linked` answer is still owed
    relinks: BTreeMap<u32, u32>,
    /// bodies pushed per session
    pushes: BTreeMap<u32, Vec<String>>,
    /// per session: number of pushes matched / delivered so far (supply: exact; value: the
    /// largest index+1 at which the delivered sequence can end as an in-order subsequence)
    matched: BTreeMap<u32, usize>,
    /// value lane, per session: every index at which the delivered sequence can end
    possible: BTreeMap<u32, Vec<usize>>,
    /// per session: positions (pushes.len() at the time) of Synced pushes not yet answered
    sync_marks: BTreeMap<u32, Vec<usize>>,
    /// map lane: per session truth and replica
    map_truth: BTreeMap<u32, BTreeMap<u8, String>>,
    map_replica: BTreeMap<u32, BTreeMap<u8, String>>,
}

pub struct USim {
    uplinks: Uplinks,
    registry: LaneRegistry,
    outstanding: Option<(RemoteSender, BytesMut)>,
    lanes: Vec<LaneRef>,
    frames: Vec<(String, FK, String)>,
    _rx: ByteReader,
}

fn kind_of(l: u8) -> UplinkKind {
    match l {
        0 => UplinkKind::Value,
        1 => UplinkKind::Supply,
        _ => UplinkKind::Map,
    }
}

impl USim {
    fn new() -> USim {
        let (tx, rx) = byte_channel(NonZeroUsize::new(64).unwrap());
        let (ptx, _prx) = promise::promise();
        let mut registry = LaneRegistry::default();
        for l in LANES {
            let _ = registry.add_endpoint(Text::new(l));
        }
        USim {
            uplinks: Uplinks::new(Text::new("/node"), Uuid::from_u128(1), Uuid::from_u128(2), tx, ptx),
            registry,
            outstanding: None,
            lanes: vec![LaneRef::default(), LaneRef::default(), LaneRef::default()],
            frames: vec![],
            _rx: rx,
        }
    }

    pub fn enabled(&self) -> Vec<UOp> {
        let mut v = vec![];
        for l in 0..3u8 {
            if self.lanes[l as usize].linked {
                v.push(UOp::Unlinked(l));
                v.push(UOp::Synced(l));
                // a link request repeated on the open link (answered by another `linked`), at most
                // one outstanding per session
                let r = &self.lanes[l as usize];
                if r.relinks.get(&r.session).cloned().unwrap_or(0) == 0 {
                    v.push(UOp::Linked(l));
                }
            } else {
                v.push(UOp::Linked(l));
            }
        }
        if self.lanes[0].linked {
            for b in 0..VBODIES.len() as u8 {
                v.push(UOp::Value(b));
            }
        }
        if self.lanes[1].linked {
            for b in 0..SBODIES.len() as u8 {
                v.push(UOp::Supply(b));
            }
        }
        if self.lanes[2].linked {
            for k in 0..2u8 {
                for x in 0..MVALS.len() as u8 {
                    v.push(UOp::MapUpd(k, x));
                }
                v.push(UOp::MapRem(k));
            }
            v.push(UOp::MapClr);
            v.push(UOp::MapBad(0));
            v.push(UOp::MapBad(1));
        }
        v.push(UOp::NotFound);
        if self.outstanding.is_some() {
            v.push(UOp::WriteDone);
        }
        v
    }

    fn emit(&mut self, lane: &str, kind: FK, body: &[u8]) -> Result<(), String> {
        let body = String::from_utf8_lossy(body).to_string();
        self.frames.push((lane.to_string(), kind.clone(), body.clone()));
        let Some(li) = LANES.iter().position(|l| *l == lane) else {
            // the lane-not-found answer
            if kind == FK::Unlinked && body == "@laneNotFound" {
                return Ok(());
            }
            return Err(format!("law=frames_only_for_known_lanes: frame {:?} for unknown lane {:?}", kind, lane));
        };
        let kname = ["value", "supply", "map"][li];
        let r = &mut self.lanes[li];
        match kind {
            FK::Linked => {
                if r.emitted_linked {
                    let owed = r.relinks.entry(r.emitted_session).or_insert(0);
                    if *owed == 0 {
                        return Err(format!("law=link_state_machine lane-kind={}: linked emitted while already linked (no repeated link request)", kname));
                    }
                    *owed -= 1;
                } else {
                    r.emitted_linked = true;
                    r.emitted_session += 1;
                }
            }
            FK::Unlinked => {
                if !r.emitted_linked {
                    return Err(format!("law=link_state_machine lane-kind={}: unlinked emitted without an open link", kname));
                }
                r.emitted_linked = false;
            }
            FK::Synced => {
                if !r.emitted_linked {
                    return Err(format!("law=link_state_machine lane-kind={}: synced emitted outside a link", kname));
                }
                let n = r.emitted_session;
                let marks = r.sync_marks.entry(n).or_default();
                if marks.is_empty() {
                    return Err(format!("law=synced_only_when_requested lane-kind={}: synced emitted but no sync is pending in this session", kname));
                }
                if li == 0 || li == 1 {
                    // the value(s) pushed before the sync request must have been delivered or superseded
                    let need = marks[0];
                    let have = r.matched.get(&n).cloned().unwrap_or(0);
                    if li == 0 && need > 0 && have < need {
                        return Err(format!("law=synced_not_before_its_value lane-kind=value: synced emitted although the value pushed before the sync request was not delivered (delivered up to push {}, needed {})", have, need));
                    }
                }
                marks.clear();
            }
            FK::Event => {
                if !r.emitted_linked {
                    return Err(format!("law=link_state_machine lane-kind={}: event emitted outside a link", kname));
                }
                let n = r.emitted_session;
                let pushes = r.pushes.get(&n).cloned().unwrap_or_default();
                let m = r.matched.entry(n).or_insert(0);
                match li {
                    0 => {
                        // value: in-order subsequence of what was pushed in this session (all
                        // embeddings are tracked, bodies may repeat)
                        let prev: Vec<usize> = r.possible.get(&n).cloned().unwrap_or_default();
                        let started = r.possible.contains_key(&n);
                        let next: Vec<usize> = (0..pushes.len())
                            .filter(|&j| pushes[j] == body && (!started || prev.iter().any(|&i| i < j)))
                            .collect();
                        if next.is_empty() {
                            return Err(format!(
                                "law=no_fabricated_body lane-kind=value body={:?}: event body was not pushed for this lane in this session after the last delivered one (pushed {:?})",
                                if body.len() <= 4 { body.as_str() } else { "<other>" },
                                pushes
                            ));
                        }
                        *m = next.iter().max().unwrap() + 1;
                        r.possible.insert(n, next);
                    }
                    1 => {
                        if *m < pushes.len() && pushes[*m] == body {
                            *m += 1;
                        } else {
                            return Err(format!("law=supply_fifo_exact: supply event {:?} is not the next undelivered item (pushed {:?}, delivered {})", body, pushes, *m));
                        }
                    }
                    _ => {
                        // map: must be a well formed operation on a pushed key; applied to the replica
                        let rep = r.map_replica.entry(n).or_default();
                        if body == "@clear" {
                            rep.clear();
                        } else if let Some(rest) = body.strip_prefix("@update(key:") {
                            let (k, v) = rest.split_once(')').ok_or_else(|| "law=no_fabricated_body lane-kind=map: malformed".to_string())?;
                            let k: u8 = k.trim().parse().map_err(|_| "law=no_fabricated_body lane-kind=map: bad key".to_string())?;
                            let v = v.trim().to_string();
                            if !MVALS.contains(&v.as_str()) {
                                return Err(format!("law=no_fabricated_body lane-kind=map: value {:?} was never pushed", v));
                            }
                            rep.insert(k, v);
                        } else if let Some(rest) = body.strip_prefix("@remove(key:") {
                            let k: u8 = rest.trim_end_matches(')').trim().parse().map_err(|_| "law=no_fabricated_body lane-kind=map: bad key".to_string())?;
                            rep.remove(&k);
                        } else {
                            return Err(format!("law=no_fabricated_body lane-kind=map body={:?}: not a map operation", if body.len() <= 4 { body.as_str() } else { "<other>" }));
                        }
                    }
                }
            }
        }
        Ok(())
    }

    fn interpret(&mut self, task: WriteTask) -> Result<(), String> {
        let WriteTask { sender, mut buffer, action } = task;
        let lane = sender.lane.clone();
        match action {
            WriteAction::Event => self.emit(&lane, FK::Event, &buffer.clone())?,
            WriteAction::ValueSynced(send) => {
                if send {
                    self.emit(&lane, FK::Event, &buffer.clone())?;
                }
                self.emit(&lane, FK::Synced, b"")?;
            }
            WriteAction::MapSynced(q) => {
                if let Some(mut q) = q {
                    let mut n = 0;
                    while q.has_data() {
                        q.prepare_write(&mut buffer);
                        self.emit(&lane, FK::Event, &buffer.clone())?;
                        n += 1;
                        if n > 100 {
                            return Err("law=terminates: MapSynced queue never drains".into());
                        }
                    }
                }
                self.emit(&lane, FK::Synced, b"")?;
            }
            WriteAction::Special(SpecialAction::Linked(_)) => self.emit(&lane, FK::Linked, b"")?,
            WriteAction::Special(SpecialAction::Unlinked { message, .. }) => self.emit(&lane, FK::Unlinked, message.as_bytes())?,
            WriteAction::Special(SpecialAction::LaneNotFound { .. }) => self.emit(&lane, FK::Unlinked, b"@laneNotFound")?,
        }
        if self.outstanding.is_some() {
            return Err("law=one_writer: a second write task was handed out while one is outstanding".into());
        }
        self.outstanding = Some((sender, buffer));
        Ok(())
    }

    pub fn apply(&mut self, op: &UOp) -> Result<(), String> {
        let task: Option<WriteTask> = match op {
            UOp::Linked(l) => {
                let r = &mut self.lanes[*l as usize];
                if r.linked {
                    *r.relinks.entry(r.session).or_insert(0) += 1;
                } else {
                    r.linked = true;
                    r.session += 1;
                }
                self.uplinks.push_special(SpecialAction::Linked(*l as u64), &self.registry)
            }
            UOp::Unlinked(l) => {
                self.lanes[*l as usize].linked = false;
                self.uplinks.push_special(SpecialAction::unlinked(*l as u64, Text::new("closed")), &self.registry)
            }
            UOp::NotFound => self.uplinks.push_special(SpecialAction::lane_not_found(Text::new("nolane")), &self.registry),
            UOp::Value(b) => {
                let r = &mut self.lanes[0];
                let n = r.session;
                r.pushes.entry(n).or_default().push(VBODIES[*b as usize].to_string());
                self.uplinks.push(0, UplinkResponse::Value(Bytes::from_static(VBODIES[*b as usize].as_bytes())), &self.registry).map_err(|e| format!("law=push_accepts_valid: {}", e))?
            }
            UOp::Supply(b) => {
                let r = &mut self.lanes[1];
                let n = r.session;
                r.pushes.entry(n).or_default().push(SBODIES[*b as usize].to_string());
                self.uplinks.push(1, UplinkResponse::Supply(Bytes::from_static(SBODIES[*b as usize].as_bytes())), &self.registry).map_err(|e| format!("law=push_accepts_valid: {}", e))?
            }
            UOp::MapUpd(k, x) => {
                let r = &mut self.lanes[2];
                let n = r.session;
                r.map_truth.entry(n).or_default().insert(*k, MVALS[*x as usize].to_string());
                let op = MapOperation::Update { key: BytesMut::from(k.to_string().as_bytes()), value: BytesMut::from(MVALS[*x as usize].as_bytes()) };
                self.uplinks.push(2, UplinkResponse::Map(op), &self.registry).map_err(|e| format!("law=push_accepts_valid: {}", e))?
            }
            UOp::MapRem(k) => {
                let r = &mut self.lanes[2];
                let n = r.session;
                r.map_truth.entry(n).or_default().remove(k);
                let op = MapOperation::Remove { key: BytesMut::from(k.to_string().as_bytes()) };
                self.uplinks.push(2, UplinkResponse::Map(op), &self.registry).map_err(|e| format!("law=push_accepts_valid: {}", e))?
            }
            UOp::MapClr => {
                let r = &mut self.lanes[2];
                let n = r.session;
                r.map_truth.entry(n).or_default().clear();
                self.uplinks.push(2, UplinkResponse::Map(MapOperation::Clear), &self.registry).map_err(|e| format!("law=push_accepts_valid: {}", e))?
            }
            UOp::MapBad(which) => {
                let key = BytesMut::from(&[0xffu8, 0xfe][..]);
                let op = if *which == 0 { MapOperation::Update { key, value: BytesMut::from(MVALS[0].as_bytes()) } } else { MapOperation::Remove { key } };
                // refused (what the real lane decoder cannot prevent: it passes key bytes through)
                self.uplinks.push(2, UplinkResponse::Map(op), &self.registry).unwrap_or_default()
            }
            UOp::Synced(l) => {
                let r = &mut self.lanes[*l as usize];
                let n = r.session;
                let mark = r.pushes.get(&n).map(|p| p.len()).unwrap_or(0);
                r.sync_marks.entry(n).or_default().push(mark);
                self.uplinks.push(*l as u64, UplinkResponse::Synced(kind_of(*l)), &self.registry).map_err(|e| format!("law=push_accepts_valid: {}", e))?
            }
            UOp::WriteDone => {
                let (sender, buffer) = self.outstanding.take().ok_or_else(|| "harness: WriteDone without outstanding".to_string())?;
                self.uplinks.replace_and_pop(sender, buffer, &self.registry)
            }
        };
        if let Some(t) = task {
            self.interpret(t)?;
        }
        Ok(())
    }

    /// Complete every outstanding write; afterwards nothing may be owed for a lane that is linked.
    fn drain(&mut self) -> Result<(), String> {
        let mut n = 0;
        while self.outstanding.is_some() {
            self.apply(&UOp::WriteDone)?;
            n += 1;
            if n > 200 {
                return Err("law=terminates: writes never run dry".into());
            }
        }
        for (li, r) in self.lanes.iter().enumerate() {
            let kname = ["value", "supply", "map"][li];
            if r.linked != r.emitted_linked {
                return Err(format!("law=drain_reaches_protocol_state lane-kind={}: after draining the remote was {} but the last request says {}", kname, if r.emitted_linked { "linked" } else { "unlinked" }, if r.linked { "linked" } else { "unlinked" }));
            }
            if r.emitted_session != r.session {
                return Err(format!("law=drain_reaches_protocol_state lane-kind={}: {} linked frames for {} link requests", kname, r.emitted_session, r.session));
            }
            if !r.linked {
                continue;
            }
            let n = r.session;
            let pushes = r.pushes.get(&n).cloned().unwrap_or_default();
            let m = r.matched.get(&n).cloned().unwrap_or(0);
            match li {
                0 | 1 => {
                    if m != pushes.len() {
                        return Err(format!("law=drain_delivers_latest lane-kind={}: after draining {} of {} pushes are delivered or superseded (pushed {:?})", kname, m, pushes.len(), pushes));
                    }
                }
                _ => {
                    let t = r.map_truth.get(&n).cloned().unwrap_or_default();
                    let rep = r.map_replica.get(&n).cloned().unwrap_or_default();
                    if t != rep {
                        return Err(format!("law=drain_delivers_latest lane-kind=map: replica {:?} differs from the operations pushed {:?}", rep, t));
                    }
                }
            }
            if r.sync_marks.get(&n).map(|v| !v.is_empty()).unwrap_or(false) {
                return Err(format!("law=sync_answered lane-kind={}: a sync request is still unanswered after draining", kname));
            }
        }
        Ok(())
    }

    fn key(&self) -> String {
        // the lane the remote's sender is labelled with is state of its own: whoever writes next without
        // relabelling it sends under that name
        let mut s = format!("{}|o={:?}|", self.uplinks.verif_key(), self.outstanding.as_ref().map(|(sender, _)| sender.lane.clone()));
        for r in &self.lanes {
            let n = r.session;
            let en = r.emitted_session;
            let pend = |sess: u32| -> String {
                let p = r.pushes.get(&sess).cloned().unwrap_or_default();
                let m = r.matched.get(&sess).cloned().unwrap_or(0);
                let marks: Vec<isize> = r.sync_marks.get(&sess).map(|v| v.iter().map(|x| *x as isize - m as isize).collect()).unwrap_or_default();
                let poss: Vec<isize> = r.possible.get(&sess).map(|v| v.iter().map(|x| *x as isize - m as isize).collect()).unwrap_or_default();
                // value lanes: the whole pushed list matters for later embeddings only from the smallest possible index on
                let from = r.possible.get(&sess).and_then(|v| v.iter().min().cloned()).map(|x| x + 1).unwrap_or(0).min(m).min(p.len());
                format!("{:?}/{:?}/{:?}/{:?}/{:?}", &p[from..], poss, marks, r.map_truth.get(&sess), r.map_replica.get(&sess))
            };
            s.push_str(&format!("[{}{}{}:{};{};r{}/{}]", r.linked, r.emitted_linked, n - en, pend(n), if en != n { pend(en) } else { String::new() }, r.relinks.get(&n).cloned().unwrap_or(0), if en != n { r.relinks.get(&en).cloned().unwrap_or(0) } else { 0 }));
        }
        s
    }
}

pub fn build(hist: &[UOp]) -> Result<USim, String> {
    let mut s = USim::new();
    for op in hist {
        s.apply(op)?;
    }
    Ok(s)
}

fn law_of(msg: &str) -> String {
    msg.split(':').next().unwrap_or(msg).trim().to_string()
}

/// Laws selected per property: C04 = state machine / provenance, C01 = value delivery, C14 = supply.
pub fn run(ctx: &Ctx, name: &str, depth: usize, select: fn(&str) -> bool) {
    if vcommon::sched::is_worker() {
        return;
    }
    let t0 = Instant::now();
    let stats = bfs_classified(
        Vec::<UOp>::new(),
        |h| build(h).map(|s| s.enabled()).unwrap_or_default(),
        |h, op| {
            let mut h2 = h.clone();
            h2.push(op.clone());
            build(&h2)?;
            Ok(h2)
        },
        |h| build(h).expect("valid").key(),
        |h| build(h).and_then(|mut s| s.drain()),
        law_of,
        depth,
        4_000_000,
        vcommon::ncpu(),
    );
    for (path, msg) in &stats.violations {
        if !select(msg) {
            continue;
        }
        ctx.violation(
            name,
            &format!("uplinks: {}", law_of(msg)),
            json!({"ops": path, "explanation": msg, "what": format!("after {:?}: {}", path, msg)}),
        );
    }
    ctx.add_leg(Leg {
        name: name.into(),
        engine: "E2-space".into(),
        states: stats.states,
        transitions: stats.transitions,
        evaluations: stats.transitions,
        distinct_nontrivial: stats.states.saturating_sub(1),
        rule: "BFS over operation histories on the real Uplinks (value, supply and map lane, one remote), de-duplicated by Uplinks::verif_key + the undelivered suffix of the reference; every WriteTask is interpreted frame for frame; every state is drained".into(),
        samples: stats.sample_paths.iter().map(|p| json!(format!("{:?}", p))).collect(),
        exhaustive: !stats.capped,
        bounds: json!({"depth": depth, "depth_reached": stats.depth_reached, "fixpoint": stats.fixpoint, "lanes": ["value", "supply", "map"], "value_bodies": VBODIES, "supply_bodies": SBODIES}),
        wall_s: t0.elapsed().as_secs_f64(),
    });
}

pub fn replay(ctx: &Ctx, r: &serde_json::Value) {
    let ops: Vec<UOp> = serde_json::from_value(r["detail"]["ops"].clone()).unwrap_or_default();
    let res = build(&ops).and_then(|mut s| s.drain());
    if let Err(e) = res {
        println!("REPRODUCED: {}", e);
        ctx.violation(r["leg"].as_str().unwrap_or("uplinks"), r["signature"].as_str().unwrap(), r["detail"].clone());
    }
}

use asys::world::*;
use asys::scripts::*;
use vcommon::sched::run_one;
fn main() {
    let script = sequential(&[vec![link("v"), cmd("v", "1"), unlink("v")], vec![sync("m"), act(&["@upd{k:1,v:1}", "@upd{k:2,v:2}"]), unlink("m")]]);
    let cfg = Cfg::basic(script, 2);
    let t = std::time::Instant::now();
    let mut steps = 0;
    for _ in 0..1000 { steps += run_one::<AsWorld>(&cfg, &[], false).unwrap().choices.len(); }
    println!("1000 execs {:?} steps/exec {}", t.elapsed(), steps / 1000);
}

use asys::scripts::*;
use asys::world::*;
use std::time::Instant;
use vcommon::sched::{run_one, World};
fn main() {
    let script = sequential(&[vec![link("v"), cmd("v", "1"), unlink("v")], vec![sync("m"), act(&["@upd{k:1,v:1}", "@upd{k:2,v:2}"]), unlink("m")]]);
    let cfg = Cfg::basic(script, 2);
    let t = Instant::now();
    let mut steps = 0;
    for _ in 0..1000 {
        steps += run_one::<AsWorld>(&cfg, &[], false).unwrap().choices.len();
    }
    println!("1000 execs via run_one {:?} steps/exec {}", t.elapsed(), steps / 1000);
    // phases, on this thread
    let (mut t_rt, mut t_new, mut t_run, mut t_fin) = (0u128, 0u128, 0u128, 0u128);
    for _ in 0..300 {
        let t0 = Instant::now();
        let rt = tokio::runtime::Builder::new_current_thread().enable_time().start_paused(true).build().unwrap();
        t_rt += t0.elapsed().as_micros();
        rt.block_on(async {
            let t1 = Instant::now();
            let mut w = AsWorld::new(&cfg, false);
            t_new += t1.elapsed().as_micros();
            let t2 = Instant::now();
            loop {
                let en = w.enabled();
                if en.is_empty() { break; }
                w.fire(en[0]).await;
            }
            t_run += t2.elapsed().as_micros();
            let t3 = Instant::now();
            let _ = w.finish();
            t_fin += t3.elapsed().as_micros();
        });
    }
    println!("per exec (us): runtime build {} world new {} run {} finish {}", t_rt / 300, t_new / 300, t_run / 300, t_fin / 300);
}

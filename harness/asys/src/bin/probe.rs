use asys::world::*;
use vcommon::sched::run_one;

fn main() {
    let l = |s: &str| s.to_string();
    let script = vec![
        (0, Step::Link(l("v"))),
        (0, Step::Sync(l("v"))),
        (1, Step::Sync(l("m"))),
        (0, Step::Cmd(l("v"), l("5"))),
        (0, Step::Cmd(l("c"), l("@act{ops:{@setv(7),@upd{k:1,v:2},@push(3)}}"))),
        (1, Step::Link(l("nolane"))),
        (0, Step::Unlink(l("v"))),
    ];
    let mut cfg = Cfg::basic(script, 2);
    let args: Vec<String> = std::env::args().collect();
    if args.len() > 1 { cfg.cap = args[1].parse().unwrap(); }
    if args.len() > 2 { cfg.budget = args[2].parse().unwrap(); }
    let r = run_one::<AsWorld>(&cfg, &[], true).unwrap();
    for (l, lab) in r.outcome.log.iter().zip(std::iter::repeat(())) { let _ = lab; println!("{}", l); }
    println!("steps {} horizon {}", r.choices.len(), r.horizon_hit);
    println!("{}", r.labels.join(" "));
}

use asys::scripts::*;
use asys::world::*;
use vcommon::sched::run_one;

fn main() {
    if std::env::var("PROBE_LOG").is_ok() { tracing_subscriber::fmt().with_max_level(tracing::Level::TRACE).without_time().with_target(false).init(); }
    let script = sequential(&[vec![link("v"), act(&["@laterv{d:6,v:1}"]), Step::Wait(6), Step::Wait(5), act(&[]), Step::Wait(6), Step::Wait(6)]]);
    let mut cfg = Cfg::basic(script, 1);
    cfg.ticks = 2; cfg.final_stop = false;
    if let Ok(k) = std::env::var("CRASH") { cfg.crash_at = Some(k.parse().unwrap()); }
    let args: Vec<String> = std::env::args().collect();
    if args.len() > 1 { cfg.cap = args[1].parse().unwrap(); }
    if args.len() > 2 { cfg.budget = args[2].parse().unwrap(); }
    if args.len() > 3 && args[3] == "burst" { cfg.mode = Mode::Burst; }
    if args.len() > 4 { cfg.lane_buf = args[4].parse().unwrap(); }
    let r = run_one::<AsWorld>(&cfg, &[], true).unwrap();
    for l in r.outcome.log.iter() { println!("{}", l); }
    println!("steps {} horizon {}", r.choices.len(), r.horizon_hit);
}

use asys::scripts::*;
use asys::world::*;
use vcommon::sched::run_one;

fn main() {
    if std::env::var("PROBE_LOG").is_ok() { tracing_subscriber::fmt().with_max_level(tracing::Level::TRACE).without_time().with_target(false).init(); }
    let script = sequential(&[vec![act(&["@upd{k:1,v:1}", "@upd{k:2,v:2}", "@upd{k:3,v:3}", "@upd{k:4,v:4}"])], vec![sync("m")]]);
    let mut cfg = Cfg::basic(script, 2);
    let args: Vec<String> = std::env::args().collect();
    if args.len() > 1 { cfg.cap = args[1].parse().unwrap(); }
    if args.len() > 2 { cfg.budget = args[2].parse().unwrap(); }
    if args.len() > 3 && args[3] == "burst" { cfg.mode = Mode::Burst; }
    if args.len() > 4 { cfg.lane_buf = args[4].parse().unwrap(); }
    let r = run_one::<AsWorld>(&cfg, &[], true).unwrap();
    for l in r.outcome.log.iter() { println!("{}", l); }
    println!("steps {} horizon {}", r.choices.len(), r.horizon_hit);
}

//! Running the deviation-bounded explorer over a grid of configurations and turning the result
//! into a `Leg` + violations.

use crate::world::{AsWorld, Cfg};
use serde_json::json;
use std::time::Instant;
use vcommon::sched::{run_one, ExploreStats};
use vcommon::{Ctx, Leg};

pub struct GridSpec {
    pub name: String,
    pub cfgs: Vec<Cfg>,
    pub bound: u32,
    pub max_exec_per_cfg: u64,
    /// Wall-clock cap for the whole leg in seconds (configurations not started before the cap
    /// are reported as skipped and the leg is not exhaustive).
    pub wall_cap_s: f64,
}

pub fn run_grid(ctx: &Ctx, spec: GridSpec) {
    let t0 = Instant::now();
    let n = spec.cfgs.len();
    if let (Ok(ix), false) = (std::env::var("VERIF_TRACE"), vcommon::sched::is_worker()) {
        // debugging aid: print the canonical execution of one configuration of this leg
        if let Some(cfg) = ix.parse::<usize>().ok().and_then(|i| spec.cfgs.get(i)) {
            eprintln!("--- canonical trace of {} cfg {:?}", spec.name, cfg);
            if let Ok(rec) = run_one::<AsWorld>(cfg, &[], true) {
                eprintln!("{}", rec.labels.join(" "));
                for l in &rec.outcome.log {
                    eprintln!("{}", l);
                }
                eprintln!("violations: {:?}", rec.outcome.violations);
            }
        }
    }
    // Deterministic permutation (multiplicative stride coprime to n): the grid is generated
    // script-major, so if the wall cap cuts the leg short the configurations that did run are
    // spread over all scripts instead of being the first few scripts only.
    let spec = {
        let mut spec = spec;
        let n = spec.cfgs.len();
        if n > 2 {
            fn gcd(a: usize, b: usize) -> usize {
                if b == 0 { a } else { gcd(b, a % b) }
            }
            let mut stride = ((n as f64) * 0.618).round() as usize | 1;
            while gcd(stride, n) != 1 {
                stride += 2;
            }
            let old = std::mem::take(&mut spec.cfgs);
            let mut slots: Vec<Option<Cfg>> = old.into_iter().map(Some).collect();
            spec.cfgs = (0..n).map(|i| slots[(i * stride) % n].take().expect("permutation")).collect();
        }
        spec
    };
    let results: Vec<Option<ExploreStats>> = match vcommon::sched::grid_explore::<AsWorld>(&spec.name, &spec.cfgs, spec.bound, spec.max_exec_per_cfg, spec.wall_cap_s) {
        vcommon::sched::GridOutcome::NotMine => return,
        vcommon::sched::GridOutcome::Done(r) => r,
    };
    let mut total = ExploreStats::default();
    let mut skipped = 0usize;
    let mut samples = vec![];
    for (cfg, r) in spec.cfgs.iter().zip(results) {
        match r {
            None => skipped += 1,
            Some(st) => {
                if !st.machinery_errors.is_empty() {
                    eprintln!("machinery errors: {:?}", &st.machinery_errors[..st.machinery_errors.len().min(3)]);
                    vcommon::machinery_failure("schedule explorer: nondeterminism or crash (see above)");
                }
                for (sig, expl, choices) in &st.violations {
                    ctx.violation(
                        &spec.name,
                        sig,
                        json!({"cfg": serde_json::to_value(cfg).unwrap(), "choices": choices, "explanation": expl, "what": expl}),
                    );
                }
                if samples.len() < 3 && st.executions > 1 {
                    samples.push(json!({"script": format!("{:?}", cfg.script), "cap": cfg.cap, "budget": cfg.budget, "mode": format!("{:?}", cfg.mode),
                        "executions": st.executions, "distinct_outcomes": st.distinct_digests}));
                }
                total.executions += st.executions;
                total.steps += st.steps;
                total.distinct_digests += st.distinct_digests;
                total.nontrivial += st.nontrivial;
                total.capped |= st.capped;
                total.max_len = total.max_len.max(st.max_len);
            }
        }
    }
    ctx.add_leg(Leg {
        name: spec.name.clone(),
        engine: "E1-sched".into(),
        states: total.distinct_digests,
        transitions: total.steps,
        evaluations: total.executions,
        distinct_nontrivial: total.nontrivial,
        rule: "all schedules with at most `bound` deviations from the canonical schedule of every configuration; states = distinct observation digests per configuration summed; non-trivial = executions with >= 1 deviation whose observations differ from the canonical execution".into(),
        samples,
        exhaustive: skipped == 0 && !total.capped,
        bounds: json!({"configurations": n, "skipped_by_wall_cap": skipped, "deviation_bound": spec.bound, "max_exec_per_cfg": spec.max_exec_per_cfg,
                       "longest_execution_steps": total.max_len, "execution_cap_hit": total.capped}),
        wall_s: t0.elapsed().as_secs_f64(),
    });
}

/// Replay one recorded execution with tracing and report whether the signature reproduces.
pub fn replay(ctx: &Ctx, r: &serde_json::Value) {
    if std::env::var("PROBE_LOG").is_ok() {
        let _ = tracing_subscriber::fmt().with_max_level(tracing::Level::TRACE).without_time().with_target(false).try_init();
    }
    let d = &r["detail"];
    let cfg: Cfg = serde_json::from_value(d["cfg"].clone()).unwrap_or_else(|e| vcommon::machinery_failure(&format!("bad cfg in replay: {}", e)));
    let choices: Vec<u8> = d["choices"].as_array().map(|a| a.iter().map(|x| x.as_u64().unwrap() as u8).collect()).unwrap_or_default();
    let sig = r["signature"].as_str().unwrap_or("");
    let mut hits = 0;
    for round in 0..2 {
        match run_one::<AsWorld>(&cfg, &choices, true) {
            Ok(rec) => {
                if round == 0 {
                    println!("schedule: {}", rec.labels.join(" "));
                    for l in &rec.outcome.log {
                        println!("{}", l);
                    }
                }
                for (s, e) in &rec.outcome.violations {
                    if s == sig {
                        hits += 1;
                        if round == 0 {
                            println!("REPRODUCED: {} -- {}", s, e);
                        }
                    }
                }
            }
            Err(e) => vcommon::machinery_failure(&format!("replay failed: {}", e)),
        }
    }
    if hits == 1 {
        vcommon::machinery_failure("nondeterminism: the schedule reproduced the violation only once in two runs");
    }
    if hits == 2 {
        ctx.violation(r["leg"].as_str().unwrap_or("replay"), sig, d.clone());
    }
}

/// Cartesian grid of configurations over scripts x capacities x budgets x modes.
pub fn grid(scripts: &[(Vec<(usize, crate::world::Step)>, usize)], caps: &[usize], budgets: &[usize], modes: &[crate::world::Mode], credit: &[usize]) -> Vec<Cfg> {
    let mut out = vec![];
    for (script, remotes) in scripts {
        for &cap in caps {
            for &budget in budgets {
                for &mode in modes {
                    for &cr in credit {
                        let mut c = Cfg::basic(script.clone(), *remotes);
                        c.cap = cap;
                        c.budget = budget;
                        c.mode = mode;
                        c.credit = cr;
                        out.push(c);
                    }
                }
            }
        }
    }
    out
}

/// Variants of the large-channel configurations in which only the lane -> runtime channels are
/// tiny (8 bytes): the agent's writes are held back, so it consumes several requests while a lane
/// is still dirty (sync served with a pending change, events coalesced inside the lane).
pub fn with_small_lane_buf(cfgs: &[Cfg]) -> Vec<Cfg> {
    // the copies with the small lane channel also vary the runtime's RNG seed (start branch of the
    // unbiased select!s): seeds 0 and 1 in a fixed alternating pattern in the quick tier, both for
    // every configuration in the thorough tier
    let thorough = std::env::var("VERIF_TIER").as_deref() == Ok("thorough");
    let mut out = vec![];
    for (i, c) in cfgs.iter().filter(|c| c.cap == 4096 && c.credit == 0).enumerate() {
        let mut c = c.clone();
        c.lane_buf = 8;
        if thorough {
            let mut c1 = c.clone();
            c1.seed = 1;
            out.push(c.clone());
            out.push(c1);
        } else {
            c.seed = (i % 2) as u64;
            out.push(c);
        }
    }
    out
}

/// Copies of the roomy configurations in which the runtime -> lane request channels hold only a
/// few bytes: every request the runtime forwards to a lane reaches the agent in pieces.
pub fn with_small_lane_in_buf(cfgs: &[Cfg]) -> Vec<Cfg> {
    let mut out = vec![];
    for c in cfgs.iter().filter(|c| c.cap == 4096 && c.credit == 0 && c.lane_buf == 4096) {
        for n in [8usize, 11] {
            let mut c = c.clone();
            c.lane_in_buf = n;
            out.push(c);
        }
    }
    out
}

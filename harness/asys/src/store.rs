//! Recording `NodePersistence` for the C05 harness: an in-memory store that logs every call
//! against the world's global step counter, survives across agent instances (shared state behind
//! an `Arc`), and can inject a fault at the N-th mutating call: refuse it (`StoreError`) or apply
//! it and then kill the agent (panic, caught by the driver - "all tasks gone at an exact store
//! operation boundary").

use bytes::BytesMut;
use parking_lot::Mutex;
use std::collections::BTreeMap;
use std::sync::atomic::{AtomicU64, Ordering};
use std::sync::Arc;
use swimos_api::error::StoreError;
use swimos_api::persistence::{KeyValue, NodePersistence, RangeConsumer};

#[derive(Clone, Debug, PartialEq, Eq)]
pub enum StoreCall {
    IdFor(String, u64),
    Put(u64, Vec<u8>),
    Delete(u64),
    Update(u64, Vec<u8>, Vec<u8>),
    Remove(u64, Vec<u8>),
    Clear(u64),
    GetValue(u64, Option<Vec<u8>>),
    ReadMap(u64, usize),
}

impl StoreCall {
    pub fn is_mutation(&self) -> bool {
        matches!(self, StoreCall::Put(..) | StoreCall::Delete(..) | StoreCall::Update(..) | StoreCall::Remove(..) | StoreCall::Clear(..))
    }
}

#[derive(Clone, Copy, Debug, PartialEq, Eq)]
pub enum Fault {
    /// Refuse the N-th mutating call (0-based) with an error, without applying it.
    Fail(u64),
    /// Apply the N-th mutating call and then panic.
    KillAfter(u64),
}

#[derive(Default)]
pub struct StoreState {
    pub ids: BTreeMap<String, u64>,
    pub values: BTreeMap<u64, Vec<u8>>,
    pub maps: BTreeMap<u64, BTreeMap<Vec<u8>, Vec<u8>>>,
}

#[derive(Default)]
pub struct StoreLog {
    pub state: Mutex<StoreState>,
    /// (world step, instance number, call)
    pub calls: Mutex<Vec<(u64, u32, StoreCall)>>,
    pub step: AtomicU64,
    pub mutations: AtomicU64,
    pub fault: Mutex<Option<Fault>>,
    pub fault_fired: AtomicU64,
}

pub struct RecStore {
    pub log: Arc<StoreLog>,
    pub instance: u32,
}

pub const KILL_MSG: &str = "verif: store kill point";

impl RecStore {
    fn record(&self, c: StoreCall) {
        let s = self.log.step.load(Ordering::SeqCst);
        self.log.calls.lock().push((s, self.instance, c));
    }

    /// Returns Err if the call must be refused; Ok(true) if the agent must be killed after it.
    fn gate(&self) -> Result<bool, StoreError> {
        let n = self.log.mutations.fetch_add(1, Ordering::SeqCst);
        let f = *self.log.fault.lock();
        match f {
            Some(Fault::Fail(k)) if k == n => {
                self.log.fault_fired.store(1, Ordering::SeqCst);
                Err(StoreError::DelegateMessage("verif: injected store failure".to_string()))
            }
            Some(Fault::KillAfter(k)) if k == n => {
                self.log.fault_fired.store(1, Ordering::SeqCst);
                Ok(true)
            }
            _ => Ok(false),
        }
    }
}

pub struct MapCon {
    entries: Vec<(Vec<u8>, Vec<u8>)>,
    pos: usize,
}

impl RangeConsumer for MapCon {
    fn consume_next(&mut self) -> Result<Option<KeyValue<'_>>, StoreError> {
        if self.pos < self.entries.len() {
            let (k, v) = &self.entries[self.pos];
            self.pos += 1;
            Ok(Some((k.as_slice(), v.as_slice())))
        } else {
            Ok(None)
        }
    }
}

impl NodePersistence for RecStore {
    type MapCon<'a> = MapCon where Self: 'a;
    type LaneId = u64;

    fn id_for(&self, name: &str) -> Result<u64, StoreError> {
        let mut st = self.log.state.lock();
        let n = st.ids.len() as u64 + 1;
        let id = *st.ids.entry(name.to_string()).or_insert(n);
        drop(st);
        self.record(StoreCall::IdFor(name.to_string(), id));
        Ok(id)
    }

    fn get_value(&self, id: u64, buffer: &mut BytesMut) -> Result<Option<usize>, StoreError> {
        let st = self.log.state.lock();
        let v = st.values.get(&id).cloned();
        drop(st);
        self.record(StoreCall::GetValue(id, v.clone()));
        Ok(v.map(|v| {
            buffer.extend_from_slice(&v);
            v.len()
        }))
    }

    fn put_value(&mut self, id: u64, value: &[u8]) -> Result<(), StoreError> {
        let kill = self.gate()?;
        self.log.state.lock().values.insert(id, value.to_vec());
        self.record(StoreCall::Put(id, value.to_vec()));
        if kill {
            panic!("{}", KILL_MSG);
        }
        Ok(())
    }

    fn delete_value(&mut self, id: u64) -> Result<(), StoreError> {
        let kill = self.gate()?;
        self.log.state.lock().values.remove(&id);
        self.record(StoreCall::Delete(id));
        if kill {
            panic!("{}", KILL_MSG);
        }
        Ok(())
    }

    fn update_map(&mut self, id: u64, key: &[u8], value: &[u8]) -> Result<(), StoreError> {
        let kill = self.gate()?;
        self.log.state.lock().maps.entry(id).or_default().insert(key.to_vec(), value.to_vec());
        self.record(StoreCall::Update(id, key.to_vec(), value.to_vec()));
        if kill {
            panic!("{}", KILL_MSG);
        }
        Ok(())
    }

    fn remove_map(&mut self, id: u64, key: &[u8]) -> Result<(), StoreError> {
        let kill = self.gate()?;
        if let Some(m) = self.log.state.lock().maps.get_mut(&id) {
            m.remove(key);
        }
        self.record(StoreCall::Remove(id, key.to_vec()));
        if kill {
            panic!("{}", KILL_MSG);
        }
        Ok(())
    }

    fn clear_map(&mut self, id: u64) -> Result<(), StoreError> {
        let kill = self.gate()?;
        self.log.state.lock().maps.remove(&id);
        self.record(StoreCall::Clear(id));
        if kill {
            panic!("{}", KILL_MSG);
        }
        Ok(())
    }

    fn read_map(&self, id: u64) -> Result<MapCon, StoreError> {
        let st = self.log.state.lock();
        let entries: Vec<(Vec<u8>, Vec<u8>)> = st.maps.get(&id).map(|m| m.iter().map(|(k, v)| (k.clone(), v.clone())).collect()).unwrap_or_default();
        drop(st);
        self.record(StoreCall::ReadMap(id, entries.len()));
        Ok(MapCon { entries, pos: 0 })
    }
}


// ------------------------------------------------------------------------------------------
// the same recorder in front of the real in-memory store of swimos_server_app
// ------------------------------------------------------------------------------------------

use swimos_server_app::verif_hooks::InMemoryPlanePersistence;
use swimos_api::persistence::PlanePersistence;

pub type MemNode = <InMemoryPlanePersistence as PlanePersistence>::Node;

/// Records every call (and keeps the reference state in the log, as `RecStore` does) but the data
/// lives in the real `InMemoryNodePersistence`: what a restarted agent reads back is what that
/// store kept across the drop of one instance and the acquisition of the next.
pub struct RecOverMem {
    pub rec: RecStore,
    pub inner: MemNode,
}

impl NodePersistence for RecOverMem {
    type MapCon<'a> = <MemNode as NodePersistence>::MapCon<'a> where Self: 'a;
    type LaneId = u64;

    fn id_for(&self, name: &str) -> Result<u64, StoreError> {
        let id = self.inner.id_for(name)?;
        self.rec.log.state.lock().ids.insert(name.to_string(), id);
        self.rec.record(StoreCall::IdFor(name.to_string(), id));
        Ok(id)
    }

    fn get_value(&self, id: u64, buffer: &mut BytesMut) -> Result<Option<usize>, StoreError> {
        let before = buffer.len();
        let r = self.inner.get_value(id, buffer)?;
        self.rec.record(StoreCall::GetValue(id, r.map(|_| buffer[before..].to_vec())));
        Ok(r)
    }

    fn put_value(&mut self, id: u64, value: &[u8]) -> Result<(), StoreError> {
        let kill = self.rec.gate()?;
        self.inner.put_value(id, value)?;
        self.rec.log.state.lock().values.insert(id, value.to_vec());
        self.rec.record(StoreCall::Put(id, value.to_vec()));
        if kill {
            panic!("{}", KILL_MSG);
        }
        Ok(())
    }

    fn delete_value(&mut self, id: u64) -> Result<(), StoreError> {
        let kill = self.rec.gate()?;
        self.inner.delete_value(id)?;
        self.rec.log.state.lock().values.remove(&id);
        self.rec.record(StoreCall::Delete(id));
        if kill {
            panic!("{}", KILL_MSG);
        }
        Ok(())
    }

    fn update_map(&mut self, id: u64, key: &[u8], value: &[u8]) -> Result<(), StoreError> {
        let kill = self.rec.gate()?;
        self.inner.update_map(id, key, value)?;
        self.rec.log.state.lock().maps.entry(id).or_default().insert(key.to_vec(), value.to_vec());
        self.rec.record(StoreCall::Update(id, key.to_vec(), value.to_vec()));
        if kill {
            panic!("{}", KILL_MSG);
        }
        Ok(())
    }

    fn remove_map(&mut self, id: u64, key: &[u8]) -> Result<(), StoreError> {
        let kill = self.rec.gate()?;
        self.inner.remove_map(id, key)?;
        if let Some(m) = self.rec.log.state.lock().maps.get_mut(&id) {
            m.remove(key);
        }
        self.rec.record(StoreCall::Remove(id, key.to_vec()));
        if kill {
            panic!("{}", KILL_MSG);
        }
        Ok(())
    }

    fn clear_map(&mut self, id: u64) -> Result<(), StoreError> {
        let kill = self.rec.gate()?;
        self.inner.clear_map(id)?;
        self.rec.log.state.lock().maps.remove(&id);
        self.rec.record(StoreCall::Clear(id));
        if kill {
            panic!("{}", KILL_MSG);
        }
        Ok(())
    }

    fn read_map(&self, id: u64) -> Result<Self::MapCon<'_>, StoreError> {
        let n = self.rec.log.state.lock().maps.get(&id).map(|m| m.len()).unwrap_or(0);
        self.rec.record(StoreCall::ReadMap(id, n));
        self.inner.read_map(id)
    }
}

/// Acquire the node store of `uri` from the plane; `None` if the request is still pending (the
/// previous instance's store has not been dropped).
pub fn acquire(plane: &InMemoryPlanePersistence, uri: &str) -> Option<Result<MemNode, StoreError>> {
    use futures::FutureExt;
    plane.node_store(uri).now_or_never()
}

/// What the server does for every routing request that finds the agent already running: ask the
/// plane for the node store and drop the request unused.
pub fn abandoned_request(plane: &InMemoryPlanePersistence, uri: &str) {
    let mut fut = plane.node_store(uri);
    let w = futures::task::noop_waker();
    let mut cx = std::task::Context::from_waker(&w);
    let _ = std::future::Future::poll(fut.as_mut(), &mut cx);
    drop(fut);
}

//! Leg `wt-lane-failure` (E1, C04): the agent runtime's write task on its own (through the
//! cfg(swimos_verif) constructor `write_task_for_verif`), with the harness playing the agent's
//! lanes, the read task's link / unlink requests and the remotes. Its purpose is the one event the
//! real agent never produces: a lane whose response stream turns into garbage (the write task then
//! reports the lane as failed). Law (the C04 link state machine, per remote and lane): frames of a
//! lane reach a remote only inside a link opened by `linked`; a link ends with exactly one
//! `unlinked`; when a lane fails every link open on it is closed with `unlinked` while the links
//! of the other lanes stay usable; when the task stops every remaining link is closed.

use bytes::BytesMut;
use serde_json::json;
use std::collections::BTreeMap;
use std::num::NonZeroUsize;
use std::pin::Pin;
use std::sync::Arc;
use std::task::{Context, Poll};
use std::time::{Duration, Instant};
use swimos_agent_protocol::encoding::lane::{RawMapLaneResponseEncoder, RawValueLaneResponseEncoder};
use swimos_agent_protocol::{LaneResponse, MapOperation};
use swimos_api::agent::UplinkKind;
use swimos_messages::protocol::{Notification, RawResponseMessageDecoder};
use swimos_runtime::agent::AgentRuntimeConfig;
use swimos_runtime::agent::reporting::{UplinkReportReader, UplinkReporter};
use swimos_runtime::verif_hooks::{write_task_for_verif_reporting, WriteTaskHandles};
use swimos_utilities::byte_channel::{byte_channel, BudgetedFutureExt, ByteReader};
use tokio::io::{AsyncRead, AsyncWrite, ReadBuf};
use tokio_util::codec::{Decoder, Encoder};
use uuid::Uuid;
use vcommon::sched::{ExploreStats, Outcome, Subject, WakeFlag, World};
use vcommon::{Ctx, Leg};

const LANES: [(&str, UplinkKind); 3] = [("v", UplinkKind::Value), ("m", UplinkKind::Map), ("s", UplinkKind::Supply)];

#[derive(Clone, Debug, PartialEq, Eq, serde::Serialize, serde::Deserialize)]
pub enum LStep {
    Attach(u8),
    Link(u8, u8),
    Unlink(u8, u8),
    /// lane l produces a well formed event with value x
    Ev(u8, i32),
    /// lane l writes bytes that are not a lane response
    Garbage(u8),
    /// a link request for lane l arrives from a remote the write task does not have (it was never
    /// attached to it, or has been removed): nobody is there to be linked
    GhostLink(u8),
}

#[derive(Clone, Debug, serde::Serialize, serde::Deserialize)]
pub struct LCfg {
    pub script: Vec<LStep>,
    pub budget: usize,
    pub remote_buf: usize,
}

#[derive(Clone, Debug)]
struct Fr {
    step: u64,
    lane: String,
    kind: &'static str,
    body: String,
}

struct Rem {
    id: Uuid,
    rx: Option<ByteReader>,
    flag: Arc<WakeFlag>,
    inbuf: BytesMut,
    frames: Vec<Fr>,
    decode_error: Option<String>,
}

pub struct WtLinkWorld {
    cfg: LCfg,
    subject: Subject<()>,
    h: WriteTaskHandles,
    pos: usize,
    step: u64,
    remotes: Vec<Rem>,
    /// (step, what) in script order
    sent: Vec<(u64, LStep)>,
    failed_lane_at: BTreeMap<u8, u64>,
    stop_fired: Option<u64>,
    completed_at: Option<u64>,
    agg: UplinkReportReader,
    /// (reported link count, links open according to the remotes' frames) at quiescence, just
    /// before the task is asked to stop
    links_at_quiescence: Option<(u64, u64)>,
    trace_on: bool,
    trace: Vec<String>,
}

const EV_POLL: u32 = 0;
const EV_RECV0: u32 = 1;
const EV_SCRIPT: u32 = 8;
const EV_STOP: u32 = 9;

fn write_all(w: &mut (impl AsyncWrite + Unpin), mut data: &[u8]) -> bool {
    let flag = WakeFlag::new(false);
    let waker = flag.waker();
    let mut cx = Context::from_waker(&waker);
    while !data.is_empty() {
        match Pin::new(&mut *w).poll_write(&mut cx, data) {
            Poll::Ready(Ok(n)) if n > 0 => data = &data[n..],
            Poll::Ready(_) => return false,
            Poll::Pending => {
                if flag.is_set() {
                    flag.clear();
                    continue;
                }
                return false;
            }
        }
    }
    true
}

impl WtLinkWorld {
    fn log(&mut self, s: String) {
        if self.trace_on {
            self.trace.push(format!("[{}] {}", self.step, s));
        }
    }

    fn recv(&mut self, i: usize) {
        let step = self.step;
        let mut msgs = vec![];
        {
            let r = &mut self.remotes[i];
            if let Some(rx) = r.rx.as_mut() {
                let waker = r.flag.waker();
                let mut cx = Context::from_waker(&waker);
                let mut tmp = [0u8; 4096];
                loop {
                    let mut rb = ReadBuf::new(&mut tmp);
                    r.flag.clear();
                    match Pin::new(&mut *rx).poll_read(&mut cx, &mut rb) {
                        Poll::Ready(Ok(())) => {
                            let n = rb.filled().len();
                            if n == 0 {
                                r.rx = None;
                                msgs.push(format!("remote {} channel closed", i));
                                break;
                            }
                            r.inbuf.extend_from_slice(rb.filled());
                        }
                        Poll::Ready(Err(_)) => {
                            r.rx = None;
                            break;
                        }
                        Poll::Pending => {
                            if r.flag.is_set() {
                                continue;
                            }
                            break;
                        }
                    }
                }
            }
            let mut dec = RawResponseMessageDecoder;
            while r.decode_error.is_none() {
                match dec.decode(&mut r.inbuf) {
                    Ok(Some(m)) => {
                        let lane = m.path.lane.to_string();
                        let (kind, body) = match m.envelope {
                            Notification::Linked => ("linked", String::new()),
                            Notification::Synced => ("synced", String::new()),
                            Notification::Unlinked(b) => ("unlinked", b.map(|b| String::from_utf8_lossy(&b).to_string()).unwrap_or_default()),
                            Notification::Event(b) => ("event", String::from_utf8_lossy(&b).to_string()),
                        };
                        msgs.push(format!("remote {} <- {} {} {:?}", i, kind, lane, body));
                        r.frames.push(Fr { step, lane, kind, body });
                    }
                    Ok(None) => break,
                    Err(e) => r.decode_error = Some(format!("{:?}", e)),
                }
            }
        }
        for m in msgs {
            self.log(m);
        }
    }
}

impl World for WtLinkWorld {
    type Cfg = LCfg;

    fn new(cfg: &LCfg, trace: bool) -> Self {
        let config = AgentRuntimeConfig { inactive_timeout: Duration::from_secs(100_000), prune_remote_delay: Duration::from_secs(100_000), shutdown_timeout: Duration::from_secs(10), ..Default::default() };
        let lanes: Vec<(&str, UplinkKind, bool)> = LANES.iter().map(|(n, k)| (*n, *k, true)).collect();
        let agg_reporter = UplinkReporter::default();
        let agg = agg_reporter.reader();
        let (task, h) = write_task_for_verif_reporting(Uuid::from_u128(7), "/node", config, lanes, NonZeroUsize::new(4096).unwrap(), Some(agg_reporter));
        let budget = NonZeroUsize::new(cfg.budget.max(2)).unwrap();
        let subject: Subject<()> = Subject::new(tokio::task::unconstrained(
            async move {
                let _ = task.await;
            }
            .with_budget(budget),
        ));
        WtLinkWorld {
            cfg: cfg.clone(),
            subject,
            h,
            pos: 0,
            step: 0,
            remotes: (0..2)
                .map(|i| Rem { id: Uuid::from_u128(1000 + i as u128), rx: None, flag: WakeFlag::new(true), inbuf: BytesMut::new(), frames: vec![], decode_error: None })
                .collect(),
            sent: vec![],
            failed_lane_at: BTreeMap::new(),
            stop_fired: None,
            completed_at: None,
            agg,
            links_at_quiescence: None,
            trace_on: trace,
            trace: vec![],
        }
    }

    fn enabled(&mut self) -> Vec<u32> {
        let mut out = vec![];
        if self.subject.runnable() {
            out.push(EV_POLL);
        }
        for (i, r) in self.remotes.iter().enumerate() {
            if r.rx.is_some() && r.flag.is_set() {
                out.push(EV_RECV0 + i as u32);
            }
        }
        if self.pos < self.cfg.script.len() && self.stop_fired.is_none() {
            out.push(EV_SCRIPT);
        }
        if out.is_empty() && self.subject.alive() && self.stop_fired.is_none() {
            return vec![EV_STOP];
        }
        out
    }

    fn label(&self, code: u32) -> String {
        match code {
            EV_POLL => "poll".into(),
            EV_STOP => "stop".into(),
            EV_SCRIPT => format!("script({:?})", self.cfg.script.get(self.pos)),
            c => format!("recv{}", c - EV_RECV0),
        }
    }

    async fn fire(&mut self, code: u32) {
        self.step += 1;
        match code {
            EV_POLL => {
                if self.subject.poll() {
                    self.completed_at = Some(self.step);
                    self.log("write task completed".into());
                }
                self.h.drain_read_messages();
            }
            EV_STOP => {
                // quiescent: every frame written so far has been read by its remote
                let mut open = 0u64;
                for r in &self.remotes {
                    for (lname, _) in LANES.iter() {
                        let mut o = false;
                        for f in r.frames.iter().filter(|f| f.lane == *lname) {
                            match f.kind {
                                "linked" => o = true,
                                "unlinked" => o = false,
                                _ => {}
                            }
                        }
                        if o {
                            open += 1;
                        }
                    }
                }
                if let Some(s) = self.agg.snapshot() {
                    self.links_at_quiescence = Some((s.link_count, open));
                }
                self.stop_fired = Some(self.step);
                if let Some(s) = self.h.stop.take() {
                    s.trigger();
                }
            }
            EV_SCRIPT => {
                let st = self.cfg.script[self.pos].clone();
                self.pos += 1;
                let ok = match &st {
                    LStep::Attach(r) => {
                        let (tx, rx) = byte_channel(NonZeroUsize::new(self.cfg.remote_buf.max(8)).unwrap());
                        let ok = self.h.attach_remote(self.remotes[*r as usize].id, tx).is_some();
                        self.remotes[*r as usize].rx = Some(rx);
                        ok
                    }
                    LStep::Link(r, l) => self.h.link(self.remotes[*r as usize].id, LANES[*l as usize].0),
                    LStep::Unlink(r, l) => self.h.unlink(self.remotes[*r as usize].id, LANES[*l as usize].0),
                    LStep::Ev(l, x) => {
                        let mut buf = BytesMut::new();
                        if LANES[*l as usize].1 == UplinkKind::Map {
                            let key = format!("{}", x);
                            let op = MapOperation::Update { key: key.as_bytes(), value: b"1".as_slice() };
                            RawMapLaneResponseEncoder::default().encode(LaneResponse::StandardEvent(op), &mut buf).expect("encode");
                        } else {
                            let body = x.to_string();
                            RawValueLaneResponseEncoder::default().encode(LaneResponse::StandardEvent(body.as_bytes()), &mut buf).expect("encode");
                        }
                        write_all(&mut self.h.lanes[*l as usize].2, &buf)
                    }
                    LStep::GhostLink(l) => self.h.link(Uuid::from_u128(4242), LANES[*l as usize].0),
                    LStep::Garbage(l) => {
                        let ok = write_all(&mut self.h.lanes[*l as usize].2, &[0xffu8; 24]);
                        if ok {
                            self.failed_lane_at.entry(*l).or_insert(self.step);
                        }
                        ok
                    }
                };
                if ok {
                    self.sent.push((self.step, st.clone()));
                }
                self.log(format!("{:?} accepted={}", st, ok));
            }
            c => self.recv((c - EV_RECV0) as usize),
        }
    }

    fn finish(mut self) -> Outcome {
        for i in 0..self.remotes.len() {
            self.recv(i);
        }
        let mut violations: Vec<(String, String)> = vec![];
        let mut add = |sig: String, e: String| {
            if !violations.iter().any(|(s, _)| *s == sig) {
                violations.push((sig, e));
            }
        };
        let stopped = self.stop_fired.is_some();
        if let Some((reported, open)) = self.links_at_quiescence {
            if reported != open {
                add(
                    "wt-links: the agent's reported uplink count differs from the number of open links at quiescence".into(),
                    format!("reported {} links, the remotes hold {} open links", reported, open),
                );
            }
        }
        for (ri, r) in self.remotes.iter().enumerate() {
            if let Some(e) = &r.decode_error {
                add("wt-links: a remote received bytes that are not a response frame".into(), format!("remote {}: {}", ri, e));
            }
            for (li, (lname, kind)) in LANES.iter().enumerate() {
                let kname = match kind {
                    UplinkKind::Value => "value",
                    UplinkKind::Map => "map",
                    UplinkKind::Supply => "supply",
                };
                let mut open = false;
                let mut opened = 0u32;
                let mut closed = 0u32;
                for f in r.frames.iter().filter(|f| f.lane == *lname) {
                    match f.kind {
                        "linked" => {
                            open = true;
                            opened += 1;
                        }
                        "unlinked" => {
                            if !open {
                                // an unlink request outside a link is answered with unlinked: allowed once per request
                                let requests = self.sent.iter().filter(|(_, s)| *s == LStep::Unlink(ri as u8, li as u8)).count() as u32;
                                if closed >= requests + opened {
                                    add(format!("wt-links: unlinked without an open link lane-kind={}", kname), format!("remote {} lane {} at step {}", ri, lname, f.step));
                                }
                            }
                            open = false;
                            closed += 1;
                        }
                        _ => {
                            if !open {
                                add(format!("wt-links: frame outside a link lane-kind={}", kname), format!("remote {} lane {}: {} {:?} at step {} without an open link", ri, lname, f.kind, f.body, f.step));
                            }
                        }
                    }
                }
                let link_requested = self.sent.iter().any(|(_, s)| *s == LStep::Link(ri as u8, li as u8));
                let attached = self.sent.iter().any(|(_, s)| *s == LStep::Attach(ri as u8));
                if let Some(failed_at) = self.failed_lane_at.get(&(li as u8)) {
                    // the lane failed: a link that was opened must have been closed - by the failure, that
                    // is before the harness (which stops the task only at quiescence) asked it to stop,
                    // not by the shutdown epilogue
                    let closed_before_stop = {
                        let mut o = false;
                        for f in r.frames.iter().filter(|f| f.lane == *lname && self.stop_fired.map(|t| f.step < t).unwrap_or(true)) {
                            match f.kind {
                                "linked" => o = true,
                                "unlinked" => o = false,
                                _ => {}
                            }
                        }
                        !o
                    };
                    if opened > 0 && (open || !closed_before_stop) {
                        add(
                            format!("wt-links: a lane failed but a link open on it was never closed with unlinked lane-kind={}", kname),
                            format!("remote {} lane {}: garbage written at step {}, frames {:?}", ri, lname, failed_at, r.frames.iter().filter(|f| f.lane == *lname).map(|f| f.kind).collect::<Vec<_>>()),
                        );
                    }
                } else if stopped && self.completed_at.is_some() && open {
                    add(format!("wt-links: link still open after the write task stopped lane-kind={}", kname), format!("remote {} lane {}", ri, lname));
                }
                // a link request on a healthy lane is answered
                if attached && link_requested && opened == 0 && !self.failed_lane_at.contains_key(&(li as u8)) && self.completed_at.is_some() {
                    let before_stop = self.sent.iter().any(|(s, st)| *st == LStep::Link(ri as u8, li as u8) && self.stop_fired.map(|x| *s < x).unwrap_or(true));
                    if before_stop {
                        add(format!("wt-links: link request never answered lane-kind={}", kname), format!("remote {} lane {}", ri, lname));
                    }
                }
                // events of a healthy lane produced while the link was certainly open are delivered
                if !self.failed_lane_at.contains_key(&(li as u8)) {
                    let evs: Vec<String> = self.sent.iter().filter_map(|(_, s)| if let LStep::Ev(l, x) = s { if *l as usize == li { Some(x.to_string()) } else { None } } else { None }).collect();
                    let _ = evs;
                }
            }
        }
        // the links of the other lanes stay usable after a lane failure: an event written to a healthy
        // lane after the failure, to a remote whose link on that lane was open before the failure and
        // never unlinked by request, must arrive
        for (fl, failed_at) in &self.failed_lane_at {
            for (ri, r) in self.remotes.iter().enumerate() {
                for (li, (lname, kind)) in LANES.iter().enumerate() {
                    if li as u8 == *fl || self.failed_lane_at.contains_key(&(li as u8)) {
                        continue;
                    }
                    let linked_before = r.frames.iter().any(|f| f.lane == *lname && f.kind == "linked" && f.step < *failed_at);
                    let unlink_req = self.sent.iter().any(|(_, s)| *s == LStep::Unlink(ri as u8, li as u8));
                    if !linked_before || unlink_req {
                        continue;
                    }
                    for (s, st) in &self.sent {
                        if let LStep::Ev(l, x) = st {
                            if *l as usize == li && *s > *failed_at && self.stop_fired.map(|t| *s < t).unwrap_or(true) {
                                let want = if *kind == UplinkKind::Map { format!("@update(key:{})", x) } else { x.to_string() };
                                let got = r.frames.iter().any(|f| f.lane == *lname && f.kind == "event" && f.body.replace(' ', "").starts_with(&want.replace(' ', "")));
                                // value lanes may supersede: accept any later event of the lane
                                let later = r.frames.iter().any(|f| f.lane == *lname && f.kind == "event" && f.step >= *s);
                                if !got && !later && self.completed_at.is_some() {
                                    add(
                                        "wt-links: after another lane failed, an event of a healthy lane no longer reaches a linked remote".into(),
                                        format!("remote {} lane {}: event {} written at step {} (lane {} failed at {}) never arrived", ri, lname, x, s, LANES[*fl as usize].0, failed_at),
                                    );
                                }
                            }
                        }
                    }
                }
            }
        }
        let mut h: u64 = 0xcbf29ce484222325;
        let mut feed = |s: &str| {
            for b in s.as_bytes() {
                h ^= *b as u64;
                h = h.wrapping_mul(0x100000001b3);
            }
        };
        for r in &self.remotes {
            for f in &r.frames {
                feed(&format!("{}{}{}|", f.lane, f.kind, f.body));
            }
            feed("#");
        }
        feed(&format!("{:?}", self.completed_at.is_some()));
        Outcome { digest: h, violations, log: self.trace }
    }
}

fn scripts() -> Vec<Vec<LStep>> {
    use LStep::*;
    let mut v = vec![];
    for fl in 0..3u8 {
        let other = (fl + 1) % 3;
        // two remotes linked to the failing lane and to another one
        v.push(vec![Attach(0), Attach(1), Link(0, fl), Link(1, fl), Link(0, other), Ev(fl, 1), Garbage(fl), Ev(other, 2), Ev(other, 3)]);
        // failure with data still queued for a remote, then more links
        v.push(vec![Attach(0), Link(0, fl), Ev(fl, 1), Ev(fl, 2), Ev(fl, 3), Garbage(fl), Attach(1), Link(1, other), Ev(other, 4)]);
        // unlink racing with the failure
        v.push(vec![Attach(0), Attach(1), Link(0, fl), Link(1, fl), Unlink(0, fl), Garbage(fl), Link(1, other), Ev(other, 5)]);
    }
    // no failure at all: plain link protocol
    v.push(vec![Attach(0), Attach(1), Link(0, 0), Link(1, 1), Ev(0, 1), Ev(1, 2), Unlink(0, 0), Link(0, 2), Ev(2, 3), Ev(0, 4)]);
    // link requests from a remote the write task does not know
    v.push(vec![Attach(0), Link(0, 0), GhostLink(0), Ev(0, 1), GhostLink(1), Ev(1, 2), Link(0, 1), Ev(1, 3)]);
    v.push(vec![GhostLink(2), Attach(1), Link(1, 2), Ev(2, 1), Unlink(1, 2), GhostLink(2), Ev(2, 2)]);
    v
}

pub fn run_leg(ctx: &Ctx, name: &str) {
    let quick = ctx.quick();
    let t0 = Instant::now();
    let mut cfgs = vec![];
    for s in scripts() {
        for budget in [64usize, 2] {
            for remote_buf in [4096usize, 8] {
                cfgs.push(LCfg { script: s.clone(), budget, remote_buf });
            }
        }
    }
    let bound = if quick { 1 } else { 2 };
    let results: Vec<Option<ExploreStats>> = match vcommon::sched::grid_explore::<WtLinkWorld>(name, &cfgs, bound, if quick { 20_000 } else { 1_000_000 }, if quick { 15.0 } else { 600.0 }) {
        vcommon::sched::GridOutcome::NotMine => return,
        vcommon::sched::GridOutcome::Done(r) => r,
    };
    let mut total = ExploreStats::default();
    let mut skipped = 0;
    for (cfg, r) in cfgs.iter().zip(results) {
        match r {
            None => skipped += 1,
            Some(st) => {
                if !st.machinery_errors.is_empty() {
                    eprintln!("machinery errors: {:?}", &st.machinery_errors[..st.machinery_errors.len().min(3)]);
                    vcommon::machinery_failure("schedule explorer: nondeterminism or crash");
                }
                for (sig, expl, choices) in &st.violations {
                    ctx.violation(name, sig, json!({"cfg": serde_json::to_value(cfg).unwrap(), "choices": choices, "explanation": expl, "what": expl}));
                }
                total.executions += st.executions;
                total.steps += st.steps;
                total.distinct_digests += st.distinct_digests;
                total.nontrivial += st.nontrivial;
                total.capped |= st.capped;
                total.max_len = total.max_len.max(st.max_len);
            }
        }
    }
    ctx.add_leg(Leg {
        name: name.into(),
        engine: "E1-sched".into(),
        states: total.distinct_digests,
        transitions: total.steps,
        evaluations: total.executions,
        distinct_nontrivial: total.nontrivial,
        rule: "all schedules with at most `bound` deviations from the canonical schedule (write task polled to idle and remotes drained between harness steps) of every script, for value, map and supply lanes as the failing lane".into(),
        samples: vec![],
        exhaustive: skipped == 0 && !total.capped,
        bounds: json!({"configurations": cfgs.len(), "skipped_by_wall_cap": skipped, "deviation_bound": bound, "longest_execution_steps": total.max_len}),
        wall_s: t0.elapsed().as_secs_f64(),
    });
}

pub fn replay(ctx: &Ctx, r: &serde_json::Value) {
    let d = &r["detail"];
    let cfg: LCfg = serde_json::from_value(d["cfg"].clone()).unwrap_or_else(|e| vcommon::machinery_failure(&format!("bad cfg: {}", e)));
    let choices: Vec<u8> = d["choices"].as_array().map(|a| a.iter().map(|x| x.as_u64().unwrap() as u8).collect()).unwrap_or_default();
    let sig = r["signature"].as_str().unwrap_or("");
    let mut hits = 0;
    for round in 0..2 {
        let rec = vcommon::sched::run_one::<WtLinkWorld>(&cfg, &choices, true).unwrap_or_else(|e| vcommon::machinery_failure(&e));
        if round == 0 {
            println!("schedule: {}", rec.labels.join(" "));
            for l in &rec.outcome.log {
                println!("{}", l);
            }
        }
        if rec.outcome.violations.iter().any(|(s, _)| s == sig) {
            hits += 1;
        }
    }
    if hits == 1 {
        vcommon::machinery_failure("nondeterminism in replay");
    }
    if hits == 2 {
        println!("REPRODUCED: {}", sig);
        ctx.violation(r["leg"].as_str().unwrap_or("replay"), sig, d.clone());
    }
}

#[allow(dead_code)]
fn _unused(_: &dyn AsyncRead) {}

//! Oracles over the observations of one execution of the agent-system world. Every oracle states
//! only what the property states; signatures are schedule independent.

use crate::agent::Truth;
use crate::world::{Frame, FrameKind, Observation, Remote, Step};
use std::collections::{BTreeMap, BTreeSet};

pub type V = Vec<(String, String)>;

pub const VALUE_LANES: [&str; 3] = ["v", "w", "t"];
pub const KNOWN_LANES: [&str; 7] = ["v", "w", "t", "m", "s", "c", "k"];

fn lane_kind(lane: &str) -> &'static str {
    match lane {
        "v" | "w" | "t" => "value",
        "m" => "map",
        "s" => "supply",
        "c" | "k" => "command",
        _ => "unknown",
    }
}

fn body_str(f: &Frame) -> String {
    String::from_utf8_lossy(&f.body).to_string()
}

fn sent_before(r: &Remote, lane: &str, step: u64, f: impl Fn(&Step) -> bool) -> usize {
    r.sent.iter().filter(|(s, st)| *s < step && st.lane() == lane && f(st)).count()
}

fn lanes_of(r: &Remote) -> BTreeSet<String> {
    let mut s: BTreeSet<String> = r.frames.iter().map(|f| f.lane.clone()).collect();
    for (_, st) in &r.sent {
        s.insert(st.lane().to_string());
    }
    s
}

/// The values a value lane held, in order: the value at start, then every set.
pub fn value_history(obs: &Observation, lane: &str, upto: Option<usize>) -> Vec<(u64, i32)> {
    let mut h = vec![];
    let n = upto.unwrap_or(obs.truth.len());
    for (step, t) in obs.truth.iter().take(n) {
        match t {
            Truth::Start { v, w, t, .. } => {
                let x = match lane {
                    "v" => *v,
                    "w" => *w,
                    _ => *t,
                };
                h.push((*step, x));
            }
            Truth::Value { lane: l, new, .. } if *l == lane => h.push((*step, *new)),
            _ => {}
        }
    }
    if h.is_empty() {
        h.push((0, 0));
    }
    h
}

#[derive(Clone, Debug, PartialEq, Eq)]
pub enum MapEv {
    Update(i32, i32),
    Remove(i32),
    Clear,
}

pub fn parse_map_event(body: &str) -> Option<MapEv> {
    let b = body.trim();
    if b == "@clear" {
        return Some(MapEv::Clear);
    }
    if let Some(rest) = b.strip_prefix("@update(key:") {
        let (k, v) = rest.split_once(')')?;
        return Some(MapEv::Update(k.trim().parse().ok()?, v.trim().parse().ok()?));
    }
    if let Some(rest) = b.strip_prefix("@remove(key:") {
        let k = rest.strip_suffix(')')?;
        return Some(MapEv::Remove(k.trim().parse().ok()?));
    }
    None
}

/// Map states of lane `m` after each truth entry: (step, state). Index 0 is the state at start.
pub fn map_history(obs: &Observation, lane: &'static str, upto: Option<usize>) -> Vec<(u64, BTreeMap<i32, i32>)> {
    let mut cur: BTreeMap<i32, i32> = BTreeMap::new();
    let mut h = vec![];
    let n = upto.unwrap_or(obs.truth.len());
    for (step, t) in obs.truth.iter().take(n) {
        match t {
            Truth::Start { m, ms, .. } => {
                let src = if lane == "m" { m } else { ms };
                cur = src.iter().cloned().collect();
                h.push((*step, cur.clone()));
            }
            Truth::MapUpdate { lane: l, key, new, .. } if *l == lane => {
                cur.insert(*key, *new);
                h.push((*step, cur.clone()));
            }
            Truth::MapRemove { lane: l, key, .. } if *l == lane => {
                cur.remove(key);
                h.push((*step, cur.clone()));
            }
            Truth::MapClear { lane: l, .. } if *l == lane => {
                cur.clear();
                h.push((*step, cur.clone()));
            }
            _ => {}
        }
    }
    if h.is_empty() {
        h.push((0, cur));
    }
    h
}

// ------------------------------------------------------------------------------------------
// C04: link state machine, no fabricated frames
// ------------------------------------------------------------------------------------------

pub fn check_c04(obs: &Observation) -> V {
    let mut out: V = vec![];
    let mut add = |sig: String, expl: String| {
        if !out.iter().any(|(s, _)| *s == sig) {
            out.push((sig, expl));
        }
    };
    for (ri, r) in obs.remotes.iter().enumerate() {
        if let Some(e) = &r.decode_error {
            add("as: remote received an undecodable frame".into(), format!("remote {}: {}", ri, e));
            continue;
        }
        for lane in lanes_of(r) {
            let kind = lane_kind(&lane);
            let known = kind != "unknown";
            // Some(true/false): the link is certainly open / closed; None: the remote went away while
            // the link was open and came back under the same id - the runtime may or may not have
            // torn the link down in between
            let mut linked: Option<bool> = Some(false);
            let detaches: Vec<u64> = r.sent.iter().filter(|(_, s)| matches!(s, Step::Detach)).map(|(s, _)| *s).collect();
            let mut next_detach = 0usize;
            let mut n_linked = 0usize;
            let mut n_synced = 0usize;
            let mut n_notfound = 0usize;
            for f in r.frames.iter().filter(|f| f.lane == lane) {
                while next_detach < detaches.len() && detaches[next_detach] < f.step {
                    linked = if linked == Some(true) { None } else { linked };
                    next_detach += 1;
                }
                let reqs = sent_before(r, &lane, f.step, |s| matches!(s, Step::Link(_) | Step::Sync(_)));
                let syncs = sent_before(r, &lane, f.step, |s| matches!(s, Step::Sync(_)));
                match f.kind {
                    FrameKind::Linked => {
                        if !known {
                            add(format!("as: linked for a lane that does not exist"), format!("remote {} lane {}", ri, lane));
                        }
                        n_linked += 1;
                        if n_linked > reqs {
                            // classified cause: the remote asked to sync and then to unlink; the unlink was
                            // processed while the sync was still being answered, and the rest of the answer
                            // (targeted at a remote that is no longer linked) opened the link again
                            let lane_frames: Vec<&Frame> = r.frames.iter().filter(|g| g.lane == lane).collect();
                            let pos = lane_frames.iter().position(|g| std::ptr::eq(*g, f)).unwrap_or(0);
                            let prev_unlinked = pos > 0 && lane_frames[pos - 1].kind == FrameKind::Unlinked;
                            let unlink_sent = r.sent.iter().filter(|(st, s)| *st < f.step && matches!(s, Step::Unlink(l) if *l == lane)).map(|(st, _)| *st).max();
                            let sync_before_unlink = unlink_sent.map(|u| r.sent.iter().any(|(st, s)| *st < u && matches!(s, Step::Sync(l) if *l == lane))).unwrap_or(false);
                            let synced_before = lane_frames[..pos].iter().filter(|g| g.kind == FrameKind::Synced).count();
                            let synced_later = lane_frames[pos..].iter().any(|g| g.kind == FrameKind::Synced);
                            let late_answer = prev_unlinked && sync_before_unlink && synced_before < syncs && synced_later;
                            add(
                                format!("as: linked without a link or sync request lane-kind={}{}", kind, if late_answer { " [the rest of a sync answer, arriving after the same remote's unlink was processed, opened the link again]" } else { "" }),
                                format!("remote {} lane {}: {} linked frames but only {} link/sync requests sent before step {}", ri, lane, n_linked, reqs, f.step),
                            );
                        }
                        linked = Some(true);
                    }
                    FrameKind::Synced => {
                        if linked == Some(false) {
                            add(format!("as: synced outside a link lane-kind={}", kind), format!("remote {} lane {} at step {}", ri, lane, f.step));
                        }
                        n_synced += 1;
                        if n_synced > syncs {
                            add(
                                format!("as: synced without a sync request lane-kind={}", kind),
                                format!("remote {} lane {}: {} synced frames but only {} sync requests sent before step {}", ri, lane, n_synced, syncs, f.step),
                            );
                        }
                    }
                    FrameKind::Event => {
                        if linked == Some(false) {
                            add(format!("as: event outside a link lane-kind={}", kind), format!("remote {} lane {} at step {} body {:?}", ri, lane, f.step, body_str(f)));
                        }
                        // body must be something the lane produced
                        let b = body_str(f);
                        let ok = match kind {
                            "value" => b.parse::<i32>().ok().map(|x| value_history(obs, &lane, None).iter().any(|(_, y)| *y == x)).unwrap_or(false),
                            "supply" => b.parse::<i32>().ok().map(|x| obs.truth.iter().any(|(_, t)| *t == Truth::Push(x))).unwrap_or(false),
                            "map" => match parse_map_event(&b) {
                                Some(MapEv::Update(k, v)) => obs.truth.iter().any(|(_, t)| matches!(t, Truth::MapUpdate { lane: "m", key, new, .. } if *key == k && *new == v)),
                                Some(MapEv::Remove(k)) => obs.truth.iter().any(|(_, t)| matches!(t, Truth::MapRemove { lane: "m", key, .. } if *key == k)),
                                Some(MapEv::Clear) => obs.truth.iter().any(|(_, t)| matches!(t, Truth::MapClear { lane: "m", .. })),
                                None => false,
                            },
                            _ => false,
                        };
                        if !ok {
                            let shown = if b.len() <= 8 { format!("{:?}", b) } else { "<other>".to_string() };
                            add(
                                format!("as: event body the lane never produced lane-kind={} body={}", kind, shown),
                                format!("remote {} lane {} step {} body {:?}", ri, lane, f.step, b),
                            );
                        }
                    }
                    FrameKind::Unlinked => {
                        let b = body_str(f);
                        if !known {
                            n_notfound += 1;
                            if b != "@laneNotFound" {
                                add("as: unknown lane answered without lane-not-found".into(), format!("remote {} lane {} body {:?}", ri, lane, b));
                            }
                            if n_notfound > reqs {
                                add("as: more lane-not-found answers than requests".into(), format!("remote {} lane {}", ri, lane));
                            }
                        } else {
                            if linked == Some(false) {
                                add(format!("as: unlinked without an open link lane-kind={}", kind), format!("remote {} lane {} step {} body {:?}", ri, lane, f.step, b));
                            }
                            if b == "@laneNotFound" {
                                add("as: lane-not-found for an existing lane".into(), format!("remote {} lane {}", ri, lane));
                            }
                        }
                        linked = Some(false);
                    }
                }
            }
            while next_detach < detaches.len() {
                linked = if linked == Some(true) { None } else { linked };
                next_detach += 1;
            }
            let last_detach = detaches.last().cloned().unwrap_or(0);
            // closing conditions
            let clean = !obs.fault_before_quiescence && r.dropped_at.is_none();
            if !known && clean {
                // at quiescence every request has been answered exactly once
                let q = r.frames_at_quiescence.unwrap_or(r.frames.len());
                let answered = r.frames.iter().take(q).filter(|f| f.lane == lane && f.kind == FrameKind::Unlinked).count();
                let asked = r.sent.iter().filter(|(_, s)| s.lane() == lane && matches!(s, Step::Link(_) | Step::Sync(_))).count();
                if obs.truth_at_quiescence.is_some() && answered != asked {
                    add(
                        "as: unknown lane request not answered by exactly one unlinked".into(),
                        format!("remote {} lane {}: {} requests, {} answers at quiescence", ri, lane, asked, answered),
                    );
                }
            }
            if known && clean && obs.truth_at_quiescence.is_some() && !matches!(kind, "command") {
                // at clean quiescence every sync request of a remote that is still linked has been
                // answered by synced (requests are coalesced at most: one synced may answer several)
                let q = r.frames_at_quiescence.unwrap_or(r.frames.len());
                let mut state_linked = false;
                let mut last_synced_step = 0u64;
                let mut last_unlinked_step = 0u64;
                for f in r.frames.iter().take(q).filter(|f| f.lane == lane) {
                    match f.kind {
                        FrameKind::Linked => state_linked = true,
                        FrameKind::Unlinked => {
                            state_linked = false;
                            last_unlinked_step = f.step;
                        }
                        FrameKind::Synced => last_synced_step = f.step,
                        FrameKind::Event => {}
                    }
                }
                // (a request made before the remote went away is not owed an answer)
                let last_sync_req = r.sent.iter().filter(|(st, s)| *st > last_detach && matches!(s, Step::Sync(l) if *l == lane)).map(|(s, _)| *s).last();
                let unlink_after = last_sync_req.map(|sr| r.sent.iter().any(|(s, st)| *s > sr && matches!(st, Step::Unlink(l) if *l == lane))).unwrap_or(false);
                // (nor is a request sent after the agent side had closed the remote's channel)
                let closed_early = r.closed_at.map(|c| obs.stop_fired_at.map(|s| c < s).unwrap_or(true)).unwrap_or(false);
                let last_sync_req = last_sync_req.filter(|sr| r.closed_at.map(|c| *sr < c).unwrap_or(true) && !closed_early);
                if let Some(sr) = last_sync_req {
                    if !unlink_after && last_unlinked_step < sr && (last_synced_step < sr || !state_linked) && !(last_synced_step > sr) {
                        add(
                            format!("as: sync request never answered by synced lane-kind={}", kind),
                            format!("remote {} lane {}: sync sent at step {}, last synced read at step {}, linked={} at quiescence", ri, lane, sr, last_synced_step, state_linked),
                        );
                    }
                }
            }
            if known && r.dropped_at.is_none() && r.closed_at.is_some() && obs.result.is_some() && linked == Some(true) {
                // classified cause: the remote had gone away and attached again under the same id; the
                // write task knows a remote by its id only, so the failure of a write to the *earlier*
                // channel removed the new registration and closed the new channel under an open link
                let reattached = r.sent.iter().any(|(_, s)| matches!(s, Step::Detach));
                let removed_for_a_failed_write = r.completion_reason.as_deref() == Some("ChannelClosed");
                add(
                    format!(
                        "as: link left open when the agent {} lane-kind={}{}",
                        if matches!(obs.result, Some(Ok(()))) { "stopped" } else { "failed" },
                        kind,
                        if reattached && removed_for_a_failed_write { " [re-attached id: the failed write to its earlier channel removed the new registration]" } else { "" }
                    ),
                    format!("remote {} lane {}: channel closed by the agent without a final unlinked", ri, lane),
                );
            }
        }
        if r.dropped_at.is_none() && obs.result.is_some() && r.completion_reason.is_none() {
            add("as: completion promise not resolved after the agent stopped".into(), format!("remote {}", ri));
        }
    }
    out
}

// ------------------------------------------------------------------------------------------
// C01: value lanes - ordered, gap tolerant, never stale
// ------------------------------------------------------------------------------------------

pub fn check_c01(obs: &Observation) -> V {
    let mut out: V = vec![];
    let mut add = |sig: String, expl: String| {
        if !out.iter().any(|(s, _)| *s == sig) {
            out.push((sig, expl));
        }
    };
    let clean_quiescence = !obs.fault_before_quiescence && obs.truth_at_quiescence.is_some();
    for (ri, r) in obs.remotes.iter().enumerate() {
        if r.decode_error.is_some() {
            continue;
        }
        for lane in VALUE_LANES {
            let hist = value_history(obs, lane, None);
            let hist_q = value_history(obs, lane, obs.truth_at_quiescence);
            let q = r.frames_at_quiescence.unwrap_or(r.frames.len());
            // walk sessions
            let mut linked = false;
            let mut p = 0usize; // index of the last matched truth entry in this session
            let mut repeats = 0usize;
            let mut last_in_session: Option<i32> = None;
            let mut linked_read_at: Option<u64> = None;
            let mut syncs_in_session = 0usize;
            let mut session_start_step = 0u64;
            for (fi, f) in r.frames.iter().enumerate() {
                if f.lane != lane {
                    continue;
                }
                match f.kind {
                    FrameKind::Linked => {
                        if !linked {
                            linked = true;
                            p = 0;
                            repeats = 0;
                            last_in_session = None;
                            linked_read_at = Some(f.step);
                            session_start_step = f.step;
                            syncs_in_session = 0;
                        }
                    }
                    FrameKind::Unlinked => {
                        linked = false;
                        linked_read_at = None;
                    }
                    FrameKind::Synced => {
                        syncs_in_session += 1;
                    }
                    FrameKind::Event => {
                        let Ok(x) = body_str(f).parse::<i32>() else { continue };
                        // greedy earliest match at or after p
                        if let Some(j) = (p..hist.len()).find(|&j| hist[j].1 == x) {
                            if j == p && last_in_session.is_some() {
                                repeats += 1;
                                // a repeat is legitimate only as the answer to a sync request
                                let syncs_sent = r.sent.iter().filter(|(s, st)| *s < f.step && *s >= session_start_step.saturating_sub(u64::MAX) && matches!(st, Step::Sync(l) if l == lane)).count();
                                if repeats > syncs_sent {
                                    add(
                                        "as: value event duplicated without a sync request".into(),
                                        format!("remote {} lane {}: value {} delivered again at step {}", ri, lane, x, f.step),
                                    );
                                }
                            }
                            p = j;
                        } else if hist[..p.min(hist.len())].iter().any(|(_, y)| *y == x) {
                            add(
                                "as: value events out of order (older value after a newer one)".into(),
                                format!("remote {} lane {}: received {} after a later value; history {:?}", ri, lane, x, hist.iter().map(|h| h.1).collect::<Vec<_>>()),
                            );
                        } else {
                            add(
                                "as: value event the lane never held".into(),
                                format!("remote {} lane {}: received {:?}", ri, lane, body_str(f)),
                            );
                        }
                        last_in_session = Some(x);
                    }
                }
                let _ = (fi, syncs_in_session);
            }
            // convergence at quiescence
            if clean_quiescence && r.dropped_at.is_none() {
                // recompute the session state at quiescence
                let mut linked_q = false;
                let mut last_q: Option<i32> = None;
                let mut linked_at: Option<u64> = None;
                for f in r.frames.iter().take(q).filter(|f| f.lane == lane) {
                    match f.kind {
                        FrameKind::Linked => {
                            if !linked_q {
                                linked_q = true;
                                last_q = None;
                                linked_at = Some(f.step);
                            }
                        }
                        FrameKind::Unlinked => {
                            linked_q = false;
                        }
                        FrameKind::Event => last_q = body_str(f).parse::<i32>().ok(),
                        FrameKind::Synced => {}
                    }
                }
                // an unlink request already sent means the session is being closed: skip
                let unlink_sent = r.sent.iter().any(|(s, st)| matches!(st, Step::Unlink(l) if l == lane) && linked_at.map(|la| *s > la).unwrap_or(false));
                if linked_q && !unlink_sent {
                    let fin = hist_q.last().map(|h| h.1).unwrap();
                    match last_q {
                        Some(x) if x != fin => add(
                            "as: value lane subscriber is stale at quiescence".into(),
                            format!("remote {} lane {}: last received {} but the lane holds {}", ri, lane, x, fin),
                        ),
                        None => {
                            // no event in this session: fine only if nothing changed after it read `linked`
                            let la = linked_at.unwrap_or(0);
                            if hist_q.iter().skip(1).any(|(s, _)| *s > la) {
                                add(
                                    "as: linked value lane subscriber never received an update made after it linked".into(),
                                    format!("remote {} lane {}: read linked at step {}, lane changed later, nothing delivered", ri, lane, la),
                                );
                            }
                        }
                        _ => {}
                    }
                }
            }
            let _ = linked_read_at;
        }
    }
    out
}

// ------------------------------------------------------------------------------------------
// C14: supply lanes, command lanes, agent-sent commands are never coalesced
// ------------------------------------------------------------------------------------------

pub fn check_c14(obs: &Observation) -> V {
    let mut out: V = vec![];
    let mut add = |sig: String, expl: String| {
        if !out.iter().any(|(s, _)| *s == sig) {
            out.push((sig, expl));
        }
    };
    let clean_quiescence = !obs.fault_before_quiescence && obs.truth_at_quiescence.is_some();
    let tq = obs.truth_at_quiescence.unwrap_or(obs.truth.len());
    let pushes: Vec<(u64, i32)> = obs.truth.iter().filter_map(|(s, t)| if let Truth::Push(x) = t { Some((*s, *x)) } else { None }).collect();
    for (ri, r) in obs.remotes.iter().enumerate() {
        if r.decode_error.is_some() {
            continue;
        }
        // --- supply lane s
        let q = r.frames_at_quiescence.unwrap_or(r.frames.len());
        let mut linked = false;
        let mut linked_at = 0u64;
        let mut last_idx: Option<usize> = None;
        let mut session_items: Vec<usize> = vec![];
        let mut sessions: Vec<(u64, Option<u64>, Vec<usize>, bool)> = vec![]; // (linked read step, unlinked read step, items, open at quiescence)
        for (fi, f) in r.frames.iter().enumerate() {
            if f.lane != "s" {
                continue;
            }
            match f.kind {
                FrameKind::Linked => {
                    if !linked {
                        linked = true;
                        linked_at = f.step;
                        last_idx = None;
                        session_items = vec![];
                    }
                }
                FrameKind::Unlinked => {
                    if linked {
                        sessions.push((linked_at, Some(f.step), std::mem::take(&mut session_items), false));
                    }
                    linked = false;
                }
                FrameKind::Synced => {}
                FrameKind::Event => {
                    let Ok(x) = body_str(f).parse::<i32>() else { continue };
                    let idx = pushes.iter().position(|(_, y)| *y == x);
                    match (idx, last_idx) {
                        (None, _) => add("as: supply event never pushed".into(), format!("remote {}: {:?}", ri, body_str(f))),
                        (Some(i), Some(l)) if i == l => add("as: supply item delivered twice".into(), format!("remote {}: item {} twice", ri, x)),
                        (Some(i), Some(l)) if i < l => add("as: supply items out of order".into(), format!("remote {}: item index {} after {}", ri, i, l)),
                        (Some(i), Some(l)) if i > l + 1 => add(
                            "as: supply item skipped inside a link session".into(),
                            format!("remote {}: received push #{} directly after push #{}; pushes {:?}", ri, i, l, pushes.iter().map(|p| p.1).collect::<Vec<_>>()),
                        ),
                        _ => {}
                    }
                    if let Some(i) = idx {
                        last_idx = Some(i);
                        session_items.push(i);
                    }
                }
            }
            let _ = fi;
        }
        if linked {
            sessions.push((linked_at, None, session_items, true));
        }
        if clean_quiescence && r.dropped_at.is_none() {
            // the remote's own requests, grouped into sessions: opened by the first link / sync
            // request sent while it has no open request session, closed by its next unlink request;
            // the k-th session of frames belongs to the k-th session of requests (a remote that sends
            // all its envelopes before it reads anything must not have every `linked` attributed to
            // its latest request)
            let mut req_sessions: Vec<(u64, Option<u64>)> = vec![];
            for (s, st) in &r.sent {
                match st {
                    Step::Link(l) | Step::Sync(l) if l == "s" => {
                        if req_sessions.last().map(|(_, c)| c.is_some()).unwrap_or(true) {
                            req_sessions.push((*s, None));
                        }
                    }
                    Step::Unlink(l) if l == "s" => {
                        if let Some(last) = req_sessions.last_mut() {
                            if last.1.is_none() {
                                last.1 = Some(*s);
                            }
                        }
                    }
                    _ => {}
                }
            }
            for (k, (la, ua, items, open)) in sessions.iter().enumerate() {
                // every item pushed after the remote read `linked` and before it sent `unlink`
                let (req_step, unlink_sent): (u64, Option<u64>) = match req_sessions.get(k) {
                    Some((o, c)) => (*o, *c),
                    None => {
                        let rs = r.sent.iter().filter(|(s, st)| *s < *la && matches!(st, Step::Link(l) | Step::Sync(l) if l == "s")).map(|(s, _)| *s).last().unwrap_or(0);
                        (rs, r.sent.iter().filter(|(s, st)| matches!(st, Step::Unlink(l) if l == "s") && *s > rs).map(|(s, _)| *s).next())
                    }
                };
                let _ = req_step;
                let end = match (unlink_sent, ua) {
                    (Some(u), _) => u,
                    (None, Some(u)) => *u,
                    (None, None) => u64::MAX,
                };
                let _ = open;
                for (i, (ps, px)) in pushes.iter().enumerate() {
                    if *ps > *la && *ps < end && !items.contains(&i) {
                        // must be within quiescent prefix of truth
                        if obs.truth.iter().take(tq).any(|(s, t)| *s == *ps && *t == Truth::Push(*px)) {
                            // canonical classification: items that were still queued for a slow
                            // remote when that remote's own unlink request was processed (a suffix
                            // of the session, session closed by `unlinked` after the remote asked)
                            let suffix = items.iter().all(|d| *d < i);
                            if unlink_sent.is_some() && ua.is_some() && suffix {
                                add(
                                    "as: supply items still queued for a slow remote were discarded when its unlink request was processed".into(),
                                    format!("remote {}: push {} at step {} (linked read at {}, unlink sent at {}) never delivered; got indices {:?}", ri, px, ps, la, end, items),
                                );
                            } else {
                                add(
                                    "as: supply item pushed while linked was never delivered".into(),
                                    format!("remote {}: push {} at step {} (linked read at {}, session end {}) missing; got indices {:?}", ri, px, ps, la, end, items),
                                );
                            }
                        }
                    }
                }
            }
        }
        let _ = q;
        // --- command lane k: handler invoked once per envelope, in per-remote send order
        let sent_k: Vec<String> = r.sent.iter().filter_map(|(_, st)| if let Step::Cmd(l, b) = st { if l == "k" { Some(b.trim().to_string()) } else { None } } else { None }).collect();
        if !sent_k.is_empty() {
            let handled: Vec<String> = obs
                .truth
                .iter()
                .filter_map(|(_, t)| if let Truth::Command { lane: "k", value } = t { Some(value.clone()) } else { None })
                .filter(|v| sent_k.contains(v))
                .collect();
            // handled must be a prefix of sent_k (values are unique per run)
            let is_prefix = handled.len() <= sent_k.len() && handled.iter().zip(sent_k.iter()).all(|(a, b)| a == b);
            if !is_prefix {
                let mut sorted_h = handled.clone();
                sorted_h.sort();
                let mut dedup = sorted_h.clone();
                dedup.dedup();
                if dedup.len() != sorted_h.len() {
                    add("as: command handler invoked more than once for one envelope".into(), format!("remote {}: sent {:?} handled {:?}", ri, sent_k, handled));
                } else {
                    add("as: command handler invocations not in the remote's send order".into(), format!("remote {}: sent {:?} handled {:?}", ri, sent_k, handled));
                }
            } else if clean_quiescence && r.dropped_at.is_none() && handled.len() != sent_k.len() {
                add("as: command envelope never reached its handler".into(), format!("remote {}: sent {:?} handled {:?}", ri, sent_k, handled));
            }
        }
    }
    // --- agent-sent commands
    for t in &obs.targets {
        if let Some(m) = &t.malformed {
            add("as: the stream of agent-sent commands to a target is not a sequence of well formed frames".into(), format!("target {}: {}", t.key, m));
        }
    }
    let mut sent_by_target: BTreeMap<(String, String), Vec<(i32, bool)>> = BTreeMap::new();
    for (_, t) in obs.truth.iter() {
        if let Truth::Sent { node, lane, value, ow } = t {
            sent_by_target.entry((node.clone(), lane.clone())).or_default().push((*value, *ow));
        }
    }
    let mut recv_by_target: BTreeMap<(String, String), Vec<i32>> = BTreeMap::new();
    for t in &obs.targets {
        for (_, node, lane, body) in &t.received {
            if let Ok(x) = body.trim().parse::<i32>() {
                recv_by_target.entry((node.clone(), lane.clone())).or_default().push(x);
            } else {
                add("as: agent-sent command body altered".into(), format!("target {}:{} body {:?}", node, lane, body));
            }
        }
    }
    for (key, recv) in &recv_by_target {
        let sent = sent_by_target.get(key).cloned().unwrap_or_default();
        // recv must be a subsequence of sent
        let mut i = 0usize;
        let mut missing: Vec<usize> = vec![];
        let mut ok = true;
        for x in recv {
            let mut found = false;
            while i < sent.len() {
                if sent[i].0 == *x {
                    found = true;
                    i += 1;
                    break;
                } else {
                    missing.push(i);
                    i += 1;
                }
            }
            if !found {
                ok = false;
                break;
            }
        }
        if !ok {
            add(
                "as: agent-sent commands duplicated, reordered or invented".into(),
                format!("target {:?}: sent {:?} received {:?}", key, sent, recv),
            );
            continue;
        }
        for mi in missing {
            if !sent[mi].1 {
                add(
                    "as: non-overwritable agent-sent command was dropped".into(),
                    format!("target {:?}: sent {:?} received {:?}", key, sent, recv),
                );
            }
        }
    }
    if clean_quiescence {
        for (key, sent) in &sent_by_target {
            let recv = recv_by_target.get(key).cloned().unwrap_or_default();
            // the last command to a target can never be superseded
            if let Some((last, _)) = sent.last() {
                if recv.last() != Some(last) {
                    add(
                        "as: last agent-sent command to a target never arrived".into(),
                        format!("target {:?}: sent {:?} received {:?}", key, sent, recv),
                    );
                }
            }
            for (x, ow) in sent {
                if !*ow && !recv.contains(x) {
                    add(
                        "as: non-overwritable agent-sent command was dropped".into(),
                        format!("target {:?}: sent {:?} received {:?}", key, sent, recv),
                    );
                }
            }
        }
    }
    out
}

// ------------------------------------------------------------------------------------------
// C02 / C03: map lane replicas converge; sync is a consistent snapshot
// ------------------------------------------------------------------------------------------

fn apply(rep: &mut BTreeMap<i32, i32>, ev: &MapEv) {
    match ev {
        MapEv::Update(k, v) => {
            rep.insert(*k, *v);
        }
        MapEv::Remove(k) => {
            rep.remove(k);
        }
        MapEv::Clear => rep.clear(),
    }
}

pub fn check_map(obs: &Observation, check_sync: bool) -> V {
    let mut out: V = vec![];
    let mut add = |sig: String, expl: String| {
        if !out.iter().any(|(s, _)| *s == sig) {
            out.push((sig, expl));
        }
    };
    let clean_quiescence = !obs.fault_before_quiescence && obs.truth_at_quiescence.is_some();
    let hist = map_history(obs, "m", None);
    let hist_q = map_history(obs, "m", obs.truth_at_quiescence);
    let final_q = hist_q.last().map(|h| h.1.clone()).unwrap_or_default();
    // per key value history (None = absent) in order
    let mut key_hist: BTreeMap<i32, Vec<Option<i32>>> = BTreeMap::new();
    let all_keys: BTreeSet<i32> = hist.iter().flat_map(|(_, m)| m.keys().cloned()).collect();
    for k in &all_keys {
        let mut hs: Vec<Option<i32>> = vec![];
        for (_, m) in &hist {
            let cur = m.get(k).cloned();
            if hs.last() != Some(&cur) || hs.is_empty() {
                hs.push(cur);
            }
        }
        key_hist.insert(*k, hs);
    }
    for (ri, r) in obs.remotes.iter().enumerate() {
        if r.decode_error.is_some() {
            continue;
        }
        let q = r.frames_at_quiescence.unwrap_or(r.frames.len());
        let mut linked = false;
        let mut rep: BTreeMap<i32, i32> = BTreeMap::new();
        let mut touched: BTreeSet<i32> = BTreeSet::new(); // keys for which something was received in this session
        let mut cleared = false;
        let mut synced_in_session = false;
        let mut linked_at = 0u64;
        let mut key_pos: BTreeMap<i32, usize> = BTreeMap::new();
        let mut state_at_q: Option<(bool, BTreeMap<i32, i32>, BTreeSet<i32>, bool, bool, u64)> = None;
        let mut seen_clear_after: Option<u64> = None;
        let mut n_synced_m = 0usize;
        for (fi, f) in r.frames.iter().enumerate() {
            if fi == q {
                state_at_q = Some((linked, rep.clone(), touched.clone(), cleared, synced_in_session, linked_at));
            }
            if f.lane != "m" {
                continue;
            }
            match f.kind {
                FrameKind::Linked => {
                    if !linked {
                        linked = true;
                        rep.clear();
                        touched.clear();
                        cleared = false;
                        synced_in_session = false;
                        linked_at = f.step;
                        key_pos.clear();
                        seen_clear_after = None;
                    }
                }
                FrameKind::Unlinked => linked = false,
                FrameKind::Event => {
                    let Some(ev) = parse_map_event(&body_str(f)) else { continue };
                    match &ev {
                        MapEv::Update(k, v) => {
                            // per key: values are an in-order subsequence of the key's history
                            let hs = key_hist.get(k).cloned().unwrap_or_default();
                            let p = key_pos.get(k).cloned().unwrap_or(0);
                            if let Some(j) = (p..hs.len()).find(|&j| hs[j] == Some(*v)) {
                                key_pos.insert(*k, j);
                            } else if hs[..p.min(hs.len())].contains(&Some(*v)) {
                                add(
                                    "as: map update for a key older than one already received".into(),
                                    format!("remote {}: key {} value {} after a later state; key history {:?}", ri, k, v, hs),
                                );
                            } else {
                                add("as: map update the lane never made".into(), format!("remote {}: key {} value {}", ri, k, v));
                            }
                            touched.insert(*k);
                        }
                        MapEv::Remove(k) => {
                            let hs = key_hist.get(k).cloned().unwrap_or_default();
                            let p = key_pos.get(k).cloned().unwrap_or(0);
                            if let Some(j) = (p..hs.len()).find(|&j| hs[j].is_none()) {
                                key_pos.insert(*k, j);
                            }
                            touched.insert(*k);
                        }
                        MapEv::Clear => {
                            cleared = true;
                            seen_clear_after = Some(f.step);
                            for (k, hs) in &key_hist {
                                let p = key_pos.get(k).cloned().unwrap_or(0);
                                if let Some(j) = (p..hs.len()).find(|&j| hs[j].is_none()) {
                                    key_pos.insert(*k, j);
                                }
                            }
                        }
                    }
                    apply(&mut rep, &ev);
                }
                FrameKind::Synced => {
                    synced_in_session = true;
                    if check_sync {
                        // consistent snapshot: every key holds a value it held at some instant in
                        // [sync request sent, synced received]
                        // the n-th synced answers (at the earliest) the n-th sync request
                        n_synced_m += 1;
                        let req = r.sent.iter().filter(|(s, st)| *s < f.step && matches!(st, Step::Sync(l) if l == "m")).map(|(s, _)| *s).nth(n_synced_m - 1);
                        if let Some(req_step) = req {
                            // states in the window: last state at or before req_step, and all with step in (req_step, f.step]
                            let mut window: Vec<&BTreeMap<i32, i32>> = vec![];
                            let mut before: Option<&BTreeMap<i32, i32>> = None;
                            for (s, m) in &hist {
                                if *s <= req_step {
                                    before = Some(m);
                                } else if *s <= f.step {
                                    window.push(m);
                                }
                            }
                            let empty = BTreeMap::new();
                            window.insert(0, before.unwrap_or(&empty));
                            let keys: BTreeSet<i32> = window.iter().flat_map(|m| m.keys().cloned()).chain(rep.keys().cloned()).collect();
                            for k in keys {
                                let have = rep.get(&k);
                                if !window.iter().any(|m| m.get(&k) == have) {
                                    let first_sync = r.sent.iter().filter(|(_, st)| matches!(st, Step::Sync(x) if x == "m")).map(|(s, _)| *s).next();
                                    let linked_first = first_sync.map(|fs| r.sent.iter().any(|(s, st)| *s < fs && matches!(st, Step::Link(x) if x == "m"))).unwrap_or(true);
                                    add(
                                        format!(
                                            "as: map sync snapshot inconsistent ({}{})",
                                            if have.is_none() { "key missing" } else { "value never held in the sync window" },
                                            if linked_first { "" } else { ", remote synced without linking first" }
                                        ),
                                        format!(
                                            "remote {}: at synced (step {}, request at {}) key {} is {:?} but the lane held {:?} in the window",
                                            ri,
                                            f.step,
                                            req_step,
                                            k,
                                            have,
                                            window.iter().map(|m| m.get(&k).cloned()).collect::<Vec<_>>()
                                        ),
                                    );
                                }
                            }
                        }
                    }
                }
            }
        }
        if state_at_q.is_none() {
            state_at_q = Some((linked, rep.clone(), touched.clone(), cleared, synced_in_session, linked_at));
        }
        let _ = seen_clear_after;
        if clean_quiescence && r.dropped_at.is_none() {
            let (l, rep_q, touched_q, cleared_q, synced_q, la) = state_at_q.unwrap();
            let unlink_sent = r.sent.iter().any(|(s, st)| matches!(st, Step::Unlink(x) if x == "m") && *s > la);
            if l && !unlink_sent {
                if synced_q {
                    if rep_q != final_q {
                        // canonical classification: did this remote link explicitly before syncing?
                        let first_sync = r.sent.iter().filter(|(_, st)| matches!(st, Step::Sync(x) if x == "m")).map(|(s, _)| *s).next();
                        let linked_first = first_sync.map(|fs| r.sent.iter().any(|(s, st)| *s < fs && matches!(st, Step::Link(x) if x == "m"))).unwrap_or(true);
                        add(
                            if linked_first {
                                "as: synced map replica differs from the lane at quiescence".to_string()
                            } else {
                                "as: map replica of a remote that synced without linking first differs from the lane at quiescence".to_string()
                            },
                            format!("remote {}: replica {:?} lane {:?}", ri, rep_q, final_q),
                        );
                    }
                } else {
                    // link-only: keys changed after it read `linked` must agree
                    let base = hist_q.iter().filter(|(s, _)| *s <= la).map(|(_, m)| m.clone()).last().unwrap_or_default();
                    let keys: BTreeSet<i32> = all_keys.iter().cloned().collect();
                    for k in keys {
                        let changed_after = hist_q.iter().filter(|(s, _)| *s > la).any(|(_, m)| m.get(&k) != base.get(&k))
                            || hist_q.iter().filter(|(s, _)| *s > la).count() > 0 && final_q.get(&k) != base.get(&k);
                        if changed_after && rep_q.get(&k) != final_q.get(&k) && (touched_q.contains(&k) || cleared_q || final_q.get(&k) != base.get(&k)) {
                            add(
                                "as: linked map replica missed or mis-ordered a change made after it linked".into(),
                                format!("remote {}: key {} replica {:?} lane {:?} (linked read at {})", ri, k, rep_q.get(&k), final_q.get(&k), la),
                            );
                        }
                    }
                }
            }
        }
    }
    out
}

// ------------------------------------------------------------------------------------------
// C03: value lane sync - the value delivered with synced is one the lane held in the window
// ------------------------------------------------------------------------------------------

pub fn check_value_sync(obs: &Observation) -> V {
    let mut out: V = vec![];
    let mut add = |sig: String, expl: String| {
        if !out.iter().any(|(s, _)| *s == sig) {
            out.push((sig, expl));
        }
    };
    for (ri, r) in obs.remotes.iter().enumerate() {
        if r.decode_error.is_some() {
            continue;
        }
        for lane in VALUE_LANES {
            let hist = value_history(obs, lane, None);
            let mut last_event: Option<(u64, i32)> = None;
            let mut linked = false;
            let mut n_synced = 0usize;
            for f in r.frames.iter().filter(|f| f.lane == lane) {
                match f.kind {
                    FrameKind::Linked => {
                        if !linked {
                            linked = true;
                            last_event = None;
                        }
                    }
                    FrameKind::Unlinked => linked = false,
                    FrameKind::Event => {
                        if let Ok(x) = body_str(f).parse::<i32>() {
                            last_event = Some((f.step, x));
                        }
                    }
                    FrameKind::Synced => {
                        n_synced += 1;
                        let req = r.sent.iter().filter(|(s, st)| *s < f.step && matches!(st, Step::Sync(l) if l == lane)).map(|(s, _)| *s).nth(n_synced - 1);
                        let Some(req_step) = req else { continue };
                        match last_event {
                            None => add(
                                "as: value lane synced without any value delivered in the session".into(),
                                format!("remote {} lane {}: synced at step {} but no event since linked", ri, lane, f.step),
                            ),
                            Some((_, x)) => {
                                let mut window: Vec<i32> = vec![];
                                let mut before: Option<i32> = None;
                                for (s, y) in &hist {
                                    if *s <= req_step {
                                        before = Some(*y);
                                    } else if *s <= f.step {
                                        window.push(*y);
                                    }
                                }
                                if let Some(b) = before {
                                    window.insert(0, b);
                                }
                                if !window.contains(&x) {
                                    add(
                                        "as: value at synced was not held by the lane between the sync request and synced".into(),
                                        format!("remote {} lane {}: value {} at synced (request step {}, synced step {}), lane held {:?} in that window", ri, lane, x, req_step, f.step, window),
                                    );
                                }
                            }
                        }
                    }
                }
            }
        }
    }
    out
}

// ------------------------------------------------------------------------------------------
// C02: take / drop remove exactly the entries designated by the documented key order
// ------------------------------------------------------------------------------------------

fn split_top(s: &str) -> Vec<String> {
    let mut out = vec![];
    let mut depth = 0i32;
    let mut cur = String::new();
    for c in s.chars() {
        match c {
            '{' | '(' => {
                depth += 1;
                cur.push(c);
            }
            '}' | ')' => {
                depth -= 1;
                cur.push(c);
            }
            ',' if depth == 0 => {
                out.push(cur.trim().to_string());
                cur = String::new();
            }
            _ => cur.push(c),
        }
    }
    if !cur.trim().is_empty() {
        out.push(cur.trim().to_string());
    }
    out
}

fn num_after(s: &str, prefix: &str) -> Option<i32> {
    let rest = s.split(prefix).nth(1)?;
    let digits: String = rest.chars().take_while(|c| c.is_ascii_digit() || *c == '-').collect();
    digits.parse().ok()
}

/// Reference interpreter for the map-affecting steps of a single writer's script.
pub fn reference_map(steps: &[Step]) -> Option<BTreeMap<i32, i32>> {
    let mut m: BTreeMap<i32, i32> = BTreeMap::new();
    for st in steps {
        match st {
            Step::Cmd(l, body) if l == "m" => {
                let b = body.trim();
                if b == "@clear" {
                    m.clear();
                } else if b.starts_with("@update(") {
                    match parse_map_event(b) {
                        Some(MapEv::Update(k, v)) => {
                            m.insert(k, v);
                        }
                        _ => return None,
                    }
                } else if b.starts_with("@remove(") {
                    match parse_map_event(b) {
                        Some(MapEv::Remove(k)) => {
                            m.remove(&k);
                        }
                        _ => return None,
                    }
                } else if b.starts_with("@take(") {
                    let n = num_after(b, "@take(")? as usize;
                    let keep: Vec<i32> = m.keys().cloned().take(n).collect();
                    m.retain(|k, _| keep.contains(k));
                } else if b.starts_with("@drop(") {
                    let n = num_after(b, "@drop(")? as usize;
                    let dropk: Vec<i32> = m.keys().cloned().take(n).collect();
                    m.retain(|k, _| !dropk.contains(k));
                } else {
                    return None;
                }
            }
            Step::Cmd(l, body) if l == "c" => {
                let inner = body.trim().strip_prefix("@act{ops:{")?.strip_suffix("}}")?;
                for op in split_top(inner) {
                    if op.starts_with("@upd{") {
                        let k = num_after(&op, "k:")?;
                        let v = num_after(&op, "v:")?;
                        m.insert(k, v);
                    } else if op.starts_with("@rem(") {
                        let k = num_after(&op, "@rem(")?;
                        m.remove(&k);
                    } else if op == "@clr" {
                        m.clear();
                    }
                }
            }
            _ => {}
        }
    }
    Some(m)
}

pub fn check_take_drop(obs: &Observation) -> V {
    let mut out: V = vec![];
    if obs.fault_before_quiescence || obs.truth_at_quiescence.is_none() {
        return out;
    }
    // only scripts where a single remote modifies the map (processing order = its send order)
    let writers: Vec<usize> = obs
        .remotes
        .iter()
        .enumerate()
        .filter(|(_, r)| r.queue.iter().any(|s| matches!(s, Step::Cmd(l, b) if l == "m" || (l == "c" && (b.contains("@upd") || b.contains("@rem(") || b.contains("@clr"))))))
        .map(|(i, _)| i)
        .collect();
    if writers.len() != 1 {
        return out;
    }
    let r = &obs.remotes[writers[0]];
    if r.pos < r.queue.len() || r.dropped_at.is_some() {
        return out;
    }
    // commands to *different* lanes may legitimately be handled in a different order than they
    // were sent; the reference is only defined when every map-affecting command uses one lane
    let via_m = r.queue.iter().any(|s| matches!(s, Step::Cmd(l, _) if l == "m"));
    let via_c = r.queue.iter().any(|s| matches!(s, Step::Cmd(l, b) if l == "c" && (b.contains("@upd") || b.contains("@rem(") || b.contains("@clr"))));
    if via_m && via_c {
        return out;
    }
    let Some(expected) = reference_map(&r.queue) else { return out };
    let hist_q = map_history(obs, "m", obs.truth_at_quiescence);
    let fin = hist_q.last().map(|h| h.1.clone()).unwrap_or_default();
    if fin != expected {
        let has_td = r.queue.iter().any(|s| matches!(s, Step::Cmd(l, b) if l == "m" && (b.starts_with("@take") || b.starts_with("@drop"))));
        out.push((
            if has_td {
                "as: map lane content differs from the reference after take/drop (documented key order)".to_string()
            } else {
                "as: map lane content differs from the reference interpretation of the commands".to_string()
            },
            format!("script {:?}: lane holds {:?}, reference {:?}", r.queue, fin, expected),
        ));
    }
    out
}

// ------------------------------------------------------------------------------------------
// C05: persisted state is never older than what was published; restart restores it
// ------------------------------------------------------------------------------------------

pub fn check_c05(obs: &Observation) -> V {
    use crate::store::StoreCall;
    let mut out: V = vec![];
    let mut add = |sig: String, expl: String| {
        if !out.iter().any(|(s, _)| *s == sig) {
            out.push((sig, expl));
        }
    };
    let Some(log) = &obs.store_log else { return out };
    let calls = log.calls.lock().clone();
    let state = log.state.lock();
    let id_of = |name: &str| state.ids.get(name).cloned();
    let start1 = obs.truth.iter().find_map(|(_, t)| if let Truth::Start { v, w, t, vs, m, ms } = t { Some((*v, *w, *t, *vs, m.clone(), ms.clone())) } else { None });
    // (1) publish only after persist
    for (ri, r) in obs.remotes.iter().enumerate() {
        for f in r.frames.iter().filter(|f| f.kind == FrameKind::Event) {
            let b = body_str(f);
            match f.lane.as_str() {
                "v" | "w" => {
                    let init = start1.as_ref().map(|s| if f.lane == "v" { s.0 } else { s.1 }).unwrap_or(0);
                    if b.parse::<i32>().ok() == Some(init) {
                        continue;
                    }
                    let Some(id) = id_of(&f.lane) else {
                        add("as: value published but the lane has no store id".into(), format!("lane {}", f.lane));
                        continue;
                    };
                    let ok = calls.iter().any(|(s, inst, c)| *inst == 1 && *s <= f.step && matches!(c, StoreCall::Put(i, bytes) if *i == id && bytes.as_slice() == b.as_bytes()));
                    if !ok {
                        add(
                            "as: value lane state published to a subscriber before it was handed to the store".into(),
                            format!("remote {} read event {} {:?} at step {} but no put_value of it precedes that", ri, f.lane, b, f.step),
                        );
                    }
                }
                "m" => {
                    let Some(id) = id_of("m") else {
                        add("as: map event published but the lane has no store id".into(), String::new());
                        continue;
                    };
                    let ok = match parse_map_event(&b) {
                        Some(MapEv::Update(k, v)) => calls.iter().any(|(s, inst, c)| {
                            *inst == 1 && *s <= f.step && matches!(c, StoreCall::Update(i, kb, vb) if *i == id && kb.as_slice() == k.to_string().as_bytes() && vb.as_slice() == v.to_string().as_bytes())
                        }),
                        Some(MapEv::Remove(k)) => calls.iter().any(|(s, inst, c)| {
                            *inst == 1 && *s <= f.step && (matches!(c, StoreCall::Remove(i, kb) if *i == id && kb.as_slice() == k.to_string().as_bytes()) || matches!(c, StoreCall::Clear(i) if *i == id))
                        }),
                        Some(MapEv::Clear) => calls.iter().any(|(s, inst, c)| *inst == 1 && *s <= f.step && matches!(c, StoreCall::Clear(i) if *i == id)),
                        None => true,
                    };
                    if !ok {
                        add(
                            "as: map lane state published to a subscriber before it was handed to the store".into(),
                            format!("remote {} read event m {:?} at step {} but no matching store call precedes that", ri, b, f.step),
                        );
                    }
                }
                _ => {}
            }
        }
    }
    // (2)-(4) restart
    if obs.cfg.restart {
        let start2 = obs.truth2.iter().find_map(|(_, t)| if let Truth::Start { v, w, t, vs, m, ms } = t { Some((*v, *w, *t, *vs, m.clone(), ms.clone())) } else { None });
        match start2 {
            None => {
                if !obs.truth2.is_empty() || obs.result2.is_some() || obs.crashed_at.is_some() || obs.killed || obs.result.is_some() {
                    add(
                        "as: the restarted agent never reached on_start".into(),
                        format!("second instance result {:?}", obs.result2),
                    );
                }
            }
            Some((v2, w2, t2, vs2, m2, ms2)) => {
                let stored_val = |name: &str| -> i32 { id_of(name).and_then(|id| state.values.get(&id)).and_then(|b| std::str::from_utf8(b).ok().and_then(|s| s.trim().parse::<i32>().ok())).unwrap_or(0) };
                let stored_map = |name: &str| -> Vec<(i32, i32)> {
                    let mut v: Vec<(i32, i32)> = id_of(name)
                        .and_then(|id| state.maps.get(&id))
                        .map(|m| m.iter().filter_map(|(k, v)| Some((std::str::from_utf8(k).ok()?.trim().parse().ok()?, std::str::from_utf8(v).ok()?.trim().parse().ok()?))).collect())
                        .unwrap_or_default();
                    v.sort();
                    v
                };
                for (name, got) in [("v", v2), ("w", w2), ("vs", vs2)] {
                    let want = stored_val(name);
                    if got != want {
                        add(
                            format!("as: restarted {} does not hold the last value handed to the store", if name == "vs" { "value store" } else { "value lane" }),
                            format!("{} restarted with {} but the store holds {}", name, got, want),
                        );
                    }
                }
                for (name, got) in [("m", &m2), ("ms", &ms2)] {
                    let want = stored_map(name);
                    if *got != want {
                        add(
                            format!("as: restarted {} does not hold the entries implied by the operations handed to the store", if name == "ms" { "map store" } else { "map lane" }),
                            format!("{} restarted with {:?} but the store holds {:?}", name, got, want),
                        );
                    }
                }
                if t2 != 0 {
                    add("as: transient lane did not come back at its default".into(), format!("t restarted with {}", t2));
                }
                // never older than anything a subscriber already saw
                for lane in ["v", "w"] {
                    let hist = value_history(obs, lane, None);
                    let restored = if lane == "v" { v2 } else { w2 };
                    let pos_restored = hist.iter().rposition(|(_, y)| *y == restored);
                    for (ri, r) in obs.remotes.iter().enumerate() {
                        for f in r.frames.iter().filter(|f| f.lane == lane && f.kind == FrameKind::Event) {
                            if let Ok(x) = body_str(f).parse::<i32>() {
                                let pos_seen = hist.iter().position(|(_, y)| *y == x);
                                if let (Some(ps), Some(pr)) = (pos_seen, pos_restored) {
                                    if pr < ps {
                                        add(
                                            "as: restarted value lane is older than a value a subscriber already received".into(),
                                            format!("remote {} saw {} on {} but the lane restarted with {}", ri, x, lane, restored),
                                        );
                                    }
                                } else if pos_restored.is_none() {
                                    add("as: restarted value lane holds a value it never held".into(), format!("{} restarted with {}", lane, restored));
                                }
                            }
                        }
                    }
                }
            }
        }
    }
    // the optional lane `o` of the pair agent: its value can have the empty encoding
    if obs.cfg.extra == "pair-agent" {
        if let Some(id) = id_of("o") {
            let puts: Vec<(u64, Vec<u8>)> = calls.iter().filter(|(_, inst, _)| *inst == 1).filter_map(|(s, _, c)| if let StoreCall::Put(i, b) = c { if *i == id { Some((*s, b.clone())) } else { None } } else { None }).collect();
            for (ri, r) in obs.remotes.iter().enumerate() {
                for f in r.frames.iter().filter(|f| f.lane == "o" && f.kind == FrameKind::Event) {
                    let b = body_str(f);
                    if b == "7" {
                        continue; // the initial value, never handed to the store
                    }
                    if !puts.iter().any(|(s, p)| *s <= f.step && p.as_slice() == b.as_bytes()) {
                        add(
                            "as: optional value lane state published to a subscriber before it was handed to the store".into(),
                            format!("remote {} read {:?} on o at step {}; store puts {:?}", ri, b, f.step, puts),
                        );
                    }
                }
            }
            let restored = obs.truth2.iter().find_map(|(_, t)| if let Truth::Custom(c) = t { c.strip_prefix("start:o=").map(|x| x.to_string()) } else { None });
            if let Some(restored) = restored {
                let want = puts.last().map(|(_, b)| String::from_utf8_lossy(b).to_string()).unwrap_or_else(|| "7".to_string());
                if restored != want {
                    add(
                        "as: restarted optional value lane does not hold the last value handed to the store".into(),
                        format!("lane o restarted with {:?}; the last value handed to the store was {:?} (\"\" = None)", restored, want),
                    );
                }
            }
        }
    }
    // the map lane `om` of the pair agent: values with the empty encoding (None)
    if obs.cfg.extra == "pair-agent" && obs.cfg.restart {
        if let Some(id) = id_of("O") {
            let restored = obs.truth2.iter().find_map(|(_, t)| if let Truth::Custom(c) = t { c.strip_prefix("start:om=").map(|x| x.to_string()) } else { None });
            if let Some(restored) = restored {
                let mut want: Vec<(i32, String)> = state
                    .maps
                    .get(&id)
                    .map(|m| m.iter().filter_map(|(k, v)| Some((std::str::from_utf8(k).ok()?.trim().parse().ok()?, String::from_utf8_lossy(v).trim().to_string()))).collect())
                    .unwrap_or_default();
                want.sort();
                let want: Vec<String> = want.iter().map(|(k, v)| format!("{}:{}", k, v)).collect();
                let want = want.join(",");
                if restored != want {
                    add(
                        "as: restarted map lane with optional values does not hold the entries implied by the operations handed to the store".into(),
                        format!("lane om restarted with {:?}; the store holds {:?} (\"k:\" = None under k)", restored, want),
                    );
                }
            }
        }
    }
    out
}

// ------------------------------------------------------------------------------------------
// C17 (system level): the runtime stops for inactivity only when every task is idle at once
// ------------------------------------------------------------------------------------------

/// Oracle for runs without external stop or faults in which the clock is moved by `Step::Wait`
/// (only while the runtime has nothing to do) and by full ticks at quiescence.
pub fn check_c17_system(obs: &Observation) -> V {
    let mut out: V = vec![];
    let mut add = |sig: String, expl: String| {
        if !out.iter().any(|(s, _)| *s == sig) {
            out.push((sig, expl));
        }
    };
    if obs.stop_fired_at.is_some() || obs.killed || obs.crashed_at.is_some() || matches!(obs.result, Some(Err(_))) {
        vcommon::sched::oracle_note(if obs.stop_fired_at.is_some() { "timeout laws skipped: external stop" } else if matches!(obs.result, Some(Err(_))) { "timeout laws skipped: the agent failed" } else { "timeout laws skipped: injected crash" });
        return out;
    }
    vcommon::sched::oracle_note(if obs.completed_step.is_some() { "timeout laws judged: the agent stopped" } else { "timeout laws judged: the agent kept running" });
    let timeout_ms = crate::world::INACTIVE_TIMEOUT.as_millis() as u64;
    let t = |step: u64| -> u64 { obs.times.get(step as usize).or(obs.times.last()).copied().unwrap_or(0) };
    let stop_step: Option<u64> = obs.truth.iter().find(|(_, e)| matches!(e, Truth::Stop)).map(|(s, _)| *s);
    let clean = !obs.dirty_advance;
    // classified cause: every remote had already been pruned (no links for prune_remote_delay), in
    // which case the write task ends on its own timeout without consulting the coordinator
    let pruned = if !obs.remotes.is_empty() && obs.remotes.iter().all(|r| r.completion_reason.as_deref() == Some("RemoteTimedOut")) {
        " (every remote had been pruned: the write task ends on its own timeout without a vote)"
    } else {
        ""
    };
    const LANES: [&str; 8] = ["v", "w", "t", "m", "s", "c", "k", "zz"];
    let _ = LANES;
    // every envelope (read task activity), in step order
    let mut envs: Vec<(u64, &Step)> = obs.remotes.iter().flat_map(|r| r.sent.iter()).filter(|(_, st)| !matches!(st, Step::Wait(_))).map(|(s, st)| (*s, st)).collect();
    envs.sort_by_key(|(s, _)| *s);
    // what certainly reaches the write task: lane events of v, w, t, m, the echo of a command to
    // c or k, and link / sync / unlink envelopes for lanes that exist
    let known = |l: &str| matches!(l, "v" | "w" | "t" | "m" | "s" | "c" | "k");
    let mut wacts: Vec<u64> = vec![0];
    for (h, e) in &obs.truth {
        if matches!(e, Truth::Value { lane: "v" | "w" | "t", .. } | Truth::MapUpdate { lane: "m", .. } | Truth::MapRemove { lane: "m", .. } | Truth::MapClear { lane: "m", .. } | Truth::Command { .. }) {
            wacts.push(*h);
        }
    }
    for (s, st) in &envs {
        if matches!(st, Step::Link(l) | Step::Sync(l) | Step::Unlink(l) if known(l)) {
            wacts.push(*s);
        }
    }
    wacts.sort();
    if let Some(p) = stop_step {
        // (S1) no stop less than the timeout after an envelope was delivered. Claimed only if the
        // clock moved only while the runtime was idle: then the envelope had been read when it
        // was sent. (After a clock advance with work pending an envelope may still be unread - or a
        // lane event still in the agent task's hands - when all votes are cast; the harness cannot
        // see which, so nothing is claimed for such executions.)
        let mut prev_env_t = 0u64;
        for (s, st) in envs.iter().filter(|(s, _)| *s < p) {
            let dt = t(p).saturating_sub(t(*s));
            let gap = t(*s).saturating_sub(prev_env_t);
            if dt > 0 && dt < timeout_ms && clean {
                let _ = gap;
                add(
                    format!("as: agent stopped for inactivity although an envelope was delivered less than the timeout before{}", pruned),
                    format!("{:?} sent at step {} (t={} ms, previous envelope at t={} ms); on_stop ran at step {} (t={} ms); timeout {} ms; clock moved only while idle: {}", st, s, t(*s), prev_env_t, p, t(p), timeout_ms, clean),
                );
            }
            prev_env_t = t(*s);
        }
        // (S1b) nor less than the timeout after one of the agent's lanes changed (same restriction:
        // the write task takes ready lane events before it looks at its timer)
        for (h, e) in obs.truth.iter().filter(|(h, _)| *h < p) {
            let lane_event = matches!(e, Truth::Value { lane: "v" | "w" | "t", .. } | Truth::MapUpdate { lane: "m", .. } | Truth::MapRemove { lane: "m", .. } | Truth::MapClear { lane: "m", .. });
            if !lane_event {
                continue;
            }
            let dt = t(p).saturating_sub(t(*h));
            let prev = wacts.iter().filter(|a| **a < *h).map(|a| t(*a)).max().unwrap_or(0);
            let gap = t(*h).saturating_sub(prev);
            if dt > 0 && dt < timeout_ms && clean {
                let _ = gap;
                add(
                    "as: agent stopped for inactivity although one of its lanes changed less than the timeout before".into(),
                    format!("{:?} at step {} (t={} ms, previous write-task activity at t={} ms); on_stop ran at step {} (t={} ms); timeout {} ms; clock moved only while idle: {}", e, h, t(*h), prev, p, t(p), timeout_ms, clean),
                );
            }
        }
    }
    // (S3) a command delivered at an earlier instant than the stop was handled
    if clean {
        let t_stop = stop_step.map(t);
        let sent_c = obs.remotes.iter().flat_map(|r| r.sent.iter()).filter(|(s, st)| matches!(st, Step::Cmd(l, _) if l == "c") && t_stop.map(|ts| t(*s) < ts).unwrap_or(true)).count();
        let handled_c = obs.truth.iter().filter(|(_, e)| matches!(e, Truth::Command { lane: "c", .. })).count();
        if handled_c < sent_c && obs.remotes.iter().all(|r| r.write_failed.is_none()) {
            add(
                "as: a command delivered before the inactivity stop began was never handled".into(),
                format!("{} command(s) to lane c delivered at an earlier instant than the stop, {} handled", sent_c, handled_c),
            );
        }
    }
    // (S4) a stop that has begun completes
    if stop_step.is_some() && obs.alive_at_end {
        add("as: the agent ran on_stop but the runtime never completed".into(), format!("on_stop at step {:?}", stop_step));
    }
    // (a liveness expectation that goes beyond the letter of C17: only reported on request)
    if std::env::var("VERIF_LIVENESS").is_ok() && obs.ticks_done >= 2 && obs.alive_at_end && stop_step.is_none() {
        add(
            "as: agent still running after every task was idle for two full inactivity timeouts".into(),
            format!("ticks {} steps {}", obs.ticks_done, obs.steps),
        );
    }
    out
}

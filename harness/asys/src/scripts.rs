//! Script generation helpers: interleavings of per-remote scripts.

use crate::world::Step;

pub fn l(s: &str) -> String {
    s.to_string()
}
pub fn link(x: &str) -> Step {
    Step::Link(l(x))
}
pub fn sync(x: &str) -> Step {
    Step::Sync(l(x))
}
pub fn unlink(x: &str) -> Step {
    Step::Unlink(l(x))
}
pub fn cmd(lane: &str, body: &str) -> Step {
    Step::Cmd(l(lane), l(body))
}
pub fn act(ops: &[&str]) -> Step {
    Step::Cmd(l("c"), format!("@act{{ops:{{{}}}}}", ops.join(",")))
}

/// All interleavings (merges preserving each script's order) of the given per-remote scripts.
pub fn interleavings(scripts: &[Vec<Step>]) -> Vec<Vec<(usize, Step)>> {
    fn rec(scripts: &[Vec<Step>], pos: &mut Vec<usize>, cur: &mut Vec<(usize, Step)>, out: &mut Vec<Vec<(usize, Step)>>) {
        let mut done = true;
        for i in 0..scripts.len() {
            if pos[i] < scripts[i].len() {
                done = false;
                cur.push((i, scripts[i][pos[i]].clone()));
                pos[i] += 1;
                rec(scripts, pos, cur, out);
                pos[i] -= 1;
                cur.pop();
            }
        }
        if done {
            out.push(cur.clone());
        }
    }
    let mut out = vec![];
    rec(scripts, &mut vec![0; scripts.len()], &mut vec![], &mut out);
    out
}

/// Sequential composition: remote 0's script, then remote 1's, ...
pub fn sequential(scripts: &[Vec<Step>]) -> Vec<(usize, Step)> {
    let mut out = vec![];
    for (i, s) in scripts.iter().enumerate() {
        for st in s {
            out.push((i, st.clone()));
        }
    }
    out
}

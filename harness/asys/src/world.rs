//! The agent-system world: one real `AgentRouteTask::run_agent[_with_store]()` future (the agent
//! implementation *and* the whole agent runtime) polled by the harness, surrounded by harness
//! actors: remotes speaking the socket-side protocol over byte channels, command targets answering
//! the agent's commander link requests, a stop trigger, the paused clock and an optional
//! recording store.

use crate::agent::{TestAgent, TestLifecycle, Truth, TruthLog};
use crate::store::{RecStore, StoreLog};
use bytes::BytesMut;
use std::collections::HashMap;
use std::future::Future;
use std::num::NonZeroUsize;
use std::pin::Pin;
use std::sync::atomic::Ordering;
use std::sync::Arc;
use std::task::{Context, Poll};
use std::time::Duration;
use swimos::agent::agent_model::AgentModel;
use swimos_api::address::RelativeAddress;
use swimos_api::agent::{AgentConfig, LaneConfig};
use swimos_messages::protocol::{
    Notification, Operation, RawRequestMessageDecoder, RawRequestMessageEncoder, RawResponseMessageDecoder, RequestMessage,
};
use swimos_runtime::agent::{
    reporting::{UplinkReportReader, UplinkReporter},
    AgentAttachmentRequest, AgentExecError, AgentRouteChannels, AgentRouteDescriptor, AgentRouteTask, AgentRuntimeConfig,
    CombinedAgentConfig, CommanderKey, DisconnectionReason, LinkRequest, NodeReporting, UplinkReporterRegistration,
};
use swimos_utilities::byte_channel::{byte_channel, BudgetedFutureExt, ByteReader, ByteWriter};
use swimos_utilities::trigger::{self, promise};
use tokio::io::{AsyncRead, AsyncWrite, ReadBuf};
use tokio::sync::mpsc;
use tokio_util::codec::{Decoder, Encoder};
use uuid::Uuid;
use vcommon::sched::{Outcome, Subject, WakeFlag, World};

pub const NODE: &str = "/node";
pub const AGENT_ID: Uuid = Uuid::from_u128(0xA6E27);

#[derive(Clone, Debug, PartialEq, Eq, serde::Serialize, serde::Deserialize)]
pub enum Step {
    Link(String),
    Sync(String),
    Unlink(String),
    /// A command envelope with a Recon body.
    Cmd(String, String),
    /// Nothing is sent: the (paused) clock advances by n tenths of the inactivity timeout, so that
    /// the runtime's tasks can reach their timeouts at different moments.
    Wait(u32),
    /// Nothing is sent on the remote's channel: an HTTP GET for the named lane is handed to the
    /// runtime's HTTP task (activity of that task only when the lane does not exist).
    Http(String),
    /// The remote goes away (both channel ends dropped), as a scripted step.
    Detach,
    /// First step of a remote that is not attached when the agent starts: it attaches now, under
    /// the routing id of remote k (an id that was seen before comes back on a new channel).
    Attach(usize),
    /// The remote writes bytes that are no envelope (a peer that has lost its framing).
    Garbage,
}

impl Step {
    pub fn lane(&self) -> &str {
        match self {
            Step::Link(l) | Step::Sync(l) | Step::Unlink(l) | Step::Cmd(l, _) => l,
            Step::Wait(_) => "",
            Step::Http(l) => l,
            Step::Detach | Step::Attach(_) | Step::Garbage => "",
        }
    }
}

#[derive(Clone, Copy, Debug, PartialEq, Eq, serde::Serialize, serde::Deserialize)]
pub enum Mode {
    /// Poll > Recv > Send: the agent runs whenever it can, remotes drain eagerly, one envelope at a time.
    Eager,
    /// Send > Poll > Recv: every envelope is in the channel before the agent first runs.
    Burst,
    /// Poll > Send > Recv: remotes read only when nothing else can happen (slow readers).
    SlowRead,
}

#[derive(Clone, Copy, Debug, PartialEq, Eq, serde::Serialize, serde::Deserialize)]
pub enum StoreMode {
    None,
    /// Recording store; optional fault: (call index, kind) kind 0 = fail (refuse) call N,
    /// 1 = apply call N and then kill (panic).
    Recording,
    /// The same recorder in front of the real in-memory store of swimos_server_app; `abandoned`:
    /// while the first instance runs, a second request for the node store is made and dropped
    /// unused (what the server does for every routing request to a running agent).
    RecordingOverMem { abandoned: bool },
}

#[derive(Clone, Debug, serde::Serialize, serde::Deserialize)]
pub struct Cfg {
    /// Global script: (remote index, step) in canonical send order.
    pub script: Vec<(usize, Step)>,
    pub remotes: usize,
    /// Capacity of each agent->remote byte channel.
    pub cap: usize,
    /// Coop budget given to the subject on every poll.
    pub budget: usize,
    /// Max bytes a remote takes per Recv event (0 = unlimited).
    pub credit: usize,
    pub mode: Mode,
    /// Stop trigger fired (canonically) once everything is quiescent.
    pub final_stop: bool,
    /// Faults offered as deviations at every step.
    pub fault_stop: bool,
    pub fault_drop: bool,
    /// Number of inactivity ticks performed at quiescence (before the final stop), and whether a
    /// tick is also offered as a deviation at every step.
    pub ticks: u32,
    pub fault_tick: bool,
    pub reporting: bool,
    pub store: StoreMode,
    /// Size of the lane <-> runtime byte channels.
    pub lane_buf: usize,
    /// Crash (drop the agent future and every channel end) right after this harness step, then
    /// restart a second instance against the same store.
    #[serde(default)]
    pub crash_at: Option<u64>,
    /// Store fault: (kind, n) kind 0 = refuse the n-th mutating store call, 1 = apply it and kill.
    #[serde(default)]
    pub store_fault: Option<(u8, u64)>,
    /// Start a second instance on the same store after the first one has ended (for any reason).
    #[serde(default)]
    pub restart: bool,
    /// Free-form per-configuration parameter for harnesses that bring their own agent.
    #[serde(default)]
    pub extra: String,
    /// Seed of the runtime's random number generator (start branch of unbiased `select!`s, e.g. in
    /// the agent's main loop and the HTTP task).
    #[serde(default)]
    pub seed: u64,
    /// Size of the runtime -> lane request channels (0 = 4096): small values split the requests the
    /// runtime forwards to a lane across several reads of the agent.
    #[serde(default)]
    pub lane_in_buf: usize,
}

impl Cfg {
    pub fn basic(script: Vec<(usize, Step)>, remotes: usize) -> Cfg {
        Cfg {
            script,
            remotes,
            cap: 4096,
            budget: 64,
            credit: 0,
            mode: Mode::Eager,
            final_stop: true,
            fault_stop: false,
            fault_drop: false,
            ticks: 0,
            fault_tick: false,
            reporting: false,
            store: StoreMode::None,
            lane_buf: 4096,
            crash_at: None,
            store_fault: None,
            restart: false,
            extra: String::new(),
            seed: 0,
            lane_in_buf: 0,
        }
    }
}

#[derive(Clone, Debug, PartialEq, Eq)]
pub enum FrameKind {
    Linked,
    Synced,
    Unlinked,
    Event,
}

#[derive(Clone, Debug)]
pub struct Frame {
    pub step: u64,
    pub lane: String,
    pub kind: FrameKind,
    pub body: Vec<u8>,
}

pub struct Remote {
    pub id: Uuid,
    pub queue: Vec<Step>,
    pub pos: usize,
    tx: Option<ByteWriter>,
    rx: Option<ByteReader>,
    rx_flag: Arc<WakeFlag>,
    inbuf: BytesMut,
    decoder: RawResponseMessageDecoder,
    pub frames: Vec<Frame>,
    pub sent: Vec<(u64, Step)>,
    pub closed_at: Option<u64>,
    pub dropped_at: Option<u64>,
    pub decode_error: Option<String>,
    pub write_failed: Option<String>,
    completion: Option<promise::Receiver<DisconnectionReason>>,
    pub completion_reason: Option<String>,
    attached: Option<trigger::Receiver>,
    /// Number of frames received when the world first became quiescent.
    pub frames_at_quiescence: Option<usize>,
    /// Whether the completion promise had been resolved when the world first became quiescent.
    pub completed_at_quiescence: bool,
}

/// A command target created on demand when the agent asks for a commander channel.
pub struct Target {
    pub key: String,
    rx: ByteReader,
    rx_flag: Arc<WakeFlag>,
    inbuf: BytesMut,
    pub received: Vec<(u64, String, String, String)>, // (step, node, lane, body)
    pub closed: bool,
    /// The byte stream stopped being a sequence of well formed frames (a header announcing an
    /// absurd length; the repository's decoder would try to reserve that much memory).
    pub malformed: Option<String>,
}

pub struct Observation {
    pub cfg: Cfg,
    pub remotes: Vec<Remote>,
    pub targets: Vec<Target>,
    pub truth: Vec<(u64, Truth)>,
    pub truth_at_quiescence: Option<usize>,
    pub result: Option<Result<(), String>>,
    pub stop_fired_at: Option<u64>,
    pub fault_before_quiescence: bool,
    pub steps: u64,
    pub trace: Vec<String>,
    pub reports: Vec<(String, Option<(u64, u64, u64)>)>,
    pub report_totals: HashMap<String, (u64, u64)>,
    pub reports_at_quiescence: Vec<(String, Option<(u64, u64, u64)>)>,
    pub store_log: Option<Arc<StoreLog>>,
    pub killed: bool,
    /// Ground truth log of the second instance (after restart), if any.
    pub truth2: Vec<(u64, Truth)>,
    pub result2: Option<Result<(), String>>,
    pub crashed_at: Option<u64>,
    /// Virtual clock (milliseconds since the first step) after each step; index = step number.
    pub times: Vec<u64>,
    /// Step at which the first instance's future completed, if it did.
    pub completed_step: Option<u64>,
    pub alive_at_end: bool,
    pub ticks_done: u32,
    /// Some clock advance happened while the runtime still had work pending (it "was not
    /// scheduled for a while"): what was sent before that advance may be processed after it.
    pub dirty_advance: bool,
}

pub type Checker = fn(&Observation) -> Vec<(String, String)>;

pub struct AsWorld {
    cfg: Cfg,
    subject: Subject<Result<(), AgentExecError>>,
    att_tx: mpsc::Sender<AgentAttachmentRequest>,
    link_rx: mpsc::Receiver<LinkRequest>,
    pending_link: Option<LinkRequest>,
    stop_tx: Option<trigger::Sender>,
    remotes: Vec<Remote>,
    targets: Vec<Target>,
    truth: Arc<TruthLog>,
    step: u64,
    quiescent_seen: bool,
    truth_at_quiescence: Option<usize>,
    ticks_done: u32,
    stop_fired_at: Option<u64>,
    fault_before_quiescence: bool,
    fault_reason: Option<&'static str>,
    trace_on: bool,
    trace: Vec<String>,
    script_pos: usize,
    reg_rx: Option<mpsc::Receiver<UplinkReporterRegistration>>,
    readers: Vec<(String, UplinkReportReader)>,
    agg_reader: Option<UplinkReportReader>,
    report_totals: HashMap<String, (u64, u64)>,
    quiescent_reports: Vec<(String, Option<(u64, u64, u64)>)>,
    store_log: Option<Arc<StoreLog>>,
    plane: Option<swimos_server_app::verif_hooks::InMemoryPlanePersistence>,
    extra_violations: Vec<(String, String)>,
    restart_failed: bool,
    _http_tx: mpsc::Sender<swimos_api::agent::HttpLaneRequest>,
    http_responses: Vec<swimos_api::agent::HttpResponseReceiver>,
    checker: Checker,
    // restart machinery
    second: Option<Second>,
    killed: bool,
    crashed_at: Option<u64>,
    first_result: Option<Result<(), String>>,
    clock_start: Option<tokio::time::Instant>,
    times: Vec<u64>,
    completed_step: Option<u64>,
    dirty_advance: bool,
}

struct Second {
    subject: Subject<Result<(), AgentExecError>>,
    truth: Arc<TruthLog>,
    stop_tx: Option<trigger::Sender>,
    _att_tx: mpsc::Sender<AgentAttachmentRequest>,
    _link_rx: mpsc::Receiver<LinkRequest>,
    _http_tx: mpsc::Sender<swimos_api::agent::HttpLaneRequest>,
    stop_fired: bool,
}

const EV_POLL: u32 = 0;
const EV_LINK: u32 = 1;
const EV_POLL2: u32 = 2;
const EV_STOP2: u32 = 3;
const EV_RECV: u32 = 100;
const EV_RECV_T: u32 = 200;
const EV_SEND: u32 = 300;
const EV_TICK: u32 = 400;
const EV_STOP: u32 = 401;
const EV_DROP: u32 = 500;

pub const INACTIVE_TIMEOUT: Duration = Duration::from_secs(30);

thread_local! {
    pub static CHECKER: std::cell::Cell<Option<Checker>> = const { std::cell::Cell::new(None) };
}

fn noop_checker(_: &Observation) -> Vec<(String, String)> {
    vec![]
}

/// Global (per process) registration of the oracle used by `AsWorld::finish`.
static GLOBAL_CHECKER: std::sync::OnceLock<Checker> = std::sync::OnceLock::new();
pub fn set_checker(c: Checker) {
    let _ = GLOBAL_CHECKER.set(c);
}

/// Global hook to substitute the agent under test: given the configuration and the execution's
/// ground truth log, build the agent (default: `TestAgent` with `TestLifecycle`).
pub type AgentFactory = fn(&Cfg, Arc<TruthLog>) -> swimos_api::agent::BoxAgent;
static GLOBAL_AGENT: std::sync::OnceLock<AgentFactory> = std::sync::OnceLock::new();
pub fn set_agent_factory(f: AgentFactory) {
    let _ = GLOBAL_AGENT.set(f);
}

fn default_agent(cfg: &Cfg, truth: Arc<TruthLog>) -> swimos_api::agent::BoxAgent {
    if cfg.extra == "pair-agent" {
        return crate::agent2::make(truth);
    }
    let lifecycle = TestLifecycle { log: truth, cmdrs: Default::default() };
    Box::new(AgentModel::new(TestAgent::default, lifecycle.into_lifecycle()))
}

/// Global hook to build the persistence for an execution (set by the C05 check).
pub type StoreFactory = fn(&Cfg) -> Option<(RecStore, Arc<StoreLog>)>;
static GLOBAL_STORE: std::sync::OnceLock<StoreFactory> = std::sync::OnceLock::new();
pub fn set_store_factory(f: StoreFactory) {
    let _ = GLOBAL_STORE.set(f);
}

fn write_all_now(w: &mut ByteWriter, mut data: &[u8]) -> Result<(), String> {
    let flag = WakeFlag::new(false);
    let waker = flag.waker();
    let mut cx = Context::from_waker(&waker);
    while !data.is_empty() {
        match Pin::new(&mut *w).poll_write(&mut cx, data) {
            Poll::Ready(Ok(n)) => data = &data[n..],
            Poll::Ready(Err(e)) => return Err(format!("write failed: {}", e)),
            Poll::Pending => {
                // budget exhaustion wakes immediately; a genuinely full channel does not
                if !flag.is_set() {
                    return Err("harness->agent channel full".to_string());
                }
                flag.clear();
            }
        }
    }
    Ok(())
}

/// Read at most `max` bytes (0 = as much as available) without blocking. Returns Ok(None) when
/// nothing is available (the flag waker is registered), Ok(Some(0)) at end of stream.
fn read_now(r: &mut ByteReader, flag: &Arc<WakeFlag>, max: usize, out: &mut BytesMut) -> Result<Option<usize>, String> {
    let waker = flag.waker();
    let mut cx = Context::from_waker(&waker);
    let mut tmp = vec![0u8; if max == 0 { 8192 } else { max }];
    let mut total = 0usize;
    loop {
        let mut rb = ReadBuf::new(&mut tmp);
        flag.clear();
        match Pin::new(&mut *r).poll_read(&mut cx, &mut rb) {
            Poll::Ready(Ok(())) => {
                let n = rb.filled().len();
                if n == 0 {
                    if total == 0 {
                        return Ok(Some(0));
                    }
                    // data first; the end of stream is observed by the next Recv
                    flag.set();
                    return Ok(Some(total));
                }
                out.extend_from_slice(rb.filled());
                total += n;
                if max != 0 {
                    flag.set(); // there may be more
                    return Ok(Some(total));
                }
            }
            Poll::Ready(Err(e)) => return Err(format!("read failed: {}", e)),
            Poll::Pending => {
                if flag.is_set() {
                    // coop budget yield: retry
                    continue;
                }
                return Ok(if total == 0 { None } else { Some(total) });
            }
        }
    }
}

impl AsWorld {
    fn log(&mut self, s: String) {
        if self.trace_on {
            let ms = self.clock_start.map(|st| tokio::time::Instant::now().duration_since(st).as_millis()).unwrap_or(0);
            if std::env::var("PROBE_LIVE").is_ok() {
                println!("[{} @{}ms] {}", self.step, ms, s);
            }
            self.trace.push(format!("[{} @{}ms] {}", self.step, ms, s));
        }
    }

    /// Read what the runtime has written to remote `i` (at most `credit` bytes, 0 = everything).
    fn recv_remote(&mut self, i: usize, credit: usize) {
        let step = self.step;
        let r = &mut self.remotes[i];
        let mut msgs = vec![];
        if let Some(rx) = r.rx.as_mut() {
            match read_now(rx, &r.rx_flag, credit, &mut r.inbuf) {
                Ok(None) => {}
                Ok(Some(0)) => {
                    r.closed_at = Some(step);
                    r.rx = None;
                    msgs.push("closed".to_string());
                }
                Ok(Some(_)) => {}
                Err(e) => {
                    r.closed_at = Some(step);
                    r.rx = None;
                    msgs.push(format!("read error {}", e));
                }
            }
            loop {
                if r.decode_error.is_some() {
                    break;
                }
                if r.inbuf.len() >= 32 {
                    // a header announcing an absurd length would make the decoder reserve that much
                    let h = &r.inbuf[16..32];
                    let node_len = u32::from_be_bytes(h[0..4].try_into().unwrap()) as u64;
                    let lane_len = u32::from_be_bytes(h[4..8].try_into().unwrap()) as u64;
                    let body_len = u64::from_be_bytes(h[8..16].try_into().unwrap()) & !(0b111u64 << 61);
                    if node_len > (1 << 20) || lane_len > (1 << 20) || body_len > (1 << 20) {
                        r.decode_error = Some(format!("frame header announces node {} lane {} body {} bytes", node_len, lane_len, body_len));
                        break;
                    }
                }
                match r.decoder.decode(&mut r.inbuf) {
                    Ok(Some(m)) => {
                        let lane = m.path.lane.to_string();
                        let (kind, body) = match m.envelope {
                            Notification::Linked => (FrameKind::Linked, vec![]),
                            Notification::Synced => (FrameKind::Synced, vec![]),
                            Notification::Unlinked(b) => (FrameKind::Unlinked, b.map(|b| b.to_vec()).unwrap_or_default()),
                            Notification::Event(b) => (FrameKind::Event, b.to_vec()),
                        };
                        msgs.push(format!("remote {} <- {:?} {} {:?}", i, kind, lane, String::from_utf8_lossy(&body)));
                        r.frames.push(Frame { step, lane, kind, body });
                    }
                    Ok(None) => break,
                    Err(e) => {
                        r.decode_error = Some(format!("{:?}", e));
                        break;
                    }
                }
            }
        }
        for m in msgs {
            self.log(m);
        }
    }

    fn next_sender(&self) -> Vec<usize> {
        // remotes with unsent items, the owner of the earliest unsent global item first
        let mut order: Vec<(usize, usize)> = vec![];
        for (i, r) in self.remotes.iter().enumerate() {
            // a routing id comes back only after its previous holder has gone
            let attach_ok = matches!(r.queue.get(r.pos), Some(Step::Attach(k)) if self.remotes.get(*k).map(|o| o.dropped_at.is_some()).unwrap_or(false));
            if r.pos < r.queue.len() && (r.tx.is_some() || attach_ok) {
                // global index of this remote's next item
                let mut count = 0;
                let mut gidx = usize::MAX;
                for (g, (a, _)) in self.cfg.script.iter().enumerate() {
                    if *a == i {
                        if count == r.pos {
                            gidx = g;
                            break;
                        }
                        count += 1;
                    }
                }
                order.push((gidx, i));
            }
        }
        order.sort();
        order.into_iter().map(|(_, i)| i).collect()
    }

    fn poll_link_requests(&mut self) {
        if self.pending_link.is_none() {
            if let Ok(req) = self.link_rx.try_recv() {
                self.pending_link = Some(req);
            }
        }
        if let Some(rx) = self.reg_rx.as_mut() {
            while let Ok(reg) = rx.try_recv() {
                self.readers.push((reg.lane_name.to_string(), reg.reader));
            }
        }
    }

    fn snapshot_reports(&mut self) -> Vec<(String, Option<(u64, u64, u64)>)> {
        let mut out = vec![];
        let mut all: Vec<(String, UplinkReportReader)> = self.readers.clone();
        if let Some(a) = &self.agg_reader {
            all.push(("<aggregate>".to_string(), a.clone()));
        }
        for (name, r) in all {
            let s = r.snapshot().map(|s| (s.link_count, s.event_count, s.command_count));
            if let Some((_, e, c)) = s {
                let t = self.report_totals.entry(name.clone()).or_insert((0, 0));
                t.0 += e;
                t.1 += c;
            }
            out.push((name, s));
        }
        out.sort();
        out
    }
}

impl AsWorld {
    fn start_second(&mut self) {
        // crash semantics: every channel end of the first instance is gone
        for r in self.remotes.iter_mut() {
            r.tx = None;
            r.rx = None;
        }
        self.targets.clear();
        self.pending_link = None;
        let truth = Arc::new(TruthLog::default());
        truth.step.store(self.step, Ordering::SeqCst);
        let model = GLOBAL_AGENT.get().copied().unwrap_or(default_agent)(&self.cfg, truth.clone());
        let (att_tx, att_rx) = mpsc::channel(16);
        let (http_tx, http_rx) = mpsc::channel(4);
        let (link_tx, link_rx) = mpsc::channel(16);
        let (stop_tx, stop_rx) = trigger::trigger();
        let config = CombinedAgentConfig {
            agent_config: AgentConfig::DEFAULT,
            runtime_config: AgentRuntimeConfig { inactive_timeout: INACTIVE_TIMEOUT, prune_remote_delay: INACTIVE_TIMEOUT, shutdown_timeout: Duration::from_secs(10), ..Default::default() },
        };
        let descriptor = AgentRouteDescriptor { identity: AGENT_ID, route: NODE.parse().unwrap(), route_params: HashMap::new() };
        let channels = AgentRouteChannels::new(att_rx, http_rx, link_tx);
        let task = AgentRouteTask::new(&model, descriptor, channels, stop_rx, config, None);
        let log = self.store_log.clone().expect("restart needs a store");
        *log.fault.lock() = None;
        let subject = if let Some(plane) = &self.plane {
            // the first instance (and with it its node store) is gone
            self.subject.kill();
            let inner = match crate::store::acquire(plane, NODE) {
                Some(Ok(s)) => s,
                other => {
                    self.extra_violations.push((
                        "as: the node store cannot be acquired again after the first instance has gone".into(),
                        format!("node_store({}) after the first instance was dropped: {}", NODE, match other { None => "pending".to_string(), Some(Err(e)) => format!("{:?}", e), _ => unreachable!() }),
                    ));
                    self.restart_failed = true;
                    return;
                }
            };
            let store = crate::store::RecOverMem { rec: RecStore { log, instance: 2 }, inner };
            Subject::new(tokio::task::unconstrained(task.run_agent_with_store(std::future::ready(Ok(store))).with_budget(NonZeroUsize::new(64).unwrap())))
        } else {
            let store = RecStore { log, instance: 2 };
            Subject::new(tokio::task::unconstrained(task.run_agent_with_store(std::future::ready(Ok(store))).with_budget(NonZeroUsize::new(64).unwrap())))
        };
        self.second = Some(Second { subject, truth, stop_tx: Some(stop_tx), _att_tx: att_tx, _link_rx: link_rx, _http_tx: http_tx, stop_fired: false });
    }
}

impl World for AsWorld {
    type Cfg = Cfg;

    fn new(cfg: &Cfg, trace: bool) -> Self {
        let truth = Arc::new(TruthLog::default());
        let model = GLOBAL_AGENT.get().copied().unwrap_or(default_agent)(cfg, truth.clone());
        let (att_tx, att_rx) = mpsc::channel(16);
        let (http_tx, http_rx) = mpsc::channel(4);
        let (link_tx, link_rx) = mpsc::channel(16);
        let (stop_tx, stop_rx) = trigger::trigger();
        let lane_buf = NonZeroUsize::new(cfg.lane_buf).unwrap();
        // only the lane -> runtime direction is made small: requests must be able to queue up in front
        // of the agent while its writes are held back
        // (configurations with `lane_in_buf` also make the request direction small: a request is then
        // split across several reads of the agent)
        let lane_config = LaneConfig { input_buffer_size: NonZeroUsize::new(if cfg.lane_in_buf == 0 { 4096 } else { cfg.lane_in_buf }).unwrap(), output_buffer_size: lane_buf, ..Default::default() };
        let config = CombinedAgentConfig {
            agent_config: AgentConfig { default_lane_config: Some(lane_config), ..AgentConfig::DEFAULT },
            runtime_config: AgentRuntimeConfig {
                inactive_timeout: INACTIVE_TIMEOUT,
                prune_remote_delay: INACTIVE_TIMEOUT,
                shutdown_timeout: Duration::from_secs(10),
                ..Default::default()
            },
        };
        let descriptor = AgentRouteDescriptor { identity: AGENT_ID, route: NODE.parse().unwrap(), route_params: HashMap::new() };
        let channels = AgentRouteChannels::new(att_rx, http_rx, link_tx);
        let (reporting, reg_rx, agg_reader) = if cfg.reporting {
            let (reg_tx, reg_rx) = mpsc::channel(32);
            let agg = UplinkReporter::default();
            let reader = agg.reader();
            (Some(NodeReporting::new(AGENT_ID, agg, reg_tx)), Some(reg_rx), Some(reader))
        } else {
            (None, None, None)
        };
        let task = AgentRouteTask::new(&model, descriptor, channels, stop_rx, config, reporting);
        let budget = NonZeroUsize::new(cfg.budget.max(1)).unwrap();
        let mut store_log = None;
        let mut plane = None;
        let subject = if cfg.store == StoreMode::Recording {
            let log = Arc::new(StoreLog::default());
            *log.fault.lock() = cfg.store_fault.map(|(k, n)| if k == 0 { crate::store::Fault::Fail(n) } else { crate::store::Fault::KillAfter(n) });
            let store = RecStore { log: log.clone(), instance: 1 };
            store_log = Some(log);
            // `unconstrained`: the whole execution runs inside one poll of the block_on future, so Tokio's own
            // cooperative budget would never be reset and every Tokio resource would eventually return Pending.
            Subject::new(tokio::task::unconstrained(task.run_agent_with_store(std::future::ready(Ok(store))).with_budget(budget)))
        } else if let StoreMode::RecordingOverMem { abandoned } = cfg.store {
            let log = Arc::new(StoreLog::default());
            *log.fault.lock() = cfg.store_fault.map(|(k, n)| if k == 0 { crate::store::Fault::Fail(n) } else { crate::store::Fault::KillAfter(n) });
            let p = swimos_server_app::verif_hooks::InMemoryPlanePersistence::default();
            let inner = crate::store::acquire(&p, NODE).expect("first node store is ready").expect("first node store");
            if abandoned {
                crate::store::abandoned_request(&p, NODE);
            }
            let store = crate::store::RecOverMem { rec: RecStore { log: log.clone(), instance: 1 }, inner };
            store_log = Some(log);
            plane = Some(p);
            Subject::new(tokio::task::unconstrained(task.run_agent_with_store(std::future::ready(Ok(store))).with_budget(budget)))
        } else {
            Subject::new(tokio::task::unconstrained(task.run_agent().with_budget(budget)))
        };
        let mut remotes = vec![];
        for i in 0..cfg.remotes {
            let id = Uuid::from_u128(1000 + i as u128);
            let queue: Vec<Step> = cfg.script.iter().filter(|(a, _)| *a == i).map(|(_, s)| s.clone()).collect();
            let (to_agent_tx, to_agent_rx) = byte_channel(NonZeroUsize::new(1 << 16).unwrap());
            let (from_agent_tx, from_agent_rx) = byte_channel(NonZeroUsize::new(cfg.cap).unwrap());
            let (comp_tx, comp_rx) = promise::promise();
            let (att_done_tx, att_done_rx) = trigger::trigger();
            let late = matches!(queue.first(), Some(Step::Attach(_)));
            if !late {
                let req = AgentAttachmentRequest::TwoWay {
                    id,
                    io: (from_agent_tx, to_agent_rx),
                    on_attached: Some(att_done_tx),
                    completion: comp_tx,
                };
                att_tx.try_send(req).expect("attachment queue full");
            }
            remotes.push(Remote {
                id,
                queue,
                pos: 0,
                tx: if late { None } else { Some(to_agent_tx) },
                rx: if late { None } else { Some(from_agent_rx) },
                rx_flag: WakeFlag::new(true),
                inbuf: BytesMut::new(),
                decoder: RawResponseMessageDecoder,
                frames: vec![],
                sent: vec![],
                closed_at: None,
                dropped_at: None,
                decode_error: None,
                write_failed: None,
                completion: if late { None } else { Some(comp_rx) },
                completion_reason: None,
                attached: if late { None } else { Some(att_done_rx) },
                frames_at_quiescence: None,
                completed_at_quiescence: false,
            });
        }
        AsWorld {
            cfg: cfg.clone(),
            subject,
            att_tx,
            link_rx,
            pending_link: None,
            stop_tx: Some(stop_tx),
            remotes,
            targets: vec![],
            truth,
            step: 0,
            quiescent_seen: false,
            truth_at_quiescence: None,
            ticks_done: 0,
            stop_fired_at: None,
            fault_before_quiescence: false,
            fault_reason: None,
            trace_on: trace,
            trace: vec![],
            script_pos: 0,
            reg_rx,
            readers: vec![],
            agg_reader,
            report_totals: HashMap::new(),
            quiescent_reports: vec![],
            store_log,
            plane,
            extra_violations: vec![],
            restart_failed: false,
            _http_tx: http_tx,
            http_responses: vec![],
            checker: GLOBAL_CHECKER.get().copied().unwrap_or(noop_checker),
            second: None,
            killed: false,
            crashed_at: None,
            first_result: None,
            clock_start: None,
            times: vec![0],
            completed_step: None,
            dirty_advance: false,
        }
    }

    fn enabled(&mut self) -> Vec<u32> {
        if self.restart_failed {
            return vec![];
        }
        if let Some(sec) = self.second.as_mut() {
            if sec.subject.runnable() {
                return vec![EV_POLL2];
            }
            if sec.subject.alive() && !sec.stop_fired {
                return vec![EV_STOP2];
            }
            return vec![];
        }
        if self.cfg.restart && (self.killed || self.crashed_at.is_some()) {
            // killed / crashed: no draining, everything of the first instance is gone
            self.first_result = self.subject.result.take().map(|r| r.map_err(|e| e.to_string()));
            self.start_second();
            return vec![EV_POLL2];
        }
        self.poll_link_requests();
        let mut poll = vec![];
        if self.subject.runnable() {
            poll.push(EV_POLL);
        }
        if self.pending_link.is_some() {
            poll.push(EV_LINK);
        }
        let mut recv = vec![];
        for (i, r) in self.remotes.iter().enumerate() {
            if r.rx.is_some() && r.rx_flag.is_set() {
                recv.push(EV_RECV + i as u32);
            }
        }
        for (i, t) in self.targets.iter().enumerate() {
            if !t.closed && t.rx_flag.is_set() {
                recv.push(EV_RECV_T + i as u32);
            }
        }
        let send: Vec<u32> = if self.stop_fired_at.is_some() { vec![] } else { self.next_sender().into_iter().map(|i| EV_SEND + i as u32).collect() };
        let mut out = vec![];
        match self.cfg.mode {
            Mode::Eager => {
                out.extend(poll);
                out.extend(recv);
                out.extend(send);
            }
            Mode::Burst => {
                out.extend(send);
                out.extend(poll);
                out.extend(recv);
            }
            Mode::SlowRead => {
                out.extend(poll);
                out.extend(send);
                out.extend(recv);
            }
        }
        if out.is_empty() {
            // quiescent
            if !self.quiescent_seen {
                self.quiescent_seen = true;
                self.truth_at_quiescence = Some(self.truth.entries.lock().len());
                let qflag = WakeFlag::new(false);
                let qwaker = qflag.waker();
                let mut qcx = Context::from_waker(&qwaker);
                for r in self.remotes.iter_mut() {
                    r.frames_at_quiescence = Some(r.frames.len());
                    if let Some(c) = r.completion.as_mut() {
                        if let Poll::Ready(res) = Pin::new(c).poll(&mut qcx) {
                            r.completed_at_quiescence = true;
                            r.completion_reason = Some(match res {
                                Ok(reason) => format!("{:?}", reason),
                                Err(_) => "promise dropped".to_string(),
                            });
                            r.completion = None;
                        }
                    }
                }
                if self.cfg.reporting {
                    let s = self.snapshot_reports();
                    self.log(format!("reports at quiescence: {:?}", s));
                    self.quiescent_reports = s;
                }
            }
            if !self.subject.alive() {
                if self.cfg.restart && self.store_log.is_some() {
                    self.first_result = self.subject.result.take().map(|r| r.map_err(|e| e.to_string()));
                    self.start_second();
                    return vec![EV_POLL2];
                }
                return vec![];
            }
            if self.ticks_done < self.cfg.ticks {
                return vec![EV_TICK];
            }
            if self.cfg.final_stop && self.stop_fired_at.is_none() {
                return vec![EV_STOP];
            }
            return vec![];
        }
        // faults are offered only as deviations, while the run is still going
        if !self.quiescent_seen && self.subject.alive() {
            if self.cfg.fault_tick && self.ticks_done < self.cfg.ticks + 2 {
                out.push(EV_TICK);
            }
            if self.cfg.fault_stop && self.stop_fired_at.is_none() {
                out.push(EV_STOP);
            }
            if self.cfg.fault_drop {
                for (i, r) in self.remotes.iter().enumerate() {
                    if r.rx.is_some() {
                        out.push(EV_DROP + i as u32);
                    }
                }
            }
        }
        out
    }

    fn label(&self, code: u32) -> String {
        match code {
            EV_POLL => "poll".into(),
            EV_LINK => "serve-link-request".into(),
            EV_POLL2 => "poll-second-instance".into(),
            EV_STOP2 => "stop-second-instance".into(),
            EV_TICK => "tick".into(),
            EV_STOP => "stop".into(),
            c if (EV_RECV..EV_RECV_T).contains(&c) => format!("recv({})", c - EV_RECV),
            c if (EV_RECV_T..EV_SEND).contains(&c) => format!("recv-target({})", c - EV_RECV_T),
            c if (EV_SEND..EV_TICK).contains(&c) => {
                let i = (c - EV_SEND) as usize;
                let r = &self.remotes[i];
                format!("send({}, {:?})", i, r.queue.get(r.pos))
            }
            c if c >= EV_DROP => format!("drop-remote({})", c - EV_DROP),
            c => format!("?{}", c),
        }
    }

    async fn fire(&mut self, code: u32) {
        self.step += 1;
        self.clock_start.get_or_insert_with(tokio::time::Instant::now);
        self.truth.step.store(self.step, Ordering::SeqCst);
        if let Some(l) = &self.store_log {
            l.step.store(self.step, Ordering::SeqCst);
        }
        match code {
            EV_POLL2 => {
                if let Some(sec) = self.second.as_mut() {
                    sec.truth.step.store(self.step, Ordering::SeqCst);
                    sec.subject.poll();
                }
            }
            EV_STOP2 => {
                if let Some(sec) = self.second.as_mut() {
                    sec.stop_fired = true;
                    if let Some(s) = sec.stop_tx.take() {
                        s.trigger();
                    }
                }
            }
            EV_POLL => {
                let polled = std::panic::catch_unwind(std::panic::AssertUnwindSafe(|| self.subject.poll()));
                let done = match polled {
                    Ok(d) => d,
                    Err(p) => {
                        let is_kill = p.downcast_ref::<String>().map(|s| s.contains(crate::store::KILL_MSG)).unwrap_or(false)
                            || p.downcast_ref::<&str>().map(|s| s.contains(crate::store::KILL_MSG)).unwrap_or(false);
                        if !is_kill {
                            std::panic::resume_unwind(p);
                        }
                        self.killed = true;
                        self.subject.kill();
                        self.log("agent killed at a store call".into());
                        false
                    }
                };
                if done {
                    if !self.quiescent_seen && self.stop_fired_at.is_none() {
                        // the agent ended on its own (a handler failed): the run is no longer a
                        // fault-free run and the quiescence oracles do not apply
                        self.fault_before_quiescence = true;
                        self.fault_reason.get_or_insert("the agent ended on its own");
                    }
                    let r = self.subject.result.as_ref().map(|r| r.as_ref().map(|_| ()).map_err(|e| e.to_string()));
                    self.completed_step = Some(self.step);
                    self.log(format!("subject completed: {:?}", r));
                }
            }
            EV_LINK => {
                if let Some(req) = self.pending_link.take() {
                    match req {
                        LinkRequest::Commander(c) => {
                            let key = match &c.key {
                                CommanderKey::Remote(shp) => format!("remote:{}", shp),
                                CommanderKey::Local(addr) => format!("local:{}:{}", addr.node, addr.lane),
                            };
                            let cap = self.cfg.cap.max(16);
                            let (tx, rx) = byte_channel(NonZeroUsize::new(cap).unwrap());
                            let _ = c.promise.send(Ok(tx));
                            self.log(format!("commander channel opened for {}", key));
                            self.targets.push(Target { key, rx, rx_flag: WakeFlag::new(true), inbuf: BytesMut::new(), received: vec![], closed: false, malformed: None });
                        }
                        LinkRequest::Downlink(_) => {
                            self.log("downlink request ignored".into());
                        }
                    }
                }
            }
            EV_TICK => {
                self.ticks_done += 1;
                if self.subject.runnable() {
                    self.dirty_advance = true;
                }
                if !self.quiescent_seen {
                    self.fault_before_quiescence = true;
                    self.fault_reason.get_or_insert("clock tick before quiescence (deviation)");
                }
                tokio::time::advance(INACTIVE_TIMEOUT + Duration::from_millis(1)).await;
            }
            EV_STOP => {
                if !self.quiescent_seen {
                    self.fault_before_quiescence = true;
                    self.fault_reason.get_or_insert("stop before quiescence (deviation)");
                }
                if let Some(s) = self.stop_tx.take() {
                    s.trigger();
                }
                self.stop_fired_at = Some(self.step);
            }
            c if (EV_RECV..EV_RECV_T).contains(&c) => {
                let i = (c - EV_RECV) as usize;
                let credit = self.cfg.credit;
                self.recv_remote(i, credit);
            }
            c if (EV_RECV_T..EV_SEND).contains(&c) => {
                let i = (c - EV_RECV_T) as usize;
                let step = self.step;
                let credit = self.cfg.credit;
                let t = &mut self.targets[i];
                let mut msgs = vec![];
                match read_now(&mut t.rx, &t.rx_flag, credit, &mut t.inbuf) {
                    Ok(Some(0)) => t.closed = true,
                    Err(_) => t.closed = true,
                    _ => {}
                }
                let mut dec = RawRequestMessageDecoder;
                loop {
                    if t.malformed.is_some() {
                        break;
                    }
                    if t.inbuf.len() >= 32 {
                        let h = &t.inbuf[16..32];
                        let node_len = u32::from_be_bytes(h[0..4].try_into().unwrap()) as u64;
                        let lane_len = u32::from_be_bytes(h[4..8].try_into().unwrap()) as u64;
                        let body_len = u64::from_be_bytes(h[8..16].try_into().unwrap()) & !(0b111u64 << 61);
                        if node_len > (1 << 20) || lane_len > (1 << 20) || body_len > (1 << 20) {
                            t.malformed = Some(format!("frame header announces node {} lane {} body {} bytes after {} well formed frames", node_len, lane_len, body_len, t.received.len()));
                            t.closed = true;
                            break;
                        }
                    }
                    match dec.decode(&mut t.inbuf) {
                        Ok(Some(m)) => {
                            let body = match m.envelope {
                                Operation::Command(b) => String::from_utf8_lossy(&b).to_string(),
                                other => format!("<{:?}>", other),
                            };
                            msgs.push(format!("target {} <- {}:{} {}", t.key, m.path.node, m.path.lane, body));
                            t.received.push((step, m.path.node.to_string(), m.path.lane.to_string(), body));
                        }
                        Ok(None) => break,
                        Err(_) => {
                            t.closed = true;
                            break;
                        }
                    }
                }
                for m in msgs {
                    self.log(m);
                }
            }
            c if (EV_SEND..EV_TICK).contains(&c) => {
                let i = (c - EV_SEND) as usize;
                let step = self.step;
                let r = &mut self.remotes[i];
                let item = r.queue[r.pos].clone();
                r.pos += 1;
                if let Step::Wait(n) = &item {
                    let n = *n;
                    r.sent.push((step, item.clone()));
                    self.script_pos += 1;
                    if self.subject.runnable() {
                        self.dirty_advance = true;
                    }
                    self.log(format!("clock advances by {}/10 of the inactivity timeout{}", n, if self.subject.runnable() { " (the runtime has work pending)" } else { "" }));
                    tokio::time::advance(INACTIVE_TIMEOUT * n / 10 + Duration::from_millis(1)).await;
                } else if let Step::Detach = &item {
                    // everything the runtime has written so far is read before the remote goes
                    self.recv_remote(i, 0);
                    let r = &mut self.remotes[i];
                    r.tx = None;
                    r.rx = None;
                    r.dropped_at = Some(step);
                    r.sent.push((step, item.clone()));
                    self.script_pos += 1;
                    self.log(format!("remote {} detaches", i));
                } else if let Step::Attach(k) = &item {
                    let id = Uuid::from_u128(1000 + *k as u128);
                    let (to_agent_tx, to_agent_rx) = byte_channel(NonZeroUsize::new(1 << 16).unwrap());
                    let (from_agent_tx, from_agent_rx) = byte_channel(NonZeroUsize::new(self.cfg.cap).unwrap());
                    let (comp_tx, comp_rx) = promise::promise();
                    let (att_done_tx, att_done_rx) = trigger::trigger();
                    let req = AgentAttachmentRequest::TwoWay { id, io: (from_agent_tx, to_agent_rx), on_attached: Some(att_done_tx), completion: comp_tx };
                    let _ = self.att_tx.try_send(req);
                    r.id = id;
                    r.tx = Some(to_agent_tx);
                    r.rx = Some(from_agent_rx);
                    r.rx_flag.set();
                    r.completion = Some(comp_rx);
                    r.attached = Some(att_done_rx);
                    r.sent.push((step, item.clone()));
                    self.script_pos += 1;
                    self.log(format!("remote {} attaches under the id of remote {}", i, k));
                } else if let Step::Garbage = &item {
                    if let Some(tx) = r.tx.as_mut() {
                        if let Err(e) = write_all_now(tx, &[0xffu8; 24]) {
                            r.tx = None;
                            r.write_failed = Some(e);
                        }
                    }
                    r.sent.push((step, item.clone()));
                    self.script_pos += 1;
                    self.log(format!("remote {} writes garbage", i));
                } else if let Step::Http(lane) = &item {
                    let uri: swimos_api::http::Uri = format!("/node?lane={}", lane).parse().expect("uri");
                    let req = swimos_api::http::HttpRequest::get(uri).map(|_| bytes::Bytes::new());
                    let (req, rx) = swimos_api::agent::HttpLaneRequest::new(req);
                    let _ = self._http_tx.try_send(req);
                    self.http_responses.push(rx);
                    r.sent.push((step, item.clone()));
                    self.script_pos += 1;
                    self.log(format!("HTTP GET for lane {}", lane));
                } else {
                let path = RelativeAddress::new(NODE, item.lane());
                let msg: RequestMessage<&str, &[u8]> = match &item {
                    Step::Link(_) => RequestMessage::link(r.id, path),
                    Step::Sync(_) => RequestMessage::sync(r.id, path),
                    Step::Unlink(_) => RequestMessage::unlink(r.id, path),
                    Step::Cmd(_, body) => RequestMessage::command(r.id, path, body.as_bytes()),
                    Step::Wait(_) | Step::Http(_) | Step::Detach | Step::Attach(_) | Step::Garbage => unreachable!(),
                };
                let mut buf = BytesMut::new();
                let mut enc = RawRequestMessageEncoder;
                enc.encode(msg, &mut buf).expect("encode");
                if let Some(tx) = r.tx.as_mut() {
                    if let Err(e) = write_all_now(tx, &buf) {
                        // the agent has gone away (ended or failed): nothing is claimed about this envelope
                        r.tx = None;
                        r.write_failed = Some(e);
                    }
                }
                r.sent.push((step, item.clone()));
                self.script_pos += 1;
                self.log(format!("remote {} -> {:?}", i, item));
                }
            }
            c if c >= EV_DROP => {
                let i = (c - EV_DROP) as usize;
                self.fault_before_quiescence = true;
                self.fault_reason.get_or_insert("a remote was dropped (deviation)");
                let step = self.step;
                let r = &mut self.remotes[i];
                r.tx = None;
                r.rx = None;
                r.dropped_at = Some(step);
                self.log(format!("remote {} dropped", i));
            }
            _ => {}
        }
        let start = *self.clock_start.get_or_insert_with(tokio::time::Instant::now);
        let now_ms = tokio::time::Instant::now().duration_since(start).as_millis() as u64;
        while self.times.len() <= self.step as usize {
            self.times.push(now_ms);
        }
        if self.cfg.crash_at == Some(self.step) && self.subject.alive() && self.second.is_none() {
            self.subject.kill();
            self.crashed_at = Some(self.step);
            self.log("agent crashed (future and all channel ends dropped)".into());
        }
        if self.trace_on && self.cfg.reporting {
            self.poll_link_requests();
            let s = self.snapshot_reports();
            let brief: Vec<String> = s.iter().filter(|(_, v)| v.map(|x| x.0 > 0).unwrap_or(true)).map(|(n, v)| format!("{}={:?}", n, v.map(|x| x.0))).collect();
            self.log(format!("link counts: {}", brief.join(" ")));
        }
    }

    fn rng_seed(cfg: &Cfg) -> u64 {
        cfg.seed
    }

    fn finish(mut self) -> Outcome {
        // completion promises
        let flag = WakeFlag::new(false);
        let waker = flag.waker();
        let mut cx = Context::from_waker(&waker);
        for r in self.remotes.iter_mut() {
            if let Some(mut c) = r.completion.take() {
                if let Poll::Ready(res) = Pin::new(&mut c).poll(&mut cx) {
                    r.completion_reason = Some(match res {
                        Ok(reason) => format!("{:?}", reason),
                        Err(_) => "promise dropped".to_string(),
                    });
                }
            }
            if let Some(mut a) = r.attached.take() {
                let _ = Pin::new(&mut a).poll(&mut cx);
            }
        }
        let reports = if self.cfg.reporting { self.snapshot_reports() } else { vec![] };
        let result = match self.first_result.take() {
            Some(r) => Some(r),
            None => self.subject.result.take().map(|r| r.map_err(|e| e.to_string())),
        };
        let truth = self.truth.entries.lock().clone();
        let (truth2, result2) = match self.second.as_mut() {
            Some(sec) => (sec.truth.entries.lock().clone(), sec.subject.result.take().map(|r| r.map_err(|e| e.to_string()))),
            None => (vec![], None),
        };
        // A remote that attached under the routing id of an earlier one is the same remote as far as
        // the agent is concerned: the two incarnations are merged (frames and requests in step order).
        let mut remotes = std::mem::take(&mut self.remotes);
        let late: Vec<(usize, usize)> = remotes.iter().enumerate().filter_map(|(j, r)| if let Some(Step::Attach(k)) = r.queue.first() { Some((j, *k)) } else { None }).collect();
        for (j, k) in late.into_iter().rev() {
            let rj = remotes.remove(j);
            if rj.sent.is_empty() || k >= remotes.len() {
                continue; // never attached
            }
            let rk = &mut remotes[k];
            rk.frames_at_quiescence = Some(rk.frames.len() + rj.frames_at_quiescence.unwrap_or(rj.frames.len()));
            rk.frames.extend(rj.frames);
            rk.sent.extend(rj.sent);
            rk.queue.extend(rj.queue);
            rk.closed_at = rj.closed_at;
            rk.dropped_at = rj.dropped_at;
            if rk.decode_error.is_none() {
                rk.decode_error = rj.decode_error;
            }
            rk.write_failed = rj.write_failed;
            rk.completion_reason = rj.completion_reason;
            rk.completed_at_quiescence = rj.completed_at_quiescence;
        }
        // what the quiescence laws of the oracles can say about this execution (evidence, see
        // vcommon::sched::oracle_note)
        if self.fault_before_quiescence {
            vcommon::sched::oracle_note(&format!("quiescence laws skipped: {}", self.fault_reason.unwrap_or("fault")));
            // An agent that ends by itself while its remotes still have work for it - no stop, no clock
            // tick, no injected fault, no failure that the script asked for - has failed every promise
            // the properties make about what it delivers.
            let asked = format!("{:?}", result);
            let plain = self.cfg.store_fault.is_none() && self.cfg.crash_at.is_none() && !self.cfg.restart && (self.cfg.extra.is_empty() || self.cfg.extra == "pair-agent");
            let timed = self.cfg.script.iter().any(|(_, s)| matches!(s, Step::Wait(_)));
            if self.fault_reason == Some("the agent ended on its own") && plain && !timed && !asked.contains("requested failure") && !asked.contains("verif: injected") {
                let class = match &result {
                    Some(Ok(())) => "Ok".to_string(),
                    Some(Err(e)) => format!("Err({})", e.chars().take(70).collect::<String>()),
                    None => "none".to_string(),
                };
                self.extra_violations.push((format!("as: the agent ended on its own before its remotes were served result={}", class), format!("no stop, tick or fault was injected and the script requests no failure; result {:?}", result)));
            }
        } else if self.truth_at_quiescence.is_none() {
            vcommon::sched::oracle_note("quiescence laws skipped: no quiescence recorded");
        } else {
            vcommon::sched::oracle_note("quiescence laws judged");
        }
        let obs = Observation {
            cfg: self.cfg.clone(),
            remotes,
            targets: std::mem::take(&mut self.targets),
            truth,
            truth_at_quiescence: self.truth_at_quiescence,
            result,
            stop_fired_at: self.stop_fired_at,
            fault_before_quiescence: self.fault_before_quiescence,
            steps: self.step,
            trace: std::mem::take(&mut self.trace),
            reports,
            report_totals: std::mem::take(&mut self.report_totals),
            reports_at_quiescence: std::mem::take(&mut self.quiescent_reports),
            store_log: self.store_log.clone(),
            killed: self.killed,
            truth2,
            result2,
            crashed_at: self.crashed_at,
            times: std::mem::take(&mut self.times),
            completed_step: self.completed_step,
            alive_at_end: self.subject.alive(),
            ticks_done: self.ticks_done,
            dirty_advance: self.dirty_advance,
        };
        let mut violations = (self.checker)(&obs);
        violations.extend(std::mem::take(&mut self.extra_violations));
        // digest of everything observable
        let mut h: u64 = 0xcbf29ce484222325;
        let mut feed = |s: &str| {
            for b in s.as_bytes() {
                h ^= *b as u64;
                h = h.wrapping_mul(0x100000001b3);
            }
        };
        for r in &obs.remotes {
            for f in &r.frames {
                feed(&format!("{}|{:?}|{}|", f.lane, f.kind, String::from_utf8_lossy(&f.body)));
            }
            feed(&format!("#{:?}#{:?}", r.closed_at.is_some(), r.completion_reason));
        }
        for t in &obs.targets {
            for m in &t.received {
                feed(&format!("{}|{}|{}|", m.1, m.2, m.3));
            }
        }
        for (_, t) in &obs.truth {
            feed(&format!("{:?}", t));
        }
        for (_, t) in &obs.truth2 {
            feed(&format!("2:{:?}", t));
        }
        feed(&format!("{:?}", obs.result));
        let mut log = obs.trace.clone();
        if self.trace_on {
            for (s, t) in &obs.truth {
                log.push(format!("truth@{}: {:?}", s, t));
            }
            log.push(format!("result: {:?}", obs.result));
            for (s, t) in &obs.truth2 {
                log.push(format!("truth2@{}: {:?}", s, t));
            }
            if let Some(l) = &obs.store_log {
                for (s, i, c) in l.calls.lock().iter() {
                    log.push(format!("store@{} #{}: {:?}", s, i, c));
                }
            }
            for (i, r) in obs.remotes.iter().enumerate() {
                log.push(format!("remote {} completion: {:?} closed_at {:?}", i, r.completion_reason, r.closed_at));
            }
        }
        drop(self.att_tx);
        Outcome { digest: h, violations, log }
    }
}

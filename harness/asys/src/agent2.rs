//! A second, small agent for the agent-system harness: two persistent value lanes and two value
//! stores, so that lanes and stores with the *same numeric item id* exist side by side (the n-th
//! lane and the n-th store of an agent are numbered from separate counters that both start at 0).
//! Selected by `Cfg.extra == "pair-agent"`. Its ground truth uses the same entries as `TestAgent`
//! (lanes `v`, `w`, store `vs`; the store `ws` is only there to be persisted).

use crate::agent::{Act, Simple, Truth, TruthLog};
use std::sync::Arc;
use swimos::agent::{
    agent_lifecycle::HandlerContext,
    event_handler::{EventHandler, HandlerActionExt, Sequentially},
    lanes::{CommandLane, MapLane, ValueLane},
    lifecycle, projections,
    stores::ValueStore,
    AgentLaneModel,
};

#[projections]
#[derive(AgentLaneModel)]
pub struct PairAgent {
    v: ValueLane<i32>,
    w: ValueLane<i32>,
    vs: ValueStore<i32>,
    ws: ValueStore<i32>,
    c: CommandLane<Act>,
    /// a lane whose value can have the empty encoding (`None`); it starts at `Some(7)` so that
    /// "nothing stored" and "the empty value stored" are different states
    /// (external names `o` and `O` - equal up to case, so a store that folds names would alias them - and different from the field names the lifecycle is labelled with)
    #[item(name = "o")]
    opt_lane: ValueLane<Option<i32>>,
    /// a map lane whose values can have the empty encoding
    #[item(name = "O")]
    opt_map: MapLane<i32, Option<i32>>,
}

/// Ordinal of the field `o` (its item id in the derived model).
const O_ORDINAL: u64 = 5;

#[derive(Clone)]
pub struct PairLifecycle {
    pub log: Arc<TruthLog>,
}

#[lifecycle(PairAgent)]
impl PairLifecycle {
    #[on_start]
    pub fn on_start(&self, context: HandlerContext<PairAgent>) -> impl EventHandler<PairAgent> {
        let log = self.log.clone();
        context
            .get_value(PairAgent::V)
            .and_then(move |v| context.get_value(PairAgent::W).map(move |w| (v, w)))
            .and_then(move |(v, w)| context.get_value(PairAgent::VS).map(move |vs| (v, w, vs)))
            .and_then(move |(v, w, vs)| context.get_value(PairAgent::OPT_LANE).map(move |o| (v, w, vs, o)))
            .and_then(move |(v, w, vs, o)| context.get_map(PairAgent::OPT_MAP).map(move |om| (v, w, vs, o, om)))
            .and_then(move |(v, w, vs, o, om): (i32, i32, i32, Option<i32>, std::collections::HashMap<i32, Option<i32>>)| {
                context.effect(move || {
                    log.push(Truth::Start { v, w, t: 0, vs, m: vec![], ms: vec![] });
                    log.push(Truth::Custom(format!("start:o={}", o.map(|x| x.to_string()).unwrap_or_default())));
                    let mut es: Vec<(i32, Option<i32>)> = om.into_iter().collect();
                    es.sort();
                    let es: Vec<String> = es.iter().map(|(k, v)| format!("{}:{}", k, v.map(|x| x.to_string()).unwrap_or_default())).collect();
                    log.push(Truth::Custom(format!("start:om={}", es.join(","))));
                })
            })
    }

    #[on_set(opt_lane)]
    pub fn on_set_o(&self, context: HandlerContext<PairAgent>, new: &Option<i32>, _prev: Option<Option<i32>>) -> impl EventHandler<PairAgent> {
        let (log, new) = (self.log.clone(), *new);
        context.effect(move || log.push(Truth::Custom(format!("set:o={}", new.map(|x| x.to_string()).unwrap_or_default()))))
    }

    #[on_stop]
    pub fn on_stop(&self, context: HandlerContext<PairAgent>) -> impl EventHandler<PairAgent> {
        let log = self.log.clone();
        context.effect(move || log.push(Truth::Stop))
    }

    #[on_set(v)]
    pub fn on_set_v(&self, context: HandlerContext<PairAgent>, new: &i32, prev: Option<i32>) -> impl EventHandler<PairAgent> {
        let (log, new) = (self.log.clone(), *new);
        context.effect(move || log.push(Truth::Value { lane: "v", new, prev }))
    }

    #[on_set(w)]
    pub fn on_set_w(&self, context: HandlerContext<PairAgent>, new: &i32, prev: Option<i32>) -> impl EventHandler<PairAgent> {
        let (log, new) = (self.log.clone(), *new);
        context.effect(move || log.push(Truth::Value { lane: "w", new, prev }))
    }

    #[on_set(vs)]
    pub fn on_set_vs(&self, context: HandlerContext<PairAgent>, new: &i32, prev: Option<i32>) -> impl EventHandler<PairAgent> {
        let (log, new) = (self.log.clone(), *new);
        context.effect(move || log.push(Truth::Value { lane: "vs", new, prev }))
    }

    #[on_command(c)]
    pub fn on_command_c(&self, context: HandlerContext<PairAgent>, act: &Act) -> impl EventHandler<PairAgent> {
        let log = self.log.clone();
        let descr = format!("{:?}", act.ops);
        let mut handlers: Vec<Box<dyn EventHandler<PairAgent> + Send>> = vec![];
        handlers.push(Box::new(context.effect(move || log.push(Truth::Command { lane: "c", value: descr }))));
        for op in act.ops.iter().cloned() {
            let h: Box<dyn EventHandler<PairAgent> + Send> = match op {
                Simple::SetV(x) => Box::new(context.set_value(PairAgent::V, x)),
                Simple::SetW(x) => Box::new(context.set_value(PairAgent::W, x)),
                Simple::SetVs(x) => Box::new(context.set_value(PairAgent::VS, x)),
                Simple::SetWs(x) => Box::new(context.set_value(PairAgent::WS, x)),
                Simple::SetO(x) => Box::new(context.set_value(PairAgent::OPT_LANE, Some(x))),
                Simple::ClrO => Box::new(context.set_value(PairAgent::OPT_LANE, None)),
                Simple::UpdOm { k, v } => Box::new(context.update(PairAgent::OPT_MAP, k, Some(v))),
                Simple::NilOm(k) => Box::new(context.update(PairAgent::OPT_MAP, k, None)),
                Simple::RemOm(k) => Box::new(context.remove(PairAgent::OPT_MAP, k)),
                _ => Box::new(context.effect(|| ())),
            };
            handlers.push(h);
        }
        Sequentially::new(handlers)
    }
}

pub fn make(truth: Arc<TruthLog>) -> swimos_api::agent::BoxAgent {
    use swimos::agent::agent_model::AgentModel;
    let lifecycle = PairLifecycle { log: truth };
    fn agent() -> PairAgent {
        let mut a = PairAgent::default();
        a.opt_lane = ValueLane::new(O_ORDINAL, Some(7));
        a
    }
    Box::new(AgentModel::new(agent, lifecycle.into_lifecycle()))
}

//! Engine E2 legs of C02: explicit-state search over the two coalescing queues, real code
//! reached through the cfg(swimos_verif) re-exports.
//!
//! `mapq-agent`: `MapStoreInner<i32, i32, WriteQueues<i32>>` (what a `MapLane` wraps): every
//! sequence of update/remove/clear/sync/pop over 3 keys; a linked observer and up to two syncers
//! fold what is popped; from every reached state a deterministic drain must leave every replica
//! equal to the map.
//! `mapq-runtime`: `MapOperationQueue` with textual keys in three Recon-equal pairs and the epoch
//! counter started just below `usize::MAX` so that wrap-around is inside the bound.

use bytes::BytesMut;
use serde_json::json;
use std::collections::{BTreeMap, BTreeSet, HashMap, VecDeque};
use std::time::Instant;
use swimos_agent::verif_hooks::{MapStoreInner, WriteQueues};
use swimos_agent_protocol::{LaneResponse, MapOperation};
use swimos_runtime::verif_hooks::MapOperationQueue;
use uuid::Uuid;
use vcommon::space::bfs_classified;
use vcommon::{Ctx, Leg};

// ------------------------------------------------------------------------------------------
// agent side
// ------------------------------------------------------------------------------------------

#[derive(Clone, Debug, PartialEq, Eq, Hash, serde::Serialize, serde::Deserialize)]
pub enum AOp {
    Upd(i32, i32),
    Rem(i32),
    Clr,
    /// sync of remote i, snapshot keys in ascending order
    Sync(u8),
    /// sync of remote i, snapshot keys in the p-th (p >= 1) lexicographic permutation of the
    /// ascending order: the lane reads them from a `HashMap`, so every order is a behaviour
    SyncP(u8, u8),
    /// remote i, whose first sync is still in progress, closes its link, forgets its replica and
    /// syncs again (keys ascending)
    Resync(u8),
    Pop,
}

/// The p-th lexicographic permutation of `keys` (sorted ascending first).
fn permuted(mut keys: Vec<i32>, p: usize) -> VecDeque<i32> {
    keys.sort();
    let mut out = VecDeque::new();
    let mut p = p;
    let mut fact: usize = (1..=keys.len()).product();
    while !keys.is_empty() {
        fact /= keys.len();
        let i = (p / fact).min(keys.len() - 1);
        p %= fact;
        out.push_back(keys.remove(i));
    }
    out
}

type Inner = MapStoreInner<i32, i32, WriteQueues<i32>, HashMap<i32, i32>>;

#[derive(Clone, Debug, PartialEq, Eq)]
enum Phase {
    NotStarted,
    Syncing,
    Synced,
}

struct Syncer {
    /// a Clear event was still queued (not yet popped) when this sync started
    clear_pending_at_sync: bool,
    phase: Phase,
    replica: BTreeMap<i32, i32>,
    /// per key: every state (Some value / absent) the key was in since the sync started
    window: BTreeMap<i32, BTreeSet<Option<i32>>>,
    /// sync requests of this remote that the lane has not answered with `Synced` yet (2 after a
    /// re-sync that overtook the first one)
    outstanding: u8,
}

struct ASim {
    real: Inner,
    truth: BTreeMap<i32, i32>,
    observer: BTreeMap<i32, i32>,
    syncers: Vec<Syncer>,
    /// whether standard events reach a syncer from the moment of its sync request (explicit link
    /// first) or - as the runtime does for a sync without link - only after its first targeted response
    implicit_link: bool,
    syncer_linked: Vec<bool>,
    /// evaluate the snapshot-consistency law at Synced (C03); convergence laws are always evaluated
    check_snapshot: bool,
}

fn sid(i: u8) -> Uuid {
    Uuid::from_u128(100 + i as u128)
}

const KEYS: [i32; 3] = [1, 2, 3];
static CHECK_SNAPSHOT: std::sync::atomic::AtomicBool = std::sync::atomic::AtomicBool::new(false);

impl ASim {
    fn new(implicit_link: bool, head_epoch: usize) -> ASim {
        let mut real: Inner = MapStoreInner::new(HashMap::new());
        real.queue().verif_set_head_epoch(head_epoch);
        ASim {
            real,
            truth: BTreeMap::new(),
            observer: BTreeMap::new(),
            syncers: (0..2).map(|_| Syncer { clear_pending_at_sync: false, phase: Phase::NotStarted, replica: BTreeMap::new(), window: BTreeMap::new(), outstanding: 0 }).collect(),
            implicit_link,
            syncer_linked: vec![false, false],
            check_snapshot: CHECK_SNAPSHOT.load(std::sync::atomic::Ordering::Relaxed),
        }
    }

    fn note_windows(&mut self) {
        for s in self.syncers.iter_mut() {
            if s.phase == Phase::Syncing {
                for k in KEYS {
                    s.window.entry(k).or_default().insert(self.truth.get(&k).cloned());
                }
            }
        }
    }

    fn apply(&mut self, op: &AOp) -> Result<(), String> {
        match op {
            AOp::Upd(k, v) => {
                self.real.update(*k, *v);
                self.truth.insert(*k, *v);
                self.note_windows();
            }
            AOp::Rem(k) => {
                self.real.remove(k);
                self.truth.remove(k);
                self.note_windows();
            }
            AOp::Clr => {
                self.real.clear();
                self.truth.clear();
                self.note_windows();
            }
            AOp::Sync(_) | AOp::SyncP(..) | AOp::Resync(_) => {
                let (i, p) = match op {
                    AOp::Sync(i) | AOp::Resync(i) => (i, 0usize),
                    AOp::SyncP(i, p) => (i, *p as usize),
                    _ => unreachable!(),
                };
                let keys: Vec<i32> = self.real.get_map(|m| m.keys().cloned().collect());
                let keys = permuted(keys, p);
                let clear_pending = self.real.queue().verif_key().contains("Clear");
                self.real.queue().sync(sid(*i), keys);
                let s = &mut self.syncers[*i as usize];
                s.clear_pending_at_sync = clear_pending;
                s.outstanding += 1;
                s.phase = Phase::Syncing;
                s.replica.clear();
                s.window.clear();
                self.syncer_linked[*i as usize] = !self.implicit_link;
                self.note_windows();
            }
            AOp::Pop => {
                self.pop()?;
            }
        }
        Ok(())
    }

    /// Pop one response and route it like the runtime does. Returns whether something was popped.
    fn pop(&mut self) -> Result<bool, String> {
        enum Out {
            Std(MapOperation<i32, i32>),
            SyncEv(Uuid, MapOperation<i32, i32>),
            Synced(Uuid),
        }
        let claimed_empty = self.real.queue().is_empty();
        let out = {
            let r = self.real.pop_operation();
            if claimed_empty && r.is_some() {
                return Err("law=is_empty_means_nothing_to_write: the lane's queues report that they are empty (the lane then tells the agent it is done) although an operation can still be popped: it would never be written".into());
            }
            match r {
                None => return Ok(false),
                Some(LaneResponse::StandardEvent(op)) => Out::Std(own(op)),
                Some(LaneResponse::SyncEvent(id, op)) => Out::SyncEv(id, own(op)),
                Some(LaneResponse::Synced(id)) => Out::Synced(id),
                Some(LaneResponse::Initialized) => return Err("unexpected Initialized".into()),
            }
        };
        match out {
            Out::Std(op) => {
                fold(&mut self.observer, &op);
                for (i, s) in self.syncers.iter_mut().enumerate() {
                    if s.phase != Phase::NotStarted && self.syncer_linked[i] {
                        fold(&mut s.replica, &op);
                    }
                }
            }
            Out::SyncEv(id, op) => {
                let i = (id.as_u128() - 100) as usize;
                self.syncer_linked[i] = true;
                fold(&mut self.syncers[i].replica, &op);
            }
            Out::Synced(id) => {
                let i = (id.as_u128() - 100) as usize;
                self.syncer_linked[i] = true;
                let s = &mut self.syncers[i];
                if s.phase != Phase::Syncing || s.outstanding == 0 {
                    return Err("law=synced_only_after_sync: Synced popped for a remote that is not syncing".into());
                }
                s.outstanding -= 1;
                if s.outstanding > 0 {
                    // the answer to the sync that was overtaken by a re-sync: the remote is still
                    // waiting for the answer to its latest request
                    return Ok(true);
                }
                // consistent snapshot: every key holds a state it was in during the sync window
                for k in KEYS.iter().cloned().filter(|_| self.check_snapshot) {
                    let have = s.replica.get(&k).cloned();
                    let ok = s.window.get(&k).map(|w| w.contains(&have)).unwrap_or(have.is_none());
                    if !ok {
                        return Err(format!(
                            "law=sync_snapshot_consistent link={}{} : at Synced key {} is {:?} but during the sync it was only ever {:?}",
                            if self.implicit_link { "implicit" } else { "explicit" },
                            if s.clear_pending_at_sync { " (a Clear event was still queued when the sync started)" } else { "" },
                            k,
                            have,
                            s.window.get(&k)
                        ));
                    }
                }
                s.phase = Phase::Synced;
            }
        }
        Ok(true)
    }

    fn key(&self) -> String {
        let content: BTreeMap<i32, i32> = self.real.get_map(|m| m.iter().map(|(k, v)| (*k, *v)).collect());
        // `queue()` needs &mut; the key is computed on a rebuilt simulation so this is fine
        let mut s = format!("c={:?};o={:?};", content, self.observer);
        for (i, sy) in self.syncers.iter().enumerate() {
            s.push_str(&format!("s{}={:?}/{:?}/{:?}/{}/{};", i, sy.phase, sy.replica, sy.window, self.syncer_linked[i], sy.outstanding));
        }
        s
    }
}

fn own(op: MapOperation<i32, &i32>) -> MapOperation<i32, i32> {
    match op {
        MapOperation::Update { key, value } => MapOperation::Update { key, value: *value },
        MapOperation::Remove { key } => MapOperation::Remove { key },
        MapOperation::Clear => MapOperation::Clear,
    }
}

fn fold(rep: &mut BTreeMap<i32, i32>, op: &MapOperation<i32, i32>) {
    match op {
        MapOperation::Update { key, value } => {
            rep.insert(*key, *value);
        }
        MapOperation::Remove { key } => {
            rep.remove(key);
        }
        MapOperation::Clear => rep.clear(),
    }
}

fn build_agent(hist: &[AOp], implicit: bool, head_epoch: usize) -> Result<ASim, String> {
    let mut sim = ASim::new(implicit, head_epoch);
    for op in hist {
        sim.apply(op)?;
    }
    Ok(sim)
}

fn agent_key(hist: &[AOp], implicit: bool, head_epoch: usize) -> String {
    let mut sim = build_agent(hist, implicit, head_epoch).expect("key of a valid history");
    let qk = sim.real.queue().verif_key();
    format!("{}{}", sim.key(), qk)
}

/// Drain from the state reached by `hist`: every replica must equal the map.
fn agent_drain(hist: &[AOp], implicit: bool, head_epoch: usize) -> Result<(), String> {
    let mut sim = build_agent(hist, implicit, head_epoch)?;
    let mut n = 0;
    while sim.pop()? {
        n += 1;
        if n > 200 {
            return Err("law=drain_terminates: more than 200 pops without emptying the queues".into());
        }
    }
    if sim.observer != sim.truth {
        return Err(format!("law=linked_replica_converges: after draining, the linked observer holds {:?} but the map is {:?}", sim.observer, sim.truth));
    }
    for (i, s) in sim.syncers.iter().enumerate() {
        match s.phase {
            Phase::NotStarted => {}
            Phase::Syncing => return Err(format!("law=sync_completes: syncer {} never received Synced", i)),
            Phase::Synced => {
                if s.replica != sim.truth {
                    return Err(format!(
                        "law=synced_replica_converges link={}: after draining, syncer {} holds {:?} but the map is {:?}",
                        if implicit { "implicit" } else { "explicit" },
                        i,
                        s.replica,
                        sim.truth
                    ));
                }
            }
        }
    }
    Ok(())
}

fn agent_enabled(hist: &[AOp]) -> Vec<AOp> {
    let mut v = vec![];
    for k in KEYS {
        for x in [1, 2] {
            v.push(AOp::Upd(k, x));
        }
    }
    for k in KEYS {
        v.push(AOp::Rem(k));
    }
    v.push(AOp::Clr);
    for i in 0..2u8 {
        // one sync per remote per history (a second sync of the same remote would need the first to finish)
        let synced_once = hist.iter().any(|o| matches!(o, AOp::Sync(j) | AOp::SyncP(j, _) if *j == i));
        if synced_once && !hist.iter().any(|o| *o == AOp::Resync(i)) {
            // (whether the first sync is still in progress is decided when the history is built:
            // a re-sync after it completed is an ordinary second sync and equally legal)
            v.push(AOp::Resync(i));
        }
        if !synced_once {
            v.push(AOp::Sync(i));
            let mut content: BTreeSet<i32> = BTreeSet::new();
            for o in hist {
                match o {
                    AOp::Upd(k, _) => {
                        content.insert(*k);
                    }
                    AOp::Rem(k) => {
                        content.remove(k);
                    }
                    AOp::Clr => content.clear(),
                    _ => {}
                }
            }
            let perms: usize = (1..=content.len()).product();
            for p in 1..perms {
                v.push(AOp::SyncP(i, p as u8));
            }
        }
    }
    v.push(AOp::Pop);
    v
}

fn law_of(msg: &str) -> String {
    msg.split(" : ").next().unwrap_or(msg).split(": ").next().unwrap_or(msg).trim().to_string()
}

fn run_agent_leg(ctx: &Ctx, implicit: bool, head_epoch: usize, depth: usize, name: &str) {
    let t0 = Instant::now();
    let stats = bfs_classified(
        Vec::<AOp>::new(),
        |h| agent_enabled(h),
        |h, op| {
            let mut h2 = h.clone();
            h2.push(op.clone());
            build_agent(&h2, implicit, head_epoch)?;
            Ok(h2)
        },
        |h| agent_key(h, implicit, head_epoch),
        |h| agent_drain(h, implicit, head_epoch),
        law_of,
        depth,
        3_000_000,
        vcommon::ncpu(),
    );
    for (path, msg) in &stats.violations {
        let sig = format!("{}: {}", if implicit { "mapq-agent(sync without link)" } else { "mapq-agent" }, law_of(msg));
        ctx.violation(
            name,
            &sig,
            json!({"ops": path, "implicit_link": implicit, "head_epoch": head_epoch, "explanation": msg,
                   "what": format!("after {:?}: {}", path, msg)}),
        );
    }
    ctx.add_leg(Leg {
        name: name.into(),
        engine: "E2-space".into(),
        states: stats.states,
        transitions: stats.transitions,
        evaluations: stats.transitions,
        distinct_nontrivial: stats.states.saturating_sub(1),
        rule: "BFS over operation histories de-duplicated by the canonical key (map content, WriteQueues::verif_key, replicas, sync windows); every state is drained; non-trivial = distinct reachable states other than the initial one".into(),
        samples: stats.sample_paths.iter().map(|p| json!(format!("{:?}", p))).collect(),
        exhaustive: !stats.capped,
        bounds: json!({"depth": depth, "depth_reached": stats.depth_reached, "fixpoint": stats.fixpoint, "keys": 3, "values": 2, "syncers": 2,
                       "implicit_link_rule": implicit, "head_epoch_start": head_epoch}),
        wall_s: t0.elapsed().as_secs_f64(),
    });
}

// ------------------------------------------------------------------------------------------
// runtime side: MapOperationQueue with Recon-equal textual keys
// ------------------------------------------------------------------------------------------

#[derive(Clone, Debug, PartialEq, Eq, Hash, serde::Serialize, serde::Deserialize)]
pub enum ROp {
    Upd(u8, u8),
    Rem(u8),
    Clr,
    Pop,
    /// an update (0) / remove (1) whose key is not UTF-8: refused, and the queue is as it was
    Bad(u8),
}

/// key texts: (text, bucket) - texts in one bucket are Recon-equal, different buckets are not
const RKEYS: [(&str, u8); 6] = [("1", 0), ("1 ", 0), ("@a{}", 1), ("@a", 1), ("\"b\"", 2), ("b", 2)];
const RVALS: [&str; 2] = ["x", "y"];

fn bucket_of(text: &[u8]) -> Result<u8, String> {
    let t = std::str::from_utf8(text).map_err(|e| e.to_string())?;
    RKEYS.iter().find(|(k, _)| *k == t).map(|(_, b)| *b).ok_or_else(|| format!("law=popped_key_was_pushed: popped key {:?} was never pushed", t))
}

struct RSim {
    real: MapOperationQueue,
    truth: BTreeMap<u8, String>,
    replica: BTreeMap<u8, String>,
}

impl RSim {
    fn new(head_epoch: usize) -> RSim {
        RSim { real: MapOperationQueue::verif_with_head_epoch(head_epoch), truth: BTreeMap::new(), replica: BTreeMap::new() }
    }
    fn apply(&mut self, op: &ROp) -> Result<(), String> {
        match op {
            ROp::Upd(k, v) => {
                let (kt, b) = RKEYS[*k as usize];
                self.real
                    .push(MapOperation::Update { key: BytesMut::from(kt.as_bytes()), value: BytesMut::from(RVALS[*v as usize].as_bytes()) })
                    .map_err(|e| format!("law=valid_key_accepted: {}", e))?;
                self.truth.insert(b, RVALS[*v as usize].to_string());
            }
            ROp::Rem(k) => {
                let (kt, b) = RKEYS[*k as usize];
                self.real.push(MapOperation::Remove { key: BytesMut::from(kt.as_bytes()) }).map_err(|e| format!("law=valid_key_accepted: {}", e))?;
                self.truth.remove(&b);
            }
            ROp::Clr => {
                self.real.push(MapOperation::Clear).map_err(|e| format!("law=valid_key_accepted: {}", e))?;
                self.truth.clear();
            }
            ROp::Pop => {
                self.pop()?;
            }
            ROp::Bad(w) => {
                let key = BytesMut::from(&[0xffu8, 0xfe][..]);
                let op = if *w == 0 { MapOperation::Update { key, value: BytesMut::from(RVALS[0].as_bytes()) } } else { MapOperation::Remove { key } };
                let _ = self.real.push(op);
            }
        }
        Ok(())
    }
    fn pop(&mut self) -> Result<bool, String> {
        match self.real.pop() {
            None => Ok(false),
            Some(MapOperation::Update { key, value }) => {
                let b = bucket_of(&key)?;
                self.replica.insert(b, String::from_utf8_lossy(&value).to_string());
                Ok(true)
            }
            Some(MapOperation::Remove { key }) => {
                let b = bucket_of(&key)?;
                self.replica.remove(&b);
                Ok(true)
            }
            Some(MapOperation::Clear) => {
                self.replica.clear();
                Ok(true)
            }
        }
    }
}

fn build_rt(hist: &[ROp], head_epoch: usize) -> Result<RSim, String> {
    let mut sim = RSim::new(head_epoch);
    for op in hist {
        sim.apply(op)?;
    }
    Ok(sim)
}

fn rt_drain(hist: &[ROp], head_epoch: usize) -> Result<(), String> {
    let mut sim = build_rt(hist, head_epoch)?;
    let mut n = 0;
    while sim.pop()? {
        n += 1;
        if n > 200 {
            return Err("law=drain_terminates: queue never empties".into());
        }
    }
    if !sim.real.is_empty() {
        return Err("law=drain_terminates: pop returned None but the queue is not empty".into());
    }
    if sim.replica != sim.truth {
        return Err(format!("law=replica_converges: after draining the replica is {:?} but the operations imply {:?}", sim.replica, sim.truth));
    }
    Ok(())
}

fn run_rt_leg(ctx: &Ctx, head_epoch: usize, depth: usize, name: &str) {
    let t0 = Instant::now();
    let mut alpha = vec![];
    for k in 0..6u8 {
        for v in 0..2u8 {
            alpha.push(ROp::Upd(k, v));
        }
    }
    for k in 0..6u8 {
        alpha.push(ROp::Rem(k));
    }
    alpha.push(ROp::Clr);
    alpha.push(ROp::Pop);
    alpha.push(ROp::Bad(0));
    alpha.push(ROp::Bad(1));
    let stats = bfs_classified(
        Vec::<ROp>::new(),
        |_| alpha.clone(),
        |h, op| {
            let mut h2 = h.clone();
            h2.push(op.clone());
            build_rt(&h2, head_epoch)?;
            Ok(h2)
        },
        |h| {
            let sim = build_rt(h, head_epoch).expect("valid");
            format!("{};t={:?};r={:?}", sim.real.verif_key(), sim.truth, sim.replica)
        },
        |h| rt_drain(h, head_epoch),
        law_of,
        depth,
        3_000_000,
        vcommon::ncpu(),
    );
    for (path, msg) in &stats.violations {
        ctx.violation(
            name,
            &format!("mapq-runtime: {}", law_of(msg)),
            json!({"ops": path, "head_epoch": head_epoch, "explanation": msg, "what": format!("after {:?}: {}", path, msg)}),
        );
    }
    ctx.add_leg(Leg {
        name: name.into(),
        engine: "E2-space".into(),
        states: stats.states,
        transitions: stats.transitions,
        evaluations: stats.transitions,
        distinct_nontrivial: stats.states.saturating_sub(1),
        rule: "BFS over operation histories de-duplicated by MapOperationQueue::verif_key + reference + replica; every state is drained; keys are six texts forming three Recon-equal pairs".into(),
        samples: stats.sample_paths.iter().map(|p| json!(format!("{:?}", p))).collect(),
        exhaustive: !stats.capped,
        bounds: json!({"depth": depth, "depth_reached": stats.depth_reached, "fixpoint": stats.fixpoint, "head_epoch_start": head_epoch}),
        wall_s: t0.elapsed().as_secs_f64(),
    });
}

pub fn run(ctx: &Ctx) {
    if vcommon::sched::is_worker() {
        return;
    }
    let quick = ctx.quick();
    let d = if quick { 6 } else { 8 };
    run_agent_leg(ctx, false, 0, d, "mapq-agent");
    run_agent_leg(ctx, false, usize::MAX - 2, d - 1, "mapq-agent-wrap");
    run_rt_leg(ctx, usize::MAX - 2, if quick { 5 } else { 7 }, "mapq-runtime-wrap");
    run_rt_leg(ctx, 0, if quick { 5 } else { 6 }, "mapq-runtime");
}

/// Runtime-side relief queue only (used by C07: what a slow downlink connection drops).
pub fn run_runtime(ctx: &Ctx) {
    if vcommon::sched::is_worker() {
        return;
    }
    let quick = ctx.quick();
    run_rt_leg(ctx, usize::MAX - 2, if quick { 5 } else { 7 }, "mapq-runtime-wrap");
    run_rt_leg(ctx, 0, if quick { 5 } else { 6 }, "mapq-runtime");
}

/// Sync-consistency variant used by C03 (both link rules).
pub fn run_sync(ctx: &Ctx) {
    if vcommon::sched::is_worker() {
        return;
    }
    CHECK_SNAPSHOT.store(true, std::sync::atomic::Ordering::Relaxed);
    let quick = ctx.quick();
    let d = if quick { 6 } else { 8 };
    run_agent_leg(ctx, false, 0, d, "mapq-sync-explicit-link");
    run_agent_leg(ctx, true, 0, d, "mapq-sync-implicit-link");
}

pub fn replay(ctx: &Ctx, r: &serde_json::Value) {
    let d = &r["detail"];
    let he = d["head_epoch"].as_u64().unwrap_or(0) as usize;
    let leg = r["leg"].as_str().unwrap_or("");
    let res = if leg.starts_with("mapq-runtime") {
        let ops: Vec<ROp> = serde_json::from_value(d["ops"].clone()).unwrap();
        build_rt(&ops, he).map(|_| ()).and_then(|_| rt_drain(&ops, he))
    } else {
        let ops: Vec<AOp> = serde_json::from_value(d["ops"].clone()).unwrap();
        let imp = d["implicit_link"].as_bool().unwrap_or(false);
        build_agent(&ops, imp, he).map(|_| ()).and_then(|_| agent_drain(&ops, imp, he))
    };
    if let Err(e) = res {
        println!("REPRODUCED: {}", e);
        ctx.violation(leg, r["signature"].as_str().unwrap(), d.clone());
    }
}

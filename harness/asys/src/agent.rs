//! The test agent of the agent-system harness ("AS"): declared with the repository's own derive
//! macros, driven through the public API only. Lifecycle callbacks append to a shared ground-truth
//! log ("the values the lanes actually held").

use parking_lot::Mutex;
use std::sync::atomic::{AtomicU64, Ordering};
use std::sync::Arc;
use swimos::agent::{
    agent_lifecycle::HandlerContext,
    event_handler::{EventHandler, HandlerActionExt, SendCommand, Sequentially},
    lanes::{CommandLane, MapLane, SupplyLane, ValueLane},
    lifecycle, projections,
    stores::{MapStore, ValueStore},
    AgentLaneModel,
};
use swimos_api::address::Address;
use swimos_form::Form;

/// One primitive action a command to lane `c` asks the agent's handler to perform.
#[derive(Form, Clone, Debug, PartialEq, Eq)]
pub enum Simple {
    #[form(tag = "setv")]
    SetV(#[form(header_body)] i32),
    #[form(tag = "setw")]
    SetW(#[form(header_body)] i32),
    #[form(tag = "sett")]
    SetT(#[form(header_body)] i32),
    #[form(tag = "upd")]
    Upd { k: i32, v: i32 },
    #[form(tag = "rem")]
    Rem(#[form(header_body)] i32),
    #[form(tag = "clr")]
    Clr,
    #[form(tag = "push")]
    Push(#[form(header_body)] i32),
    #[form(tag = "setvs")]
    SetVs(#[form(header_body)] i32),
    /// only the pair agent (`agent2`) has the store `ws`
    #[form(tag = "setws")]
    SetWs(#[form(header_body)] i32),
    #[form(tag = "updms")]
    UpdMs { k: i32, v: i32 },
    #[form(tag = "remms")]
    RemMs(#[form(header_body)] i32),
    #[form(tag = "clrms")]
    ClrMs,
    #[form(tag = "send")]
    Send { node: String, lane: String, value: i32, ow: bool },
    /// send to a lane on a remote host: all lanes of one host share one output channel
    #[form(tag = "sendh")]
    SendH { host: String, node: String, lane: String, value: i32, ow: bool },
    #[form(tag = "fail")]
    Fail,
    /// only the pair agent has the optional lane `o`
    #[form(tag = "seto")]
    SetO(#[form(header_body)] i32),
    #[form(tag = "clro")]
    ClrO,
    /// only the pair agent has the map lane `om` with optional values: `updom` stores `Some(v)`,
    /// `nilom` stores `None` (the empty encoding) under the key
    #[form(tag = "updom")]
    UpdOm { k: i32, v: i32 },
    #[form(tag = "nilom")]
    NilOm(#[form(header_body)] i32),
    #[form(tag = "remom")]
    RemOm(#[form(header_body)] i32),
    /// create a registered commander for a lane of a local node and keep it under `name`
    #[form(tag = "mkc")]
    MkC { name: String, node: String, lane: String },
    /// send through a registered commander (`c0` is created in on_start); ow: `send` (may be
    /// superseded) or `send_queued`
    #[form(tag = "sendc")]
    SendC { name: String, value: i32, ow: bool },
    /// set lane `v` from a timer of the agent itself, `d` tenths of the inactivity timeout from now
    #[form(tag = "laterv")]
    LaterV { d: i32, v: i32 },
}

/// A command to lane `c`: a sequence of primitive actions executed by one handler.
#[derive(Form, Clone, Debug, PartialEq, Eq)]
#[form(tag = "act")]
pub struct Act {
    pub ops: Vec<Simple>,
}

#[projections]
#[derive(AgentLaneModel)]
pub struct TestAgent {
    v: ValueLane<i32>,
    w: ValueLane<i32>,
    m: MapLane<i32, i32>,
    s: SupplyLane<i32>,
    c: CommandLane<Act>,
    k: CommandLane<i32>,
    vs: ValueStore<i32>,
    ms: MapStore<i32, i32>,
    #[item(transient)]
    t: ValueLane<i32>,
}

/// One entry of the ground truth log.
#[derive(Clone, Debug, PartialEq, Eq)]
pub enum Truth {
    Start { v: i32, w: i32, t: i32, vs: i32, m: Vec<(i32, i32)>, ms: Vec<(i32, i32)> },
    Stop,
    Value { lane: &'static str, new: i32, prev: Option<i32> },
    MapUpdate { lane: &'static str, key: i32, new: i32, prev: Option<i32> },
    MapRemove { lane: &'static str, key: i32, prev: i32 },
    MapClear { lane: &'static str, before: Vec<(i32, i32)> },
    Command { lane: &'static str, value: String },
    Push(i32),
    Sent { node: String, lane: String, value: i32, ow: bool },
    /// Free-form entry for harnesses that bring their own agent (see `world::set_agent_factory`).
    Custom(String),
}

#[derive(Default)]
pub struct TruthLog {
    /// (harness step at which the callback ran, entry)
    pub entries: Mutex<Vec<(u64, Truth)>>,
    pub step: AtomicU64,
}

impl TruthLog {
    pub fn push(&self, t: Truth) {
        let s = self.step.load(Ordering::SeqCst);
        self.entries.lock().push((s, t));
    }
}

#[derive(Clone)]
pub struct TestLifecycle {
    pub log: Arc<TruthLog>,
    /// registered commanders by name: (commander, node, lane)
    pub cmdrs: Arc<Mutex<std::collections::HashMap<String, (swimos::agent::commander::Commander<TestAgent>, String, String)>>>,
}

fn sorted(m: &std::collections::HashMap<i32, i32>) -> Vec<(i32, i32)> {
    let mut v: Vec<(i32, i32)> = m.iter().map(|(k, v)| (*k, *v)).collect();
    v.sort();
    v
}

#[lifecycle(TestAgent)]
impl TestLifecycle {
    #[on_start]
    pub fn on_start(&self, context: HandlerContext<TestAgent>) -> impl EventHandler<TestAgent> {
        let log = self.log.clone();
        context
            .get_value(TestAgent::V)
            .and_then(move |v| context.get_value(TestAgent::W).map(move |w| (v, w)))
            .and_then(move |(v, w)| context.get_value(TestAgent::T).map(move |t| (v, w, t)))
            .and_then(move |(v, w, t)| context.get_value(TestAgent::VS).map(move |vs| (v, w, t, vs)))
            .and_then(move |(v, w, t, vs)| context.get_map(TestAgent::M).map(move |m| (v, w, t, vs, sorted(&m))))
            .and_then(move |(v, w, t, vs, m)| context.get_map(TestAgent::MS).map(move |ms| (v, w, t, vs, m, sorted(&ms))))
            .and_then(move |(v, w, t, vs, m, ms)| {
                context.effect(move || {
                    log.push(Truth::Start { v, w, t, vs, m, ms });
                })
            })
            .followed_by({
                // one commander exists from the start of the agent
                let reg = self.cmdrs.clone();
                context.create_commander(None, "/t0", "x").and_then(move |c| context.effect(move || {
                    reg.lock().insert("c0".to_string(), (c, "/t0".to_string(), "x".to_string()));
                }))
            })
    }

    #[on_stop]
    pub fn on_stop(&self, context: HandlerContext<TestAgent>) -> impl EventHandler<TestAgent> {
        let log = self.log.clone();
        context.effect(move || log.push(Truth::Stop))
    }

    #[on_set(v)]
    pub fn on_set_v(&self, context: HandlerContext<TestAgent>, new: &i32, prev: Option<i32>) -> impl EventHandler<TestAgent> {
        let (log, new) = (self.log.clone(), *new);
        context.effect(move || log.push(Truth::Value { lane: "v", new, prev }))
    }

    #[on_set(w)]
    pub fn on_set_w(&self, context: HandlerContext<TestAgent>, new: &i32, prev: Option<i32>) -> impl EventHandler<TestAgent> {
        let (log, new) = (self.log.clone(), *new);
        context.effect(move || log.push(Truth::Value { lane: "w", new, prev }))
    }

    #[on_set(t)]
    pub fn on_set_t(&self, context: HandlerContext<TestAgent>, new: &i32, prev: Option<i32>) -> impl EventHandler<TestAgent> {
        let (log, new) = (self.log.clone(), *new);
        context.effect(move || log.push(Truth::Value { lane: "t", new, prev }))
    }

    #[on_set(vs)]
    pub fn on_set_vs(&self, context: HandlerContext<TestAgent>, new: &i32, prev: Option<i32>) -> impl EventHandler<TestAgent> {
        let (log, new) = (self.log.clone(), *new);
        context.effect(move || log.push(Truth::Value { lane: "vs", new, prev }))
    }

    #[on_update(m)]
    pub fn on_update_m(
        &self,
        context: HandlerContext<TestAgent>,
        _map: &std::collections::HashMap<i32, i32>,
        key: i32,
        prev: Option<i32>,
        new: &i32,
    ) -> impl EventHandler<TestAgent> {
        let (log, new) = (self.log.clone(), *new);
        context.effect(move || log.push(Truth::MapUpdate { lane: "m", key, new, prev }))
    }

    #[on_remove(m)]
    pub fn on_remove_m(
        &self,
        context: HandlerContext<TestAgent>,
        _map: &std::collections::HashMap<i32, i32>,
        key: i32,
        prev: i32,
    ) -> impl EventHandler<TestAgent> {
        let log = self.log.clone();
        context.effect(move || log.push(Truth::MapRemove { lane: "m", key, prev }))
    }

    #[on_clear(m)]
    pub fn on_clear_m(&self, context: HandlerContext<TestAgent>, before: std::collections::HashMap<i32, i32>) -> impl EventHandler<TestAgent> {
        let log = self.log.clone();
        context.effect(move || log.push(Truth::MapClear { lane: "m", before: sorted(&before) }))
    }

    #[on_update(ms)]
    pub fn on_update_ms(
        &self,
        context: HandlerContext<TestAgent>,
        _map: &std::collections::HashMap<i32, i32>,
        key: i32,
        prev: Option<i32>,
        new: &i32,
    ) -> impl EventHandler<TestAgent> {
        let (log, new) = (self.log.clone(), *new);
        context.effect(move || log.push(Truth::MapUpdate { lane: "ms", key, new, prev }))
    }

    #[on_remove(ms)]
    pub fn on_remove_ms(
        &self,
        context: HandlerContext<TestAgent>,
        _map: &std::collections::HashMap<i32, i32>,
        key: i32,
        prev: i32,
    ) -> impl EventHandler<TestAgent> {
        let log = self.log.clone();
        context.effect(move || log.push(Truth::MapRemove { lane: "ms", key, prev }))
    }

    #[on_clear(ms)]
    pub fn on_clear_ms(&self, context: HandlerContext<TestAgent>, before: std::collections::HashMap<i32, i32>) -> impl EventHandler<TestAgent> {
        let log = self.log.clone();
        context.effect(move || log.push(Truth::MapClear { lane: "ms", before: sorted(&before) }))
    }

    #[on_command(k)]
    pub fn on_command_k(&self, context: HandlerContext<TestAgent>, value: &i32) -> impl EventHandler<TestAgent> {
        let (log, value) = (self.log.clone(), *value);
        context.effect(move || log.push(Truth::Command { lane: "k", value: value.to_string() }))
    }

    #[on_command(c)]
    pub fn on_command_c(&self, context: HandlerContext<TestAgent>, act: &Act) -> impl EventHandler<TestAgent> {
        let log = self.log.clone();
        let descr = format!("{:?}", act.ops);
        let mut handlers: Vec<Box<dyn EventHandler<TestAgent> + Send>> = vec![];
        {
            let log = log.clone();
            handlers.push(Box::new(context.effect(move || log.push(Truth::Command { lane: "c", value: descr }))));
        }
        for op in act.ops.iter().cloned() {
            let log = log.clone();
            let h: Box<dyn EventHandler<TestAgent> + Send> = match op {
                Simple::SetV(x) => Box::new(context.set_value(TestAgent::V, x)),
                Simple::SetW(x) => Box::new(context.set_value(TestAgent::W, x)),
                Simple::SetT(x) => Box::new(context.set_value(TestAgent::T, x)),
                Simple::Upd { k, v } => Box::new(context.update(TestAgent::M, k, v)),
                Simple::Rem(k) => Box::new(context.remove(TestAgent::M, k)),
                Simple::Clr => Box::new(context.clear(TestAgent::M)),
                Simple::Push(x) => Box::new(context.supply(TestAgent::S, x).followed_by(context.effect(move || log.push(Truth::Push(x))))),
                Simple::SetVs(x) => Box::new(context.set_value(TestAgent::VS, x)),
                Simple::SetWs(_) | Simple::SetO(_) | Simple::ClrO | Simple::UpdOm { .. } | Simple::NilOm(_) | Simple::RemOm(_) => Box::new(context.effect(|| ())),
                Simple::UpdMs { k, v } => Box::new(context.update(TestAgent::MS, k, v)),
                Simple::RemMs(k) => Box::new(context.remove(TestAgent::MS, k)),
                Simple::ClrMs => Box::new(context.clear(TestAgent::MS)),
                Simple::Send { node, lane, value, ow } => {
                    let addr = Address::new(None, node.clone(), lane.clone());
                    Box::new(
                        SendCommand::new(addr, value, ow)
                            .followed_by(context.effect(move || log.push(Truth::Sent { node, lane, value, ow }))),
                    )
                }
                Simple::SendH { host, node, lane, value, ow } => {
                    let addr = Address::new(Some(host.clone()), node.clone(), lane.clone());
                    Box::new(
                        SendCommand::new(addr, value, ow)
                            .followed_by(context.effect(move || log.push(Truth::Sent { node, lane, value, ow }))),
                    )
                }
                Simple::MkC { name, node, lane } => {
                    let reg = self.cmdrs.clone();
                    Box::new(context.create_commander(None, &node, &lane).and_then(move |c| context.effect(move || {
                        reg.lock().insert(name, (c, node, lane));
                    })))
                }
                Simple::SendC { name, value, ow } => {
                    let reg = self.cmdrs.clone();
                    Box::new(context.effect(move || reg.lock().get(&name).cloned()).and_then(move |entry: Option<(swimos::agent::commander::Commander<TestAgent>, String, String)>| {
                        let h: Box<dyn EventHandler<TestAgent> + Send> = match entry {
                            Some((c, node, lane)) => {
                                if ow {
                                    Box::new(c.send(value).followed_by(context.effect(move || log.push(Truth::Sent { node, lane, value, ow }))))
                                } else {
                                    Box::new(c.send_queued(value).followed_by(context.effect(move || log.push(Truth::Sent { node, lane, value, ow }))))
                                }
                            }
                            None => Box::new(context.effect(|| ())),
                        };
                        h
                    }))
                }
                Simple::LaterV { d, v } => Box::new(context.run_after(std::time::Duration::from_secs(3) * (d.max(0) as u32), context.set_value(TestAgent::V, v))),
                Simple::Fail => Box::new(context.fail::<(), _>(std::io::Error::new(std::io::ErrorKind::Other, "requested failure"))),
            };
            handlers.push(h);
        }
        Sequentially::new(handlers)
    }
}

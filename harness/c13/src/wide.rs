//! Leg `wide-ids` (E4): isolation between items whose numeric ids sit at the byte boundaries of
//! the id encoding. A plane hands out ids 1, 2, 3, ... to (node, name) pairs; the RocksDB store
//! serialises them into its keys, so mistakes in key bounds only show between ids that differ in
//! a higher byte (k and k + 256, ids with a low byte of 0xFF, ...). The ordinary legs never create
//! more than a handful of items.
//!
//! Every item at a boundary id is given a value and three map entries; then, for every target id
//! and every destructive operation (clear_map, delete_value, remove_map of one key), the operation
//! is applied to the target alone and every other boundary item is read back in full.

use serde_json::json;
use std::collections::BTreeMap;
use std::time::Instant;
use swimos_api::error::StoreError;
use swimos_api::persistence::{NodePersistence, PlanePersistence, RangeConsumer, ServerPersistence};
use vcommon::{Ctx, Leg};

type State = (Option<Vec<u8>>, BTreeMap<Vec<u8>, Vec<u8>>);

fn read_item<N: NodePersistence>(node: &N, id: N::LaneId, with_value: bool) -> Result<State, StoreError> {
    let mut buf = bytes::BytesMut::new();
    let v = if with_value { node.get_value(id, &mut buf)?.map(|_| buf.to_vec()) } else { None };
    let mut m = BTreeMap::new();
    let mut c = node.read_map(id)?;
    while let Some((k, val)) = c.consume_next()? {
        m.insert(k.to_vec(), val.to_vec());
        if m.len() > 64 {
            break;
        }
    }
    Ok((v, m))
}

fn fill<N: NodePersistence>(node: &mut N, id: N::LaneId, tag: u64, with_value: bool) -> Result<State, StoreError> {
    let v = format!("v{}", tag).into_bytes();
    if with_value {
        node.put_value(id, &v)?;
    }
    let mut m = BTreeMap::new();
    for k in [&b""[..], &b"\x00"[..], &b"k"[..], &[0xffu8, 0xff][..]] {
        // (the empty key is left out for stores that reject it)
        if k.is_empty() {
            continue;
        }
        let val = format!("m{}", tag).into_bytes();
        node.update_map(id, k, &val)?;
        m.insert(k.to_vec(), val);
    }
    Ok((if with_value { Some(v) } else { None }, m))
}

pub struct Found {
    pub sig: String,
    pub detail: serde_json::Value,
}

/// `n_ids`: how many ids are allocated (the boundaries below that count are exercised).
pub fn run_on<S: ServerPersistence>(server: &S, store: &str, n_ids: u64, with_value: bool, found: &mut Vec<Found>) -> Result<(u64, u64), StoreError>
where
    <<S::PlaneStore as PlanePersistence>::Node as NodePersistence>::LaneId: std::fmt::Debug + Copy + PartialEq,
{
    let plane = server.open_plane("plane")?;
    let acquire = |uri: &str| -> Result<_, StoreError> {
        let mut fut = plane.node_store(uri);
        let w = futures::task::noop_waker();
        let mut cx = std::task::Context::from_waker(&w);
        match fut.as_mut().poll(&mut cx) {
            std::task::Poll::Ready(r) => r,
            std::task::Poll::Pending => Err(StoreError::DelegateMessage("node_store pending".into())),
        }
    };
    let mut nodes = [acquire("/a")?, acquire("/b")?];
    // allocate ids: alternate between two agents so that neighbours in id space belong to different agents
    let boundaries: Vec<u64> = [1u64, 2, 254, 255, 256, 257, 258, 511, 512, 513, 767, 768, 65535, 65536, 65537, 65791, 65792, 131071, 131072]
        .into_iter()
        .filter(|b| *b <= n_ids)
        .collect();
    let mut at: BTreeMap<u64, (usize, _)> = BTreeMap::new();
    for i in 1..=n_ids {
        let a = (i % 2) as usize;
        let id = nodes[a].id_for(&format!("n{}", i))?;
        if boundaries.contains(&i) {
            at.insert(i, (a, id));
        }
    }
    let mut evals = 0u64;
    let mut calls = n_ids;
    let mut expect: BTreeMap<u64, State> = BTreeMap::new();
    for (i, (a, id)) in &at {
        expect.insert(*i, fill(&mut nodes[*a], *id, *i, with_value)?);
        calls += 4;
    }
    let mut add = |found: &mut Vec<Found>, law: &str, op: &str, target: u64, other: Option<u64>, what: String| {
        let delta = other.map(|o| if o > target { format!("+{}", o - target) } else { format!("-{}", target - o) }).unwrap_or_else(|| "self".into());
        let low = target & 0xff;
        let sig = format!("store={} law={} op={} target_low_byte={} other_at={}", store, law, op, if low == 0xff { "0xff" } else if low == 0 { "0x00" } else { "other" }, delta);
        if !found.iter().any(|f| f.sig == sig) {
            found.push(Found { sig, detail: json!({"kind": "wide", "store": store, "n_ids": n_ids, "op": op, "target": target, "other": other, "what": what, "explanation": what}) });
        }
    };
    for (t, (ta, tid)) in &at {
        for op in ["clear_map", "delete_value", "remove_map"] {
            if op == "delete_value" && !with_value {
                continue;
            }
            evals += 1;
            let r = match op {
                "clear_map" => nodes[*ta].clear_map(*tid),
                "delete_value" => nodes[*ta].delete_value(*tid),
                _ => nodes[*ta].remove_map(*tid, b"k"),
            };
            calls += 1;
            if let Err(e) = &r {
                add(found, "op_result", op, *t, None, format!("{} on the item with id {} failed: {:?}", op, t, e));
            }
            // what the target should hold now
            let mut want = expect[t].clone();
            if r.is_ok() {
                match op {
                    "clear_map" => want.1.clear(),
                    "delete_value" => want.0 = None,
                    _ => {
                        want.1.remove(&b"k"[..]);
                    }
                }
            }
            for (o, (oa, oid)) in &at {
                let w = if o == t { &want } else { &expect[o] };
                calls += 2;
                match read_item(&nodes[*oa], *oid, with_value) {
                    Ok(got) => {
                        if &got != w {
                            add(
                                found,
                                if o == t { "read_equals_reference" } else { "item_isolation" },
                                op,
                                *t,
                                if o == t { None } else { Some(*o) },
                                format!("after {} on id {} the item with id {} holds {:?}, expected {:?}", op, t, o, got, w),
                            );
                        }
                    }
                    Err(e) => add(found, "read_result", op, *t, if o == t { None } else { Some(*o) }, format!("after {} on id {} reading id {} failed: {:?}", op, t, o, e)),
                }
            }
            // restore the target (and anything damaged) for the next round
            for (o, (oa, oid)) in &at {
                // remove entry by entry (the operations under test are not trusted for the clean-up)
                for k in [&b"\x00"[..], &b"k"[..], &[0xffu8, 0xff][..]] {
                    let _ = nodes[*oa].remove_map(*oid, k);
                }
                match fill(&mut nodes[*oa], *oid, *o, with_value) {
                    Ok(e) => {
                        expect.insert(*o, e);
                    }
                    Err(e) => add(found, "op_result", "put_or_update", *o, None, format!("re-filling the item with id {} failed: {:?}", o, e)),
                }
                calls += 7;
            }
        }
    }
    Ok((evals, calls))
}

pub fn run_leg(ctx: &Ctx, root: &std::path::Path) {
    let n_ids: u64 = if ctx.quick() { 66_000 } else { 132_000 };
    run_leg_sized(ctx, root, "wide-ids", n_ids)
}

/// The same leg under another name and size (C05 runs it over the first byte boundaries: what an
/// agent hands to the store comes back at restart only if the store keeps items apart).
pub fn run_leg_sized(ctx: &Ctx, root: &std::path::Path, name: &str, n_ids: u64) {
    let t0 = Instant::now();
    let mut found: Vec<Found> = vec![];
    let mut evals = 0;
    let mut calls = 0;
    // RocksDB
    let dir = crate::fresh_dir(root, "wide");
    match swimos_rocks_store::open_rocks_store(Some(dir.clone()), crate::exec::rocks_opts(false)) {
        Ok(server) => match run_on(&server, "rocks", n_ids, true, &mut found) {
            Ok((e, c)) => {
                evals += e;
                calls += c;
            }
            Err(e) => vcommon::machinery_failure(&format!("wide-ids (rocks): store call failed outside the operations under test: {:?}", e)),
        },
        Err(e) => vcommon::machinery_failure(&format!("wide-ids: cannot open RocksDB: {:?}", e)),
    }
    let _ = std::fs::remove_dir_all(&dir);
    // in-memory
    match run_on(&crate::exec::MemServer, "mem", 1_000, false, &mut found) {
        Ok((e, c)) => {
            evals += e;
            calls += c;
        }
        Err(e) => vcommon::machinery_failure(&format!("wide-ids (mem): store call failed outside the operations under test: {:?}", e)),
    }
    for f in &found {
        ctx.violation(name, &f.sig, f.detail.clone());
    }
    ctx.add_leg(Leg {
        name: name.into(),
        engine: "E4-enum".into(),
        states: evals,
        transitions: calls,
        evaluations: evals,
        distinct_nontrivial: evals,
        rule: "every (target id at a byte boundary of the id space) x (clear_map, delete_value, remove_map): all other boundary items are read back in full after the operation".into(),
        samples: vec![],
        exhaustive: true,
        bounds: json!({"ids_allocated_rocks": n_ids, "ids_allocated_mem": 1000, "boundary_ids": "1, 2, 254..258, 511..513, 767, 768, 65535..65537, 65791, 65792, 131071, 131072 (those below the number allocated)"}),
        wall_s: t0.elapsed().as_secs_f64(),
    });
}

pub fn replay(ctx: &Ctx, d: &serde_json::Value, root: &std::path::Path) {
    let mut found = vec![];
    let n = d["n_ids"].as_u64().unwrap_or(66_000);
    if d["store"].as_str() == Some("mem") {
        let _ = run_on(&crate::exec::MemServer, "mem", n, false, &mut found);
    } else {
        let dir = crate::fresh_dir(root, "wide-replay");
        if let Ok(server) = swimos_rocks_store::open_rocks_store(Some(dir.clone()), crate::exec::rocks_opts(false)) {
            let _ = run_on(&server, "rocks", n, true, &mut found);
        }
        let _ = std::fs::remove_dir_all(&dir);
    }
    for f in found {
        println!("replay: {} :: {}", f.sig, f.detail["what"]);
        ctx.violation("wide-ids", &f.sig, f.detail);
    }
}

//! C13 - Both stores behave as isolated per-agent, per-item value/map storage.
//!
//! Engine E2 (bounded exhaustive enumeration of operation sequences, smallest first) over the
//! in-memory store (hook re-export) and the RocksDB store (`open_rocks_store`), both driven only
//! through `swimos_api::persistence::{ServerPersistence, PlanePersistence, NodePersistence,
//! RangeConsumer}` and compared with a reference model `Map<(uri, name), Value | Map>`; plus
//! crash-point enumeration for RocksDB (a re-exec'd child is killed at every operation boundary
//! and, with strace fault injection, at every write-family system call).

mod crash;
mod exec;
mod model;
mod wide;

use exec::{final_signature, run_sequence, Backend, Fail, ObsMode, SeqOut};
use model::{op_text, ops_from_json, ops_to_json, Item, Op};
use serde_json::{json, Value};
use std::collections::{BTreeMap, HashSet};
use std::path::PathBuf;
use std::sync::atomic::{AtomicBool, AtomicU64, Ordering};
use std::time::{Duration, Instant};
use vcommon::{Ctx, Leg};

/// One exhaustive family: every sequence over `alphabet` up to `depth`.
pub struct Family {
    pub name: &'static str,
    pub backend: Backend,
    pub items: Vec<Item>,
    pub alphabet: Vec<Op>,
    pub depth: usize,
    pub obs: ObsMode,
    pub cap: Duration,
}

fn it(a: u8, n: u8) -> Item {
    Item { a, n }
}

// key indices (see model::keys): 0 [], 1 [0], 2 [0,0], 3 [255], 4 [255,255], 5 K8, 6 K9
const ALL_KEYS: [u8; 7] = [0, 1, 2, 3, 4, 5, 6];

fn alpha_keys(rocks: bool) -> (Vec<Item>, Vec<Op>) {
    // one map item with the whole key alphabet
    let i1 = it(0, 0); // ("/a","x")
    let mut a = vec![];
    for k in ALL_KEYS {
        a.push(Op::Update(i1, k, 1));
    }
    a.push(Op::Update(i1, 1, 0)); // empty value under key [0]
    for k in [0u8, 1, 5] {
        a.push(Op::Remove(i1, k));
    }
    a.push(Op::Clear(i1));
    if rocks {
        a.push(Op::Reopen);
    } else {
        for m in 0..3 {
            a.push(Op::Reacquire(0, m));
        }
    }
    (vec![i1], a)
}

fn alpha_neighbours(rocks: bool) -> (Vec<Item>, Vec<Op>) {
    // two map items of one agent (adjacent ids, either allocation order); K8 is the id of the
    // second-allocated lane in little-endian, K9 its seek prefix
    let i1 = it(0, 0); // ("/a","x")
    let i2 = it(0, 2); // ("/a","")
    let mut a = vec![];
    for i in [i1, i2] {
        a.push(Op::Update(i, 1, 1));
        a.push(Op::Update(i, 5, 1));
        a.push(Op::Clear(i));
    }
    a.push(Op::Update(i1, 6, 0));
    a.push(Op::Remove(i1, 1));
    if rocks {
        a.push(Op::Reopen);
    } else {
        a.push(Op::Reacquire(0, 0));
    }
    (vec![i1, i2], a)
}

fn alpha_values(rocks: bool) -> (Vec<Item>, Vec<Op>) {
    let items = vec![it(0, 0), it(1, 0), it(0, 3)]; // ("/a","x") ("/a/b","x") ("/a","x\0")
    let mut a = vec![];
    for i in &items {
        a.push(Op::Put(*i, 0));
        a.push(Op::Put(*i, 1));
    }
    for i in &items {
        a.push(Op::Delete(*i));
    }
    if rocks {
        a.push(Op::Reopen);
        a.push(Op::Reacquire(0, 0));
    } else {
        for m in 0..3 {
            a.push(Op::Reacquire(0, m));
        }
    }
    (items, a)
}

fn alpha_mixed(rocks: bool) -> (Vec<Item>, Vec<Op>) {
    // value and map operations on the same items, two agents with the same item name
    let items = vec![it(0, 0), it(2, 0)]; // ("/a","x") ("/b","x")
    let mut a = vec![];
    for i in &items {
        if !rocks {
            a.push(Op::IdFor(*i));
        }
        a.push(Op::Put(*i, 1));
        a.push(Op::Delete(*i));
        a.push(Op::Update(*i, 1, 1));
        a.push(Op::Remove(*i, 1));
        a.push(Op::Clear(*i));
    }
    if rocks {
        a.push(Op::Reopen);
    } else {
        a.push(Op::Reacquire(0, 0));
        a.push(Op::Reacquire(0, 1));
        a.push(Op::Reacquire(2, 2));
    }
    (items, a)
}

fn alpha_names(rocks: bool) -> (Vec<Item>, Vec<Op>) {
    // the pair of section 4 (F8) plus the two "straight" items of the same agents
    let items = vec![it(0, 1), it(1, 0), it(0, 0), it(1, 1)]; // ("/a","b/x") ("/a/b","x") ("/a","x") ("/a/b","b/x")
    let mut a = vec![];
    for i in &items {
        a.push(Op::Put(*i, 1));
        a.push(Op::Update(*i, 1, 1));
        a.push(Op::Delete(*i));
        a.push(Op::Clear(*i));
    }
    if !rocks {
        a.push(Op::Reacquire(0, 0));
    }
    (items, a)
}

fn alpha_reads(_rocks: bool) -> (Vec<Item>, Vec<Op>) {
    // explicit read operations as sequence elements (no implicit observation in between)
    let items = vec![it(0, 0), it(2, 0)];
    let mut a = vec![];
    for i in &items {
        a.push(Op::IdFor(*i));
        a.push(Op::Put(*i, 1));
        a.push(Op::Get(*i));
        a.push(Op::Delete(*i));
        a.push(Op::Update(*i, 1, 1));
        a.push(Op::Remove(*i, 1));
        a.push(Op::Clear(*i));
        a.push(Op::ReadMap(*i));
    }
    (items, a)
}

fn families(quick: bool) -> Vec<Family> {
    let mem = Backend::Mem;
    let rk = Backend::Rocks { default_opts: false };
    let rk_def = Backend::Rocks { default_opts: true };
    let mut f = vec![];
    let cap_m = Duration::from_secs(if quick { 20 } else { 240 });
    let cap_r = Duration::from_secs(if quick { 20 } else { 420 });
    let mut push = |name, backend, (items, alphabet): (Vec<Item>, Vec<Op>), depth, obs, cap| {
        f.push(Family { name, backend, items, alphabet, depth, obs, cap });
    };
    // ---- in-memory store
    push("mem.keys.obs", mem, alpha_keys(false), if quick { 4 } else { 6 }, ObsMode::EachStep, cap_m);
    push("mem.keys.final", mem, alpha_keys(false), if quick { 4 } else { 6 }, ObsMode::FinalOnly, cap_m);
    push("mem.neighbours.obs", mem, alpha_neighbours(false), if quick { 5 } else { 7 }, ObsMode::EachStep, cap_m);
    push("mem.neighbours.final", mem, alpha_neighbours(false), if quick { 5 } else { 7 }, ObsMode::FinalOnly, cap_m);
    push("mem.values.obs", mem, alpha_values(false), if quick { 5 } else { 6 }, ObsMode::EachStep, cap_m);
    push("mem.values.final", mem, alpha_values(false), if quick { 5 } else { 6 }, ObsMode::FinalOnly, cap_m);
    push("mem.mixed.obs", mem, alpha_mixed(false), if quick { 5 } else { 6 }, ObsMode::EachStep, cap_m);
    push("mem.mixed.final", mem, alpha_mixed(false), if quick { 5 } else { 6 }, ObsMode::FinalOnly, cap_m);
    push("mem.names.obs", mem, alpha_names(false), if quick { 4 } else { 5 }, ObsMode::EachStep, cap_m);
    push("mem.reads.final", mem, alpha_reads(false), if quick { 4 } else { 6 }, ObsMode::FinalOnly, cap_m);
    // ---- RocksDB store (every sequence ends with close + reopen + full sweep)
    push("rocks.names.obs", rk, alpha_names(true), if quick { 2 } else { 3 }, ObsMode::EachStep, cap_r);
    push("rocks.keys.obs", rk, alpha_keys(true), if quick { 3 } else { 4 }, ObsMode::EachStep, cap_r);
    push("rocks.neighbours.obs", rk, alpha_neighbours(true), if quick { 3 } else { 4 }, ObsMode::EachStep, cap_r);
    push("rocks.values.obs", rk, alpha_values(true), if quick { 3 } else { 4 }, ObsMode::EachStep, cap_r);
    push("rocks.mixed.obs", rk, alpha_mixed(true), if quick { 3 } else { 4 }, ObsMode::EachStep, cap_r);
    push("rocks.reads.final.default_opts", rk_def, alpha_reads(true), if quick { 2 } else { 3 }, ObsMode::FinalOnly, cap_r);
    f
}

fn family_by_name(name: &str, quick: bool) -> Option<Family> {
    families(quick).into_iter().find(|f| f.name == name)
}

pub fn tmp_root(ctx_root: &std::path::Path) -> PathBuf {
    ctx_root.join("target").join("tmp")
}

static DIR_SEQ: AtomicU64 = AtomicU64::new(0);

pub fn fresh_dir(root: &std::path::Path, tag: &str) -> PathBuf {
    let n = DIR_SEQ.fetch_add(1, Ordering::Relaxed);
    let d = tmp_root(root).join(format!("c13-{}-{}-{}", std::process::id(), tag, n));
    let _ = std::fs::remove_dir_all(&d);
    std::fs::create_dir_all(&d).unwrap_or_else(|e| vcommon::machinery_failure(&format!("cannot create {}: {}", d.display(), e)));
    d
}

/// coarse signature -> (minimal failing sequence over all families, failure, family)
type Found = BTreeMap<String, (Vec<Op>, Fail, &'static str)>;

fn seq_detail(family: &str, tier: &str, ops: &[Op], what: &str) -> Value {
    json!({"kind": "sequence", "family": family, "tier": tier, "what": what,
           "example": format!("fresh store; [{}]; then: {}", ops.iter().map(op_text).collect::<Vec<_>>().join("; "), what),
           "ops": ops.iter().map(op_text).collect::<Vec<_>>(), "ops_enc": ops_to_json(ops)})
}

struct TaskOut {
    evals: u64,
    calls: u64,
    nontrivial: u64,
    digests: HashSet<u64>,
    fails: BTreeMap<String, (Vec<Op>, Fail)>,
    completed: bool,
}

fn seqs_of_len(a: usize, len: usize) -> Vec<Vec<usize>> {
    let mut out: Vec<Vec<usize>> = vec![vec![]];
    for _ in 0..len {
        out = out
            .into_iter()
            .flat_map(|p| {
                (0..a).map(move |i| {
                    let mut q = p.clone();
                    q.push(i);
                    q
                })
            })
            .collect();
    }
    out
}

fn run_family(ctx: &Ctx, fam: &Family, budget_end: Instant, found: &mut Found) {
    let t0 = Instant::now();
    let a = fam.alphabet.len();
    // every length is run as a complete sequence of its own (with its final phase), shortest
    // first, so the first counterexample per signature is minimal in (length, alphabet order)
    let lens: Vec<usize> = (0..=fam.depth).collect();
    // tasks: (len, prefix); sequences of exactly `len` ops starting with `prefix`
    let mut tasks: Vec<(usize, Vec<usize>)> = vec![];
    for &len in &lens {
        for p in seqs_of_len(a, len.min(2)) {
            tasks.push((len, p));
        }
    }
    let stop = AtomicBool::new(false);
    let deadline = (t0 + fam.cap).min(budget_end);
    let root = ctx.root.clone();
    let threads = vcommon::ncpu();
    let outs: Vec<TaskOut> = vcommon::par_map(&tasks, threads, |ti, (len, prefix)| {
        let mut out = TaskOut { evals: 0, calls: 0, nontrivial: 0, digests: HashSet::new(), fails: BTreeMap::new(), completed: false };
        let rest = len - prefix.len();
        let mut suffix = vec![0usize; rest];
        let dir = if fam.backend.is_rocks() { Some(fresh_dir(&root, &format!("e2-{}", ti))) } else { None };
        'seqs: loop {
            if stop.load(Ordering::Relaxed) {
                break;
            }
            if out.evals % 16 == 0 && Instant::now() > deadline {
                stop.store(true, Ordering::Relaxed);
                break;
            }
            let ops: Vec<Op> = prefix.iter().chain(suffix.iter()).map(|&i| fam.alphabet[i]).collect();
            let r: SeqOut = run_sequence(fam.backend, &fam.items, &ops, fam.obs, dir.as_deref());
            out.evals += 1;
            out.calls += r.calls;
            if r.nontrivial {
                out.nontrivial += 1;
            }
            out.digests.extend(r.digests.iter().copied());
            for f in r.fails {
                let failing: Vec<Op> = ops[..f.upto.min(ops.len())].to_vec();
                let e = out.fails.entry(f.sig.clone());
                match e {
                    std::collections::btree_map::Entry::Vacant(v) => {
                        v.insert((failing, f));
                    }
                    std::collections::btree_map::Entry::Occupied(mut o) => {
                        if (failing.len(), &failing) < (o.get().0.len(), &o.get().0) {
                            o.insert((failing, f));
                        }
                    }
                }
            }
            // next suffix
            let mut p = rest;
            loop {
                if p == 0 {
                    out.completed = true;
                    break 'seqs;
                }
                p -= 1;
                suffix[p] += 1;
                if suffix[p] < a {
                    break;
                }
                suffix[p] = 0;
            }
        }
        if let Some(d) = dir {
            let _ = std::fs::remove_dir_all(d);
        }
        out
    });
    let mut evals = 0;
    let mut calls = 0;
    let mut nontrivial = 0;
    let mut digests: HashSet<u64> = HashSet::new();
    let mut completed = 0usize;
    let mut full_len: Option<usize> = None;
    for &l in &lens {
        if tasks.iter().zip(outs.iter()).filter(|(t, _)| t.0 == l).all(|(_, o)| o.completed) {
            full_len = Some(l);
        } else {
            break;
        }
    }
    for o in outs {
        evals += o.evals;
        calls += o.calls;
        nontrivial += o.nontrivial;
        digests.extend(o.digests);
        if o.completed {
            completed += 1;
        }
        for (sig, (ops, f)) in o.fails {
            match found.get(&sig) {
                Some((o2, _, _)) if (o2.len(), o2) <= (ops.len(), &ops) => {}
                _ => {
                    found.insert(sig, (ops, f, fam.name));
                }
            }
        }
    }
    let exhaustive = completed == tasks.len();
    let total: f64 = lens.iter().map(|&l| (a as f64).powi(l as i32)).sum();
    let sample = |idx: &[usize]| -> Value { json!(idx.iter().map(|&i| op_text(&fam.alphabet[i % a])).collect::<Vec<_>>()) };
    let d = fam.depth;
    let samples = vec![
        sample(&(0..d).map(|i| (i * 7 + 1) % a).collect::<Vec<_>>()),
        sample(&(0..d).map(|i| (a - 1).saturating_sub(i * 3)).collect::<Vec<_>>()),
    ];
    ctx.add_leg(Leg {
        name: fam.name.into(),
        engine: "E2-seq-enum".into(),
        states: digests.len() as u64,
        transitions: calls,
        evaluations: evals,
        distinct_nontrivial: nontrivial,
        rule: "all op sequences over the family alphabet; non-trivial = at some point two distinct items hold data at once, or a reacquire/reopen happens while data is stored".into(),
        samples,
        exhaustive,
        bounds: json!({"backend": fam.backend.name(), "alphabet_size": a, "depth": fam.depth, "lengths_run": lens,
            "observation": fam.obs.name(), "sequences_in_space": total, "sequences_run": evals,
            "tasks_completed": completed, "tasks": tasks.len(), "all_sequences_up_to_length_completed": full_len,
            "items": fam.items.iter().map(|i| i.text()).collect::<Vec<_>>(),
            "alphabet": fam.alphabet.iter().map(op_text).collect::<Vec<_>>(),
            "final": if fam.backend.is_rocks() { "non-allocating observation, close+reopen, allocating sweep of all items" } else { "allocating sweep of all items" }}),
        wall_s: t0.elapsed().as_secs_f64(),
    });
}

/// Stand-alone reproduction of the lane-id key collision (DESIGN section 4, F8): nothing but the
/// public API of swimos_rocks_store / swimos_api.
fn repro_f8() -> ! {
    use bytes::BytesMut;
    use futures::FutureExt;
    use swimos_api::persistence::{NodePersistence, PlanePersistence, ServerPersistence};
    let dir = std::env::temp_dir().join(format!("c13-f8-{}", std::process::id()));
    let store = swimos_rocks_store::open_rocks_store(Some(dir.clone()), swimos_rocks_store::default_db_opts()).unwrap();
    let plane = store.open_plane("plane").unwrap();
    let mut a = plane.node_store("/a").now_or_never().unwrap().unwrap();
    let ab = plane.node_store("/a/b").now_or_never().unwrap().unwrap();
    let id1 = a.id_for("b/x").unwrap();
    let id2 = ab.id_for("x").unwrap();
    a.put_value(id1, b"written by agent /a, lane b/x").unwrap();
    let mut buf = BytesMut::new();
    let r = ab.get_value(id2, &mut buf).unwrap();
    println!("id_for(/a, b/x) = {:?}; id_for(/a/b, x) = {:?}; agent /a/b lane x reads {:?} = {:?}", id1, id2, r, String::from_utf8_lossy(&buf));
    drop((a, ab, plane, store));
    let _ = std::fs::remove_dir_all(dir);
    std::process::exit(if id1 == id2 { 1 } else { 0 })
}

fn main() {
    let args: Vec<String> = std::env::args().collect();
    if args.len() >= 2 && args[1] == "--child" {
        crash::child_main(&args[2..]);
    }
    if args.len() >= 2 && args[1] == "--repro-f8" {
        repro_f8();
    }
    let ctx = Ctx::from_env("C13");
    let _ = std::fs::create_dir_all(tmp_root(&ctx.root));
    // stale directories of an earlier (killed) run
    if let Ok(rd) = std::fs::read_dir(tmp_root(&ctx.root)) {
        for e in rd.flatten() {
            let name = e.file_name().to_string_lossy().to_string();
            if let Some(rest) = name.strip_prefix("c13-") {
                // only directories whose owning process is gone
                let pid = rest.split('-').next().unwrap_or("");
                if !pid.is_empty() && !std::path::Path::new("/proc").join(pid).exists() {
                    let _ = std::fs::remove_dir_all(e.path());
                }
            }
        }
    }

    if let Some(r) = ctx.replay_request() {
        let d = r["detail"].clone();
        let sig = r["signature"].as_str().unwrap_or("").to_string();
        match d["kind"].as_str() {
            Some("sequence") => {
                let quick = d["tier"].as_str() != Some("thorough");
                let fam = family_by_name(d["family"].as_str().unwrap_or(""), quick)
                    .unwrap_or_else(|| vcommon::machinery_failure("replay: unknown family"));
                let ops = ops_from_json(&d["ops_enc"]).unwrap_or_else(|| vcommon::machinery_failure("replay: bad ops_enc"));
                let dir = if fam.backend.is_rocks() { Some(fresh_dir(&ctx.root, "replay")) } else { None };
                // the failing prefix is replayed as a complete sequence of its own
                let out = run_sequence(fam.backend, &fam.items, &ops, fam.obs, dir.as_deref());
                if let Some(dd) = dir {
                    let _ = std::fs::remove_dir_all(dd);
                }
                if out.fails.is_empty() {
                    eprintln!("replay: sequence no longer fails (recorded signature: {})", sig);
                }
                for f in out.fails {
                    eprintln!("replay: reproduced: {} :: {}", f.sig, f.what);
                    ctx.violation("replay", &final_signature(&f, &ops), seq_detail(fam.name, d["tier"].as_str().unwrap_or("quick"), &ops, &f.what));
                }
            }
            Some("crash") => crash::replay(&ctx, &d),
            Some("wide") => wide::replay(&ctx, &d, &ctx.root),
            _ => vcommon::machinery_failure("replay: unknown kind"),
        }
        ctx.finish("model_checking", "replay");
    }

    // overall wall budget of the E2 legs (a leg that runs into it reports exhaustive=false)
    let budget_end = Instant::now() + Duration::from_secs(if ctx.quick() { 45 } else { 1500 });
    let fams = families(ctx.quick());
    let mut found: Found = BTreeMap::new();
    for (i, fam) in fams.iter().enumerate() {
        // fair share of what is left, so that an overloaded machine cannot starve the later legs
        let left = budget_end.saturating_duration_since(Instant::now());
        let share = left / (fams.len() - i) as u32;
        run_family(&ctx, fam, Instant::now() + share.max(Duration::from_secs(1)), &mut found);
    }
    // one report per coarse failure class, on the smallest failing sequence of all families
    let mut fl: Vec<(Vec<Op>, Fail, &'static str)> = found.into_values().collect();
    fl.sort_by(|x, y| (x.0.len(), &x.0, &x.1.sig).cmp(&(y.0.len(), &y.0, &y.1.sig)));
    for (ops, f, family) in fl {
        ctx.violation(family, &final_signature(&f, &ops), seq_detail(family, ctx.tier.name(), &ops, &f.what));
    }
    wide::run_leg(&ctx, &ctx.root);
    crash::run_legs(&ctx);

    ctx.assume("kind discipline is store-specific and modelled as observed: the in-memory store rejects wrong-kind access with an error and no state change (a map emptied by remove keeps its kind, delete/clear reset it); the RocksDB store keeps the value and the map of an id in independent keyspaces");
    ctx.assume("RocksDB lane ids address a plane-wide keyspace, so ids must be pairwise distinct across the whole plane; in-memory ids are per node store, so distinctness is required per agent");
    ctx.assume("bulk RocksDB legs use default_db_opts() with max_file_opening_threads=1 (performance only); one E2 leg and all crash legs use the unmodified default_db_opts()");
    ctx.assume("process-kill model: completed system calls persist (page cache survives SIGKILL); power loss is outside the property");
    ctx.assume("entries returned by read_map are compared as a set of (key,value) pairs with no duplicate keys; iteration order is not part of the property");
    ctx.finish(
        "model_checking",
        "bounded-exhaustive enumeration of operation sequences on the real in-memory and RocksDB stores against a reference map model, plus exhaustive crash-point enumeration (operation boundaries; write-family system calls via strace injection) with reopen-and-compare",
    );
}

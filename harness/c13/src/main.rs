use swimos_api::persistence::{PlanePersistence, ServerPersistence, NodePersistence};
fn one(d: &str, reopen: bool) {
        {
        let s = swimos_rocks_store::open_rocks_store(Some(d.to_string().into()), swimos_rocks_store::default_db_opts()).unwrap();
        let p = s.open_plane("p").unwrap();
        let mut nn = futures::FutureExt::now_or_never(p.node_store("/a")).unwrap().unwrap();
        let id = nn.id_for("x").unwrap();
        nn.put_value(id, &[1]).unwrap();
        }
        if reopen {
        let s = swimos_rocks_store::open_rocks_store(Some(d.to_string().into()), swimos_rocks_store::default_db_opts()).unwrap();
        let p = s.open_plane("p").unwrap();
        let nn = futures::FutureExt::now_or_never(p.node_store("/a")).unwrap().unwrap();
        let id = nn.id_for("x").unwrap();
        let mut b = bytes::BytesMut::new();
        assert_eq!(nn.get_value(id, &mut b).unwrap(), Some(1));
        }
        std::fs::remove_dir_all(&d).unwrap();
}
fn main() {
    for reopen in [false, true] {
    for th in [1usize, 16] {
    let t = std::time::Instant::now();
    let n = 40;
    std::thread::scope(|s| { for k in 0..th { s.spawn(move || { for i in 0..n { one(&format!("/verif/target/tmp/c13-m-{}-{}", k, i), reopen); } }); } });
    println!("reopen={} threads={} per seq wall: {:?} (throughput {:.0}/s)", reopen, th, t.elapsed() / n as u32, (n*th) as f64 / t.elapsed().as_secs_f64());
    }}
}

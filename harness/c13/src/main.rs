fn main() {
    vcommon::machinery_failure("C13: engine not built yet");
}

//! Crash-point enumeration for the RocksDB store.
//!
//! A child process (this binary re-executed with `--child`) runs a fixed history of single API
//! calls on a database directory and acknowledges each completed call by creating an empty file
//! `<ackdir>/<index>-<id>` (file creation is not a write-family system call, so acknowledgements
//! do not shift the injected kill points). It is killed (a) by `abort()` right after the i-th
//! acknowledgement, for every i, and (b) by SIGKILL on entry to the N-th write-family system call
//! (strace fault injection), for every N. The parent then opens the directory itself and requires:
//! every acknowledged call is reflected, the call in flight is all-or-nothing, acknowledged ids are
//! unchanged, and ids (including never-seen names allocated after the crash) do not collide.

use crate::exec::{rocks_opts, Backend, Exec, Fail};
use crate::model::{op_text, Item, Model, Op};
use crate::{fresh_dir, Ctx};
use serde_json::{json, Value};
use std::collections::BTreeMap;
use std::path::{Path, PathBuf};
use std::process::{Command, Stdio};
use std::time::Instant;
use vcommon::Leg;

const SYSCALLS: &str = "write,pwrite64,fdatasync,fsync,rename";

fn it(a: u8, n: u8) -> Item {
    Item { a, n }
}

pub fn histories() -> Vec<(&'static str, Vec<Op>)> {
    vec![
        (
            "H1.alloc-put-update-overwrite-remove",
            vec![
                Op::IdFor(it(0, 0)),
                Op::Put(it(0, 0), 1),
                Op::IdFor(it(1, 2)),
                Op::Update(it(1, 2), 3, 1),
                Op::Put(it(0, 0), 0),
                Op::Remove(it(1, 2), 3),
            ],
        ),
        (
            "H2.neighbour-maps-clear",
            vec![
                Op::IdFor(it(2, 3)),
                Op::Update(it(2, 3), 1, 1),
                Op::Update(it(2, 3), 6, 1),
                Op::IdFor(it(2, 0)),
                Op::Update(it(2, 0), 1, 0),
                Op::Clear(it(2, 3)),
            ],
        ),
        (
            "H3.reopen-in-history-delete",
            vec![
                Op::IdFor(it(0, 0)),
                Op::Update(it(0, 0), 0, 1),
                Op::Reopen,
                Op::IdFor(it(2, 0)),
                Op::Put(it(2, 0), 1),
                Op::Delete(it(2, 0)),
            ],
        ),
        (
            "H4.long-two-reopens (thorough only)",
            vec![
                Op::IdFor(it(1, 1)),
                Op::Update(it(1, 1), 5, 1),
                Op::IdFor(it(1, 3)),
                Op::Update(it(1, 3), 5, 1),
                Op::Reopen,
                Op::Clear(it(1, 1)),
                Op::Put(it(1, 3), 1),
                Op::IdFor(it(0, 2)),
                Op::Reopen,
                Op::Update(it(0, 2), 0, 0),
                Op::Delete(it(1, 3)),
                Op::Remove(it(1, 3), 5),
            ],
        ),
    ]
}

/// `--child <dbdir> <ackdir> <history index> <abort_after | -1>`
pub fn child_main(args: &[String]) -> ! {
    if args.len() != 4 {
        eprintln!("child: bad arguments");
        std::process::exit(2);
    }
    let db = PathBuf::from(&args[0]);
    let ack = PathBuf::from(&args[1]);
    let hi: usize = args[2].parse().unwrap_or(usize::MAX);
    let abort_after: i64 = args[3].parse().unwrap_or(-1);
    let hs = histories();
    let Some((_, hist)) = hs.get(hi) else {
        eprintln!("child: bad history");
        std::process::exit(2);
    };
    let mut ex = Exec::new(move || swimos_rocks_store::open_rocks_store(Some(db.clone()), rocks_opts(true)), Backend::Rocks { default_opts: true }.cfg());
    if let Err(f) = ex.ensure_open() {
        eprintln!("child: open failed: {} :: {}", f.sig, f.what);
        std::process::exit(4);
    }
    if abort_after == 0 {
        std::process::abort();
    }
    for (i, op) in hist.iter().enumerate() {
        if let Err(f) = ex.apply(op, i) {
            eprintln!("child: op {} failed: {} :: {}", i, f.sig, f.what);
            std::process::exit(3);
        }
        let id = op.item().and_then(|it| ex.id_text(it)).unwrap_or_else(|| "-".into());
        if std::fs::File::create(ack.join(format!("{}-{}", i, id))).is_err() {
            std::process::exit(5);
        }
        if abort_after == i as i64 + 1 {
            std::process::abort();
        }
    }
    if ex.close().is_err() {
        std::process::exit(3);
    }
    std::process::exit(0);
}

#[derive(Clone, Copy, Debug, PartialEq, Eq)]
pub enum Kill {
    /// abort() after the i-th acknowledged call (0 = right after opening the database).
    Boundary(usize),
    /// SIGKILL on entry to the N-th write-family system call.
    Syscall(usize),
    /// Not killed; clean exit.
    Clean,
}

impl Kill {
    fn name(&self) -> &'static str {
        match self {
            Kill::Boundary(_) => "op_boundary",
            Kill::Syscall(_) => "syscall",
            Kill::Clean => "none",
        }
    }
    fn n(&self) -> usize {
        match self {
            Kill::Boundary(n) | Kill::Syscall(n) => *n,
            Kill::Clean => 0,
        }
    }
}

pub struct PointOut {
    pub killed: bool,
    pub acks: usize,
    pub calls: u64,
    /// (signature, what)
    pub problem: Option<(String, String)>,
    pub machinery: Option<String>,
}

fn read_acks(dir: &Path) -> BTreeMap<usize, String> {
    let mut m = BTreeMap::new();
    if let Ok(rd) = std::fs::read_dir(dir) {
        for e in rd.flatten() {
            let n = e.file_name().to_string_lossy().to_string();
            if let Some((i, id)) = n.split_once('-') {
                if let Ok(i) = i.parse::<usize>() {
                    m.insert(i, id.to_string());
                }
            }
        }
    }
    m
}

fn model_after(hist: &[Op], k: usize) -> Model {
    let pol = Backend::Rocks { default_opts: true }.cfg().policy;
    let mut m = Model::default();
    for op in &hist[..k.min(hist.len())] {
        m.apply(pol, op);
    }
    m
}

fn hist_items(hist: &[Op]) -> Vec<Item> {
    let mut v = vec![];
    for op in hist {
        if let Some(i) = op.item() {
            if !v.contains(&i) {
                v.push(i);
            }
        }
    }
    v
}

/// Open the database left behind by the child and compare.
fn verify(db: &Path, hist: &[Op], acks: &BTreeMap<usize, String>, kill: Kill, calls: &mut u64) -> Option<(String, String)> {
    let k = acks.len();
    let in_flight = if kill == Kill::Clean || matches!(kill, Kill::Boundary(_)) || k >= hist.len() { "none" } else { hist[k].kind() };
    let sig = |problem: &str| format!("store=rocks law=crash_consistency kill={} in_flight={} problem={}", kill.name(), in_flight, problem);
    let dbp = db.to_path_buf();
    let mut ex = Exec::new(move || swimos_rocks_store::open_rocks_store(Some(dbp.clone()), rocks_opts(true)), Backend::Rocks { default_opts: true }.cfg());
    ex.step = k;
    let res = (|| -> Result<Option<(String, String)>, Fail> {
        if let Err(f) = ex.ensure_open() {
            return Ok(Some((sig("reopen_failed"), format!("after the kill the database cannot be opened: {}", f.what))));
        }
        let items = hist_items(hist);
        for item in &items {
            let id = match ex.id_for(*item) {
                Ok(id) => format!("{:?}", id),
                Err(f) => return Ok(Some((sig(if f.sig.contains("id_distinct") { "id_collision" } else { "id_for_failed" }), f.what))),
            };
            // the id acknowledged before the kill
            let acked = hist.iter().enumerate().find(|(i, op)| **op == Op::IdFor(*item) && *i < k).and_then(|(i, _)| acks.get(&i));
            if let Some(a) = acked {
                if *a != id {
                    return Ok(Some((sig("id_changed"), format!("id_for{} was acknowledged as {} before the kill and is {} after reopening", item.text(), a, id))));
                }
            }
        }
        // never-seen names must get ids that collide with nothing
        for fresh in [it(0, 4), it(2, 5), it(1, 4)] {
            if let Err(f) = ex.id_for(fresh) {
                return Ok(Some((sig(if f.sig.contains("id_distinct") { "id_collision" } else { "id_for_failed" }), format!("after reopening, allocating a new name: {}", f.what))));
            }
        }
        let candidates: Vec<usize> = match kill {
            Kill::Syscall(_) if k < hist.len() => vec![k, k + 1],
            _ => vec![k],
        };
        let mut whats = vec![];
        for c in &candidates {
            ex.model = model_after(hist, *c);
            match ex.observe(false, &items) {
                Ok(()) => return Ok(None),
                Err(f) => whats.push(format!("vs state after {} calls: {}", c, f.what)),
            }
        }
        // classify
        let mut older = None;
        for j in (0..k).rev() {
            ex.model = model_after(hist, j);
            if ex.observe(false, &items).is_ok() {
                older = Some(j);
                break;
            }
        }
        let problem = match older {
            Some(_) => "acknowledged_op_lost",
            None => "state_matches_no_prefix",
        };
        Ok(Some((
            sig(problem),
            format!(
                "{} calls were acknowledged{}; the reopened database matches {}; {}",
                k,
                if candidates.len() > 1 { format!(", call {} ({}) was in flight", k, op_text(&hist[k])) } else { String::new() },
                match older {
                    Some(j) => format!("the state after only {} calls", j),
                    None => "no prefix of the history".to_string(),
                },
                whats.join(" | ")
            ),
        )))
    })();
    *calls += ex.calls;
    let _ = ex.close();
    match res {
        Ok(r) => r,
        Err(f) => Some((sig("check_failed"), f.what)),
    }
}

pub fn run_point(root: &Path, hi: usize, kill: Kill) -> PointOut {
    let hs = histories();
    let hist = &hs[hi].1;
    let base = fresh_dir(root, "crash");
    let db = base.join("db");
    let ack = base.join("ack");
    let _ = std::fs::create_dir_all(&db);
    let _ = std::fs::create_dir_all(&ack);
    let exe = std::env::current_exe().unwrap_or_else(|e| vcommon::machinery_failure(&format!("current_exe: {}", e)));
    let abort_after = match kill {
        Kill::Boundary(i) => i as i64,
        _ => -1,
    };
    let child_args = vec!["--child".to_string(), db.display().to_string(), ack.display().to_string(), hi.to_string(), abort_after.to_string()];
    let mut cmd = match kill {
        Kill::Syscall(n) => {
            let mut c = Command::new("strace");
            c.args(["-f", "-qq", "-o", "/dev/null", "-e", &format!("trace={}", SYSCALLS), "-e", &format!("inject={}:signal=KILL:when={}", SYSCALLS, n)]);
            c.arg(&exe);
            c
        }
        _ => Command::new(&exe),
    };
    cmd.args(&child_args).stdin(Stdio::null()).stdout(Stdio::null()).stderr(Stdio::piped());
    let out = cmd.output();
    let mut po = PointOut { killed: false, acks: 0, calls: 0, problem: None, machinery: None };
    let out = match out {
        Ok(o) => o,
        Err(e) => {
            po.machinery = Some(format!("cannot spawn child: {}", e));
            let _ = std::fs::remove_dir_all(&base);
            return po;
        }
    };
    let acks = read_acks(&ack);
    po.acks = acks.len();
    po.calls += acks.len() as u64;
    let contiguous = acks.keys().copied().eq(0..acks.len());
    use std::os::unix::process::ExitStatusExt;
    let code = out.status.code();
    let signal = out.status.signal();
    po.killed = signal.is_some() || code.map(|c| c >= 128).unwrap_or(false);
    let stderr = String::from_utf8_lossy(&out.stderr).to_string();
    if !contiguous {
        po.machinery = Some(format!("acknowledgement files are not contiguous: {:?}", acks));
    } else if code == Some(3) {
        po.problem = Some((
            "store=rocks law=crash_consistency kill=none in_flight=none problem=history_op_failed".into(),
            format!("an operation of the history failed in the writer process: {}", stderr.trim()),
        ));
    } else if matches!(code, Some(2) | Some(4) | Some(5)) {
        po.machinery = Some(format!("child failed with exit code {:?}: {}", code, stderr.trim()));
    } else {
        match kill {
            Kill::Boundary(i) if !(po.killed && acks.len() == i) => {
                po.machinery = Some(format!("child was expected to abort after {} calls; status {:?}, {} acknowledgements; {}", i, out.status, acks.len(), stderr.trim()));
            }
            Kill::Clean if !(code == Some(0) && acks.len() == hist.len()) => {
                po.machinery = Some(format!("unkilled child did not complete: status {:?}, {} acknowledgements; {}", out.status, acks.len(), stderr.trim()));
            }
            _ => {
                let eff = if !po.killed && code == Some(0) { Kill::Clean } else { kill };
                po.problem = verify(&db, hist, &acks, eff, &mut po.calls);
            }
        }
    }
    let _ = std::fs::remove_dir_all(&base);
    po
}

fn detail(hi: usize, kill: Kill, what: &str, acks: usize) -> Value {
    let hs = histories();
    json!({"kind": "crash", "history": hi, "history_name": hs[hi].0, "mode": kill.name(), "n": kill.n(), "what": what,
           "example": format!("writer runs history {} and is killed ({} {}); then: {}", hs[hi].0, kill.name(), kill.n(), what),
           "acknowledged_calls": acks, "ops": hs[hi].1.iter().map(op_text).collect::<Vec<_>>()})
}

fn strace_works(root: &Path) -> Result<(), String> {
    let o = Command::new("strace").args(["-f", "-qq", "-o", "/dev/null", "-e", "trace=write", "/bin/true"]).stdin(Stdio::null()).output();
    match o {
        Err(e) => return Err(format!("strace cannot be started: {}", e)),
        Ok(o) if !o.status.success() => return Err(format!("strace /bin/true failed: {:?} {}", o.status, String::from_utf8_lossy(&o.stderr).trim())),
        _ => {}
    }
    // the first write-family call of the child must kill it
    let p = run_point(root, 0, Kill::Syscall(1));
    if let Some(m) = p.machinery {
        return Err(format!("injection probe failed: {}", m));
    }
    if !p.killed {
        return Err("injection probe: child was not killed at its first write-family system call".into());
    }
    Ok(())
}

pub fn run_legs(ctx: &Ctx) {
    let mut hs = histories();
    if ctx.quick() {
        hs.truncate(3);
    }
    // ---- (a) operation boundaries
    let t0 = Instant::now();
    let mut points: Vec<(usize, Kill)> = vec![];
    for (hi, (_, h)) in hs.iter().enumerate() {
        for i in 0..=h.len() {
            points.push((hi, Kill::Boundary(i)));
        }
        points.push((hi, Kill::Clean));
    }
    let outs = vcommon::par_map(&points, vcommon::ncpu(), |_, (hi, k)| run_point(&ctx.root, *hi, *k));
    let mut calls = 0;
    let mut nontrivial = 0;
    // a history whose *unkilled* run already disagrees with the model shows a defect that has
    // nothing to do with crashes: it is reported once (kill=none) and not again per kill point
    let broken: Vec<usize> = points.iter().zip(outs.iter()).filter(|((_, k), o)| *k == Kill::Clean && o.problem.is_some()).map(|((hi, _), _)| *hi).collect();
    for ((hi, k), o) in points.iter().zip(outs.iter()) {
        calls += o.calls;
        if o.acks >= 1 {
            nontrivial += 1;
        }
        if let Some(m) = &o.machinery {
            vcommon::machinery_failure(&format!("crash leg (history {}, {:?}): {}", hi, k, m));
        }
        if let Some((sig, what)) = &o.problem {
            if *k == Kill::Clean || !broken.contains(hi) {
                ctx.violation("rocks.crash.op_boundary", sig, detail(*hi, *k, what, o.acks));
            }
        }
    }
    ctx.add_leg(Leg {
        name: "rocks.crash.op_boundary".into(),
        engine: "crash-point-enum".into(),
        states: points.len() as u64,
        transitions: calls,
        evaluations: points.len() as u64,
        distinct_nontrivial: nontrivial,
        rule: "every (history, abort-after-i) point plus the unkilled run; non-trivial = at least one acknowledged call must survive".into(),
        samples: hs.iter().map(|(n, h)| json!({"history": n, "calls": h.iter().map(op_text).collect::<Vec<_>>()})).collect(),
        exhaustive: true,
        bounds: json!({"histories": hs.len(), "calls_per_history": hs.iter().map(|(_, h)| h.len()).collect::<Vec<_>>(), "kill": "abort() after the i-th acknowledged call, i = 0..=len, and a clean run",
                       "check": "reopen in the parent: acknowledged ids unchanged, ids pairwise distinct incl. 3 fresh names, data equals the model after exactly i calls"}),
        wall_s: t0.elapsed().as_secs_f64(),
    });

    // ---- (b) write-family system calls
    let t0 = Instant::now();
    let which: Vec<usize> = (0..hs.len()).filter(|h| !broken.contains(h)).collect();
    match strace_works(&ctx.root) {
        Err(why) => {
            ctx.assume(&format!("system-call kill points SKIPPED: strace/ptrace is not usable here ({})", why));
            ctx.add_leg(Leg {
                name: "rocks.crash.syscall".into(),
                engine: "crash-point-enum(strace inject)".into(),
                rule: "skipped: strace/ptrace unavailable".into(),
                exhaustive: false,
                bounds: json!({"skipped": why}),
                wall_s: t0.elapsed().as_secs_f64(),
                ..Default::default()
            });
        }
        Ok(()) => {
            let cap = std::time::Duration::from_secs(if ctx.quick() { 25 } else { 300 });
            let mut evals = 0u64;
            let mut calls = 0u64;
            let mut nontrivial = 0u64;
            let mut counts = vec![];
            let mut exhaustive = true;
            let mut in_flight_kinds: BTreeMap<String, u64> = BTreeMap::new();
            let mut samples = vec![];
            for &hi in &which {
                let mut next = 1usize;
                let mut unkilled_at = None;
                while unkilled_at.is_none() {
                    if t0.elapsed() > cap {
                        exhaustive = false;
                        break;
                    }
                    let batch: Vec<usize> = (next..next + 32).collect();
                    next += 32;
                    let outs = vcommon::par_map(&batch, vcommon::ncpu(), |_, n| run_point(&ctx.root, hi, Kill::Syscall(*n)));
                    for (n, o) in batch.iter().zip(outs.iter()) {
                        if let Some(m) = &o.machinery {
                            vcommon::machinery_failure(&format!("crash leg (history {}, syscall {}): {}", hi, n, m));
                        }
                        if unkilled_at.is_some() && !o.killed {
                            continue; // beyond the end of the run
                        }
                        evals += 1;
                        calls += o.calls;
                        if !o.killed {
                            unkilled_at = Some(*n);
                        } else {
                            if o.acks >= 1 {
                                nontrivial += 1;
                            }
                            let kind = if o.acks == 0 { "open_or_first_call" } else if o.acks < hs[hi].1.len() { hs[hi].1[o.acks].kind() } else { "close" };
                            *in_flight_kinds.entry(kind.to_string()).or_insert(0) += 1;
                            if samples.len() < 3 && o.acks >= 2 && *n % 7 == 0 {
                                samples.push(json!({"history": hs[hi].0, "killed_at_syscall": n, "acknowledged_calls": o.acks}));
                            }
                        }
                        if let Some((sig, what)) = &o.problem {
                            ctx.violation("rocks.crash.syscall", sig, detail(hi, Kill::Syscall(*n), what, o.acks));
                        }
                    }
                }
                counts.push(json!({"history": hs[hi].0, "first_unkilled_N": unkilled_at}));
            }
            if samples.is_empty() {
                samples.push(json!({"history": hs[which.first().copied().unwrap_or(0)].0, "kill": "SIGKILL at entry of the N-th write-family system call, N = 1.."}));
            }
            ctx.add_leg(Leg {
                name: "rocks.crash.syscall".into(),
                engine: "crash-point-enum(strace inject)".into(),
                states: evals,
                transitions: calls,
                evaluations: evals,
                distinct_nontrivial: nontrivial,
                rule: "every N from 1 to the first N at which the writer is no longer killed; non-trivial = killed with at least one acknowledged call".into(),
                samples,
                exhaustive,
                bounds: json!({"syscalls": SYSCALLS, "histories": counts, "histories_skipped_because_unkilled_run_fails": broken, "kill_points_by_call_in_flight": in_flight_kinds,
                               "note": "strace counts `when=N` per traced thread; the writer thread issues nearly all calls, N runs until a run completes unkilled",
                               "check": "reopen in the parent: acknowledged ids unchanged, ids pairwise distinct incl. 3 fresh names, data equals the model after k or k+1 calls (k acknowledged)"}),
                wall_s: t0.elapsed().as_secs_f64(),
            });
        }
    }
}

pub fn replay(ctx: &Ctx, d: &Value) {
    let hi = d["history"].as_u64().unwrap_or(0) as usize;
    if hi >= histories().len() {
        vcommon::machinery_failure("replay: bad history");
    }
    let n = d["n"].as_u64().unwrap_or(0) as usize;
    let kill = match d["mode"].as_str() {
        Some("op_boundary") => Kill::Boundary(n),
        Some("syscall") => Kill::Syscall(n),
        _ => Kill::Clean,
    };
    let o = run_point(&ctx.root, hi, kill);
    if let Some(m) = o.machinery {
        vcommon::machinery_failure(&format!("replay: {}", m));
    }
    match o.problem {
        Some((sig, what)) => {
            eprintln!("replay: reproduced: {} :: {}", sig, what);
            ctx.violation("replay", &sig, detail(hi, kill, &what, o.acks));
        }
        None => eprintln!("replay: crash point no longer fails ({} acknowledged calls, killed={})", o.acks, o.killed),
    }
}

//! Executes operations on a real store through the persistence traits and checks every result
//! against the reference model.

use crate::model::{keys, Expect, Item, KindPolicy, Model, Op, AGENTS, VALS};
use bytes::BytesMut;
use futures::future::BoxFuture;
use std::collections::hash_map::DefaultHasher;
use std::collections::BTreeMap;
use std::hash::{Hash, Hasher};
use std::panic::{catch_unwind, AssertUnwindSafe};
use std::path::Path;
use std::task::{Context, Poll};
use swimos_api::error::StoreError;
use swimos_api::persistence::{NodePersistence, PlanePersistence, RangeConsumer, ServerPersistence};
use swimos_server_app::verif_hooks::InMemoryPlanePersistence;

pub type PlaneOf<S> = <S as ServerPersistence>::PlaneStore;
pub type NodeOf<S> = <PlaneOf<S> as PlanePersistence>::Node;
pub type LidOf<S> = <NodeOf<S> as NodePersistence>::LaneId;

const PLANE: &str = "p";
const MAX_ENTRIES: usize = 10_000;

#[derive(Clone, Copy, Debug, PartialEq, Eq)]
pub enum Backend {
    Mem,
    Rocks { default_opts: bool },
}

impl Backend {
    pub fn is_rocks(&self) -> bool {
        matches!(self, Backend::Rocks { .. })
    }
    pub fn name(&self) -> &'static str {
        match self {
            Backend::Mem => "in-memory (InMemoryPlanePersistence)",
            Backend::Rocks { default_opts: true } => "RocksDB (open_rocks_store, default_db_opts())",
            Backend::Rocks { default_opts: false } => "RocksDB (open_rocks_store, default_db_opts() + max_file_opening_threads=1)",
        }
    }
    pub fn cfg(&self) -> Cfg {
        match self {
            Backend::Mem => Cfg { store: "mem", policy: KindPolicy::Exclusive, plane_wide_ids: false },
            Backend::Rocks { .. } => Cfg { store: "rocks", policy: KindPolicy::Independent, plane_wide_ids: true },
        }
    }
}

#[derive(Clone, Copy, Debug, PartialEq, Eq)]
pub enum ObsMode {
    /// After every operation all items that already have an id are read back.
    EachStep,
    /// Only the explicit read operations of the sequence and the final sweep read.
    FinalOnly,
}

impl ObsMode {
    pub fn name(&self) -> &'static str {
        match self {
            ObsMode::EachStep => "every allocated item is read (id_for, get, read_map) after every operation",
            ObsMode::FinalOnly => "no implicit reads between operations; sweep at the end",
        }
    }
}

#[derive(Clone, Copy, Debug)]
pub struct Cfg {
    pub store: &'static str,
    pub policy: KindPolicy,
    pub plane_wide_ids: bool,
}

#[derive(Clone, Debug)]
pub struct Fail {
    pub sig: String,
    pub what: String,
    /// Number of leading operations of the sequence needed to reach the failure.
    pub upto: usize,
    /// The item whose read / write result was wrong (signatures of such failures are completed
    /// with the shape of the minimal failing sequence, see `final_signature`).
    pub item: Option<Item>,
}

/// Items are named by order of first appearance of their agent and name (`a0n0`, `a0n1`, ...),
/// so that the signature describes the shape of the minimal sequence, not the concrete names.
pub fn final_signature(f: &Fail, ops: &[Op]) -> String {
    let Some(target) = f.item else { return f.sig.clone() };
    let mut agents: Vec<u8> = vec![];
    let mut names: Vec<u8> = vec![];
    let lab_agent = |a: u8, agents: &mut Vec<u8>| -> usize {
        if let Some(p) = agents.iter().position(|x| *x == a) {
            p
        } else {
            agents.push(a);
            agents.len() - 1
        }
    };
    let mut parts = vec![];
    for op in &ops[..f.upto.min(ops.len())] {
        match op {
            Op::Reopen => parts.push("reopen".to_string()),
            Op::Reacquire(a, _) => {
                let ai = lab_agent(*a, &mut agents);
                parts.push(format!("{}(a{})", op.kind(), ai));
            }
            _ => {
                let i = op.item().unwrap();
                let ai = lab_agent(i.a, &mut agents);
                let ni = if let Some(p) = names.iter().position(|x| *x == i.n) {
                    p
                } else {
                    names.push(i.n);
                    names.len() - 1
                };
                parts.push(format!("{}(a{}n{})", op.kind(), ai, ni));
            }
        }
    }
    let ai = lab_agent(target.a, &mut agents);
    let ni = names.iter().position(|x| *x == target.n).unwrap_or(names.len());
    format!("{} at=a{}n{} after=[{}]", f.sig, ai, ni, parts.join(","))
}

/// The in-memory server persistence of swimos_server_app is private; only the plane store is
/// re-exported, so this adapter plays the role of `InMemoryPersistence::open_plane`.
pub struct MemServer;

impl ServerPersistence for MemServer {
    type PlaneStore = InMemoryPlanePersistence;
    fn open_plane(&self, _name: &str) -> Result<Self::PlaneStore, StoreError> {
        Ok(InMemoryPlanePersistence::default())
    }
}

pub fn rocks_opts(default_opts: bool) -> swimos_rocks_store::RocksOpts {
    let mut o = swimos_rocks_store::default_db_opts();
    if !default_opts {
        o.0.set_max_file_opening_threads(1);
    }
    o
}

fn guarded<T>(f: impl FnOnce() -> T) -> Result<T, String> {
    catch_unwind(AssertUnwindSafe(f)).map_err(|e| {
        if let Some(s) = e.downcast_ref::<&str>() {
            s.to_string()
        } else if let Some(s) = e.downcast_ref::<String>() {
            s.clone()
        } else {
            "panic".to_string()
        }
    })
}

fn poll_once<T>(f: &mut BoxFuture<'static, T>) -> Poll<T> {
    let w = futures::task::noop_waker();
    let mut cx = Context::from_waker(&w);
    f.as_mut().poll(&mut cx)
}

pub struct Exec<S: ServerPersistence, F: Fn() -> Result<S, StoreError>> {
    open: F,
    pub cfg: Cfg,
    server: Option<S>,
    plane: Option<PlaneOf<S>>,
    nodes: Vec<Option<NodeOf<S>>>,
    pub ids: Vec<(Item, LidOf<S>)>,
    pub model: Model,
    pub calls: u64,
    last_write: Option<(&'static str, Item)>,
    since_write: &'static str,
    last_boundary: &'static str,
    pub step: usize,
    pub nontrivial: bool,
    pub digests: Vec<u64>,
    pub soft: Vec<Fail>,
}

impl<S: ServerPersistence, F: Fn() -> Result<S, StoreError>> Exec<S, F> {
    pub fn new(open: F, cfg: Cfg) -> Self {
        Exec {
            open,
            cfg,
            server: None,
            plane: None,
            nodes: (0..AGENTS.len()).map(|_| None).collect(),
            ids: vec![],
            model: Model::default(),
            calls: 0,
            last_write: None,
            since_write: "none",
            last_boundary: "none",
            step: 0,
            nontrivial: false,
            digests: vec![],
            soft: vec![],
        }
    }

    fn fail(&self, sig: String, what: String) -> Fail {
        Fail { sig: format!("store={} {}", self.cfg.store, sig), what, upto: self.step, item: None }
    }

    pub fn ensure_open(&mut self) -> Result<(), Fail> {
        if self.plane.is_some() {
            return Ok(());
        }
        self.calls += 2;
        let r = guarded(|| (self.open)());
        let server = match r {
            Err(p) => return Err(self.fail("law=no_panic op=open".into(), format!("opening the store panicked: {}", p))),
            Ok(Err(e)) => return Err(self.fail(format!("law=op_result op=open after={}", self.last_boundary), format!("opening the store failed: {:?}", e))),
            Ok(Ok(s)) => s,
        };
        let r = guarded(|| server.open_plane(PLANE));
        let plane = match r {
            Err(p) => return Err(self.fail("law=no_panic op=open_plane".into(), format!("open_plane panicked: {}", p))),
            Ok(Err(e)) => return Err(self.fail(format!("law=op_result op=open_plane after={}", self.last_boundary), format!("open_plane failed: {:?}", e))),
            Ok(Ok(p)) => p,
        };
        self.server = Some(server);
        self.plane = Some(plane);
        Ok(())
    }

    fn acquire(&mut self, a: usize) -> Result<(), Fail> {
        self.ensure_open()?;
        self.calls += 1;
        let plane = self.plane.as_ref().unwrap();
        let r = guarded(|| {
            let mut fut = plane.node_store(AGENTS[a]);
            poll_once(&mut fut)
        });
        match r {
            Err(p) => Err(self.fail("law=no_panic op=node_store".into(), format!("node_store({:?}) panicked: {}", AGENTS[a], p))),
            Ok(Poll::Ready(Ok(n))) => {
                self.nodes[a] = Some(n);
                Ok(())
            }
            Ok(Poll::Ready(Err(e))) => Err(self.fail(
                format!("law=reacquire_ready got=error after={}", self.last_boundary),
                format!("node_store({:?}) failed: {:?}", AGENTS[a], e),
            )),
            Ok(Poll::Pending) => Err(self.fail(
                format!("law=reacquire_ready got=pending after={}", self.last_boundary),
                format!("node_store({:?}) is pending although no node store for the agent is alive", AGENTS[a]),
            )),
        }
    }

    fn ensure_node(&mut self, a: usize) -> Result<(), Fail> {
        if self.nodes[a].is_none() {
            self.acquire(a)?;
        }
        Ok(())
    }

    fn drop_node(&mut self, a: usize) -> Result<(), Fail> {
        if let Some(n) = self.nodes[a].take() {
            if let Err(p) = guarded(move || drop(n)) {
                return Err(self.fail("law=no_panic op=drop_node_store".into(), format!("dropping the node store of {:?} panicked: {}", AGENTS[a], p)));
            }
        }
        Ok(())
    }

    fn boundary(&mut self, kind: &'static str) {
        self.since_write = kind;
        self.last_boundary = kind;
        if self.model.items_with_data() >= 1 {
            self.nontrivial = true;
        }
    }

    fn reacquire(&mut self, a: usize, mode: u8) -> Result<(), Fail> {
        self.ensure_open()?;
        if self.nodes[a].is_none() {
            self.acquire(a)?;
            self.boundary("reacquire");
            return Ok(());
        }
        let kind = Op::Reacquire(a as u8, mode).kind();
        match mode {
            0 => {
                self.drop_node(a)?;
                self.boundary(kind);
                self.acquire(a)?;
            }
            1 => {
                self.calls += 1;
                let plane = self.plane.as_ref().unwrap();
                let r = guarded(|| {
                    let mut fut = plane.node_store(AGENTS[a]);
                    let p = poll_once(&mut fut);
                    (fut, p)
                });
                let (mut fut, first) = match r {
                    Err(p) => return Err(self.fail("law=no_panic op=node_store".into(), format!("node_store panicked: {}", p))),
                    Ok(x) => x,
                };
                match first {
                    Poll::Ready(Ok(n)) => {
                        self.drop_node(a)?;
                        self.boundary(kind);
                        self.nodes[a] = Some(n);
                    }
                    Poll::Ready(Err(e)) => {
                        return Err(self.fail(format!("law=reacquire_ready mode={} got=error", kind), format!("node_store({:?}) requested while the store is held failed: {:?}", AGENTS[a], e)));
                    }
                    Poll::Pending => {
                        self.drop_node(a)?;
                        self.boundary(kind);
                        match guarded(|| poll_once(&mut fut)) {
                            Err(p) => return Err(self.fail("law=no_panic op=node_store".into(), format!("node_store future panicked: {}", p))),
                            Ok(Poll::Ready(Ok(n))) => self.nodes[a] = Some(n),
                            Ok(Poll::Ready(Err(e))) => {
                                return Err(self.fail(
                                    format!("law=reacquire_ready mode={} got=error", kind),
                                    format!("hand-over of the state of {:?} failed after the old node store was dropped: {:?}", AGENTS[a], e),
                                ))
                            }
                            Ok(Poll::Pending) => {
                                return Err(self.fail(
                                    format!("law=reacquire_ready mode={} got=pending", kind),
                                    format!("node_store({:?}) still pending after the old node store was dropped", AGENTS[a]),
                                ))
                            }
                        }
                    }
                }
            }
            _ => {
                self.calls += 1;
                let plane = self.plane.as_ref().unwrap();
                let r = guarded(|| {
                    let mut fut = plane.node_store(AGENTS[a]);
                    let p = poll_once(&mut fut);
                    drop(p);
                    drop(fut);
                });
                if let Err(p) = r {
                    return Err(self.fail("law=no_panic op=node_store".into(), format!("cancelled node_store request panicked: {}", p)));
                }
                self.drop_node(a)?;
                self.boundary(kind);
                self.acquire(a)?;
            }
        }
        Ok(())
    }

    pub fn reopen(&mut self) -> Result<(), Fail> {
        self.close()?;
        self.boundary("reopen");
        self.ensure_open()
    }

    pub fn close(&mut self) -> Result<(), Fail> {
        for a in 0..AGENTS.len() {
            self.drop_node(a)?;
        }
        let plane = self.plane.take();
        let server = self.server.take();
        if let Err(p) = guarded(move || {
            drop(plane);
            drop(server);
        }) {
            return Err(self.fail("law=no_panic op=close".into(), format!("closing the store panicked: {}", p)));
        }
        Ok(())
    }

    pub fn id_text(&self, item: Item) -> Option<String> {
        self.ids.iter().find(|(i, _)| *i == item).map(|(_, id)| format!("{:?}", id))
    }

    /// Calls `id_for` on the store and checks stability / distinctness.
    pub fn id_for(&mut self, item: Item) -> Result<LidOf<S>, Fail> {
        self.ensure_node(item.a as usize)?;
        self.calls += 1;
        let node = self.nodes[item.a as usize].as_ref().unwrap();
        let r = guarded(|| node.id_for(item.name()));
        let id = match r {
            Err(p) => return Err(self.fail("law=no_panic op=id_for".into(), format!("id_for{} panicked: {}", item.text(), p))),
            Ok(Err(e)) => return Err(self.fail("law=op_result op=id_for expected=ok got=err".into(), format!("id_for{} failed: {:?}", item.text(), e))),
            Ok(Ok(id)) => id,
        };
        if let Some((_, prev)) = self.ids.iter().find(|(i, _)| *i == item) {
            if *prev != id {
                return Err(self.fail(
                    format!("law=id_stable since={}", self.last_boundary),
                    format!("id_for{} returned {:?}, earlier it returned {:?}", item.text(), id, prev),
                ));
            }
        } else {
            for (other, oid) in &self.ids {
                if *oid == id && (self.cfg.plane_wide_ids || other.a == item.a) {
                    let mut pair = [other.text(), item.text()];
                    pair.sort();
                    return Err(self.fail(
                        format!("law=id_distinct items={}~{}", pair[0], pair[1]),
                        format!(
                            "id_for{} returned {:?}, which is already the id of the different item {}: both items share one storage slot",
                            item.text(),
                            id,
                            other.text()
                        ),
                    ));
                }
            }
            self.ids.push((item, id));
        }
        Ok(id)
    }

    fn ensure_id(&mut self, item: Item) -> Result<LidOf<S>, Fail> {
        if let Some((_, id)) = self.ids.iter().find(|(i, _)| *i == item) {
            let id = *id;
            self.ensure_node(item.a as usize)?;
            return Ok(id);
        }
        self.id_for(item)
    }

    fn rel(&self, read: Item) -> (String, &'static str) {
        match self.last_write {
            None => ("none".into(), "-"),
            Some((k, w)) => {
                let r = if w == read {
                    "same_item"
                } else if w.a == read.a {
                    "other_name_same_agent"
                } else if w.n == read.n {
                    "same_name_other_agent"
                } else {
                    "other_agent_other_name"
                };
                (k.to_string(), r)
            }
        }
    }

    fn read_fail(&self, read: &'static str, item: Item, diff: &str, what: String) -> Fail {
        let (lw, rel) = self.rel(item);
        let mut f = self.fail(
            format!("law=read_equals_reference read={} diff={}", read, diff),
            format!("{} (last successful write: {} on {}; since then: {})", what, lw, rel, self.since_write),
        );
        f.item = Some(item);
        f
    }

    pub fn read_value(&mut self, item: Item) -> Result<(), Fail> {
        let id = self.ensure_id(item)?;
        let exp = self.model.get(self.cfg.policy, item);
        self.calls += 1;
        let node = self.nodes[item.a as usize].as_ref().unwrap();
        let mut buf = BytesMut::from(&[0xAAu8][..]);
        let r = guarded(|| node.get_value(id, &mut buf));
        let got = match r {
            Err(p) => return Err(self.fail("law=no_panic op=get".into(), format!("get{} panicked: {}", item.text(), p))),
            Ok(g) => g,
        };
        match (got, exp) {
            (Err(_), Expect::Err) => Ok(()),
            (Err(e), Expect::Ok(v)) => Err(self.read_fail("get", item, "unexpected_error", format!("get{} failed with {:?}; the reference holds {:?}", item.text(), e, v))),
            (Ok(g), Expect::Err) => Err(self.read_fail("get", item, "missing_error", format!("get{} returned {:?} for an item that holds a map (wrong-kind access must be an error)", item.text(), g))),
            (Ok(None), Expect::Ok(None)) => Ok(()),
            (Ok(Some(n)), Expect::Ok(None)) => {
                Err(self.read_fail("get", item, "unexpected_value", format!("get{} returned {:?} ({} bytes); the reference holds no value", item.text(), &buf[1..], n)))
            }
            (Ok(None), Expect::Ok(Some(v))) => Err(self.read_fail("get", item, "missing_value", format!("get{} returned nothing; the reference holds {:?}", item.text(), v))),
            (Ok(Some(n)), Expect::Ok(Some(v))) => {
                if buf[0] != 0xAA || buf.len() != 1 + n {
                    Err(self.fail(
                        "law=get_buffer_contract".into(),
                        format!("get{} returned {} but the buffer went from [aa] to {:?} (existing content must stay, n bytes appended)", item.text(), n, &buf[..]),
                    ))
                } else if buf[1..] != v[..] {
                    Err(self.read_fail("get", item, "wrong_value", format!("get{} returned {:?}; the reference holds {:?}", item.text(), &buf[1..], v)))
                } else {
                    Ok(())
                }
            }
        }
    }

    pub fn read_map(&mut self, item: Item) -> Result<(), Fail> {
        let id = self.ensure_id(item)?;
        let exp = self.model.read_map(self.cfg.policy, item);
        self.calls += 1;
        let node = self.nodes[item.a as usize].as_ref().unwrap();
        // Ok(Ok(entries)) | Ok(Err(msg)) ; entries None = did not terminate
        let r = guarded(|| -> Result<Option<Vec<(Vec<u8>, Vec<u8>)>>, StoreError> {
            let mut c = node.read_map(id)?;
            let mut out = vec![];
            loop {
                match c.consume_next()? {
                    Some((k, v)) => out.push((k.to_vec(), v.to_vec())),
                    None => return Ok(Some(out)),
                }
                if out.len() > MAX_ENTRIES {
                    return Ok(None);
                }
            }
        });
        let got = match r {
            Err(p) => return Err(self.fail("law=no_panic op=read_map".into(), format!("read_map{} panicked: {}", item.text(), p))),
            Ok(g) => g,
        };
        match (got, exp) {
            (Err(_), Expect::Err) => Ok(()),
            (Err(e), Expect::Ok(m)) => Err(self.read_fail("read_map", item, "unexpected_error", format!("read_map{} failed with {:?}; the reference holds {:?}", item.text(), e, m))),
            (Ok(None), _) => Err(self.fail("law=terminates op=read_map".into(), format!("read_map{} produced more than {} entries", item.text(), MAX_ENTRIES))),
            (Ok(Some(g)), Expect::Err) => Err(self.read_fail("read_map", item, "missing_error", format!("read_map{} returned {:?} for an item that holds a value (wrong-kind access must be an error)", item.text(), g))),
            (Ok(Some(g)), Expect::Ok(m)) => {
                let mut gm: BTreeMap<Vec<u8>, Vec<u8>> = BTreeMap::new();
                let mut dup = false;
                for (k, v) in &g {
                    if gm.insert(k.clone(), v.clone()).is_some() {
                        dup = true;
                    }
                }
                if gm == m && !dup {
                    return Ok(());
                }
                let extra = gm.keys().any(|k| !m.contains_key(k));
                let missing = m.keys().any(|k| !gm.contains_key(k));
                let diff = if dup {
                    "duplicate_keys"
                } else if extra && missing {
                    "extra_and_missing_entries"
                } else if extra {
                    "extra_entries"
                } else if missing {
                    "missing_entries"
                } else {
                    "wrong_values"
                };
                Err(self.read_fail("read_map", item, diff, format!("read_map{} returned {:?}; the reference holds {:?}", item.text(), g, m)))
            }
        }
    }

    fn check_write(&mut self, kind: &'static str, item: Item, exp: Expect<()>, r: Result<Result<(), StoreError>, String>) -> Result<(), Fail> {
        match (r, exp) {
            (Err(p), _) => Err(self.fail(format!("law=no_panic op={}", kind), format!("{} on {} panicked: {}", kind, item.text(), p))),
            (Ok(Ok(())), Expect::Ok(())) => {
                self.last_write = Some((kind, item));
                self.since_write = "none";
                if self.model.items_with_data() >= 2 {
                    self.nontrivial = true;
                }
                Ok(())
            }
            (Ok(Err(_)), Expect::Err) => Ok(()),
            (Ok(Err(e)), Expect::Ok(())) => {
                let mut f = self.fail(format!("law=op_result op={} expected=ok got=err", kind), format!("{} on {} failed: {:?}", kind, item.text(), e));
                f.item = Some(item);
                Err(f)
            }
            (Ok(Ok(())), Expect::Err) => {
                let mut f = self.fail(
                    format!("law=op_result op={} expected=err got=ok", kind),
                    format!("{} on {} succeeded although the item holds the other kind (wrong-kind access must be an error)", kind, item.text()),
                );
                f.item = Some(item);
                Err(f)
            }
        }
    }

    /// Apply one operation of a sequence (index `idx`).
    pub fn apply(&mut self, op: &Op, idx: usize) -> Result<(), Fail> {
        self.step = idx + 1;
        self.ensure_open()?;
        let ks = keys();
        let pol = self.cfg.policy;
        match *op {
            Op::IdFor(i) => {
                self.id_for(i)?;
            }
            Op::Get(i) => self.read_value(i)?,
            Op::ReadMap(i) => self.read_map(i)?,
            Op::Put(i, v) => {
                let id = self.ensure_id(i)?;
                let exp = self.model.put(pol, i, VALS[v as usize]);
                self.calls += 1;
                let node = self.nodes[i.a as usize].as_mut().unwrap();
                let r = guarded(|| node.put_value(id, VALS[v as usize]));
                self.check_write("put", i, exp, r)?;
            }
            Op::Delete(i) => {
                let id = self.ensure_id(i)?;
                let exp = self.model.delete(pol, i);
                self.calls += 1;
                let node = self.nodes[i.a as usize].as_mut().unwrap();
                let r = guarded(|| node.delete_value(id));
                self.check_write("delete", i, exp, r)?;
            }
            Op::Update(i, k, v) => {
                let id = self.ensure_id(i)?;
                let exp = self.model.update(pol, i, ks[k as usize], VALS[v as usize]);
                self.calls += 1;
                let node = self.nodes[i.a as usize].as_mut().unwrap();
                let r = guarded(|| node.update_map(id, ks[k as usize], VALS[v as usize]));
                self.check_write("update", i, exp, r)?;
            }
            Op::Remove(i, k) => {
                let id = self.ensure_id(i)?;
                let exp = self.model.remove(pol, i, ks[k as usize]);
                self.calls += 1;
                let node = self.nodes[i.a as usize].as_mut().unwrap();
                let r = guarded(|| node.remove_map(id, ks[k as usize]));
                self.check_write("remove", i, exp, r)?;
            }
            Op::Clear(i) => {
                let id = self.ensure_id(i)?;
                let exp = self.model.clear(pol, i);
                self.calls += 1;
                let node = self.nodes[i.a as usize].as_mut().unwrap();
                let r = guarded(|| node.clear_map(id));
                self.check_write("clear", i, exp, r)?;
            }
            Op::Reacquire(a, m) => self.reacquire(a as usize, m)?,
            Op::Reopen => self.reopen()?,
        }
        Ok(())
    }

    /// Read back items: with `allocate` every item of `items` (ids are allocated on demand),
    /// otherwise only the items that already have an id.
    pub fn observe(&mut self, allocate: bool, items: &[Item]) -> Result<(), Fail> {
        let mut list: Vec<Item> = if allocate { items.to_vec() } else { self.ids.iter().map(|(i, _)| *i).collect() };
        if allocate {
            for (i, _) in &self.ids {
                if !list.contains(i) {
                    list.push(*i);
                }
            }
        }
        for it in list {
            match self.id_for(it) {
                Ok(_) => {}
                // an id collision is recorded and the remaining items are still checked
                Err(f) if f.sig.contains("law=id_distinct") => {
                    self.soft.push(f);
                    continue;
                }
                Err(f) => return Err(f),
            }
            self.read_value(it)?;
            self.read_map(it)?;
        }
        Ok(())
    }

    pub fn push_digest(&mut self) {
        let mut h = DefaultHasher::new();
        for (i, st) in &self.model.items {
            if *st != Default::default() {
                i.hash(&mut h);
                st.hash(&mut h);
            }
        }
        for (i, id) in &self.ids {
            i.hash(&mut h);
            format!("{:?}", id).hash(&mut h);
        }
        self.digests.push(h.finish());
    }
}

pub struct SeqOut {
    pub calls: u64,
    pub nontrivial: bool,
    pub digests: Vec<u64>,
    pub fails: Vec<Fail>,
}

fn run_on<S: ServerPersistence, F: Fn() -> Result<S, StoreError>>(open: F, cfg: Cfg, rocks: bool, items: &[Item], ops: &[Op], obs: ObsMode) -> SeqOut {
    let mut ex = Exec::new(open, cfg);
    let r = (|| -> Result<(), Fail> {
        ex.ensure_open()?;
        for (i, op) in ops.iter().enumerate() {
            ex.apply(op, i)?;
            if obs == ObsMode::EachStep {
                ex.observe(false, items)?;
            }
            ex.push_digest();
        }
        ex.step = ops.len();
        if rocks {
            if obs == ObsMode::EachStep {
                ex.observe(false, items)?;
            }
            ex.reopen()?;
        }
        ex.observe(true, items)?;
        ex.push_digest();
        Ok(())
    })();
    let fail = match r {
        Err(f) => Some(f),
        Ok(()) => ex.close().err(),
    };
    if fail.is_some() {
        let _ = ex.close();
    }
    let mut fails = std::mem::take(&mut ex.soft);
    fails.extend(fail);
    SeqOut { calls: ex.calls, nontrivial: ex.nontrivial, digests: std::mem::take(&mut ex.digests), fails }
}

fn wipe(dir: &Path) {
    let _ = std::fs::remove_dir_all(dir);
    if let Err(e) = std::fs::create_dir_all(dir) {
        vcommon::machinery_failure(&format!("cannot create {}: {}", dir.display(), e));
    }
}

/// Run one complete sequence on a fresh store. `dir` is the (reused, wiped) database directory
/// for the RocksDB backend.
pub fn run_sequence(backend: Backend, items: &[Item], ops: &[Op], obs: ObsMode, dir: Option<&Path>) -> SeqOut {
    match backend {
        Backend::Mem => {
            if ops.iter().any(|o| matches!(o, Op::Reopen)) {
                vcommon::machinery_failure("reopen is not an operation of the in-memory store");
            }
            run_on(|| Ok(MemServer), backend.cfg(), false, items, ops, obs)
        }
        Backend::Rocks { default_opts } => {
            let d = dir.unwrap_or_else(|| vcommon::machinery_failure("rocks backend needs a directory")).to_path_buf();
            wipe(&d);
            run_on(|| swimos_rocks_store::open_rocks_store(Some(d.clone()), rocks_opts(default_opts)), backend.cfg(), true, items, ops, obs)
        }
    }
}


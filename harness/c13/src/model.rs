//! Alphabets, operations and the reference model.

use serde_json::{json, Value};
use std::collections::BTreeMap;

pub const AGENTS: [&str; 3] = ["/a", "/a/b", "/b"];
/// Item names; indices 4 and 5 are only used by the crash legs as never-before-seen names.
pub const NAMES: [&str; 6] = ["x", "b/x", "", "x\u{0}", "fresh1", "fresh2"];
pub const VALS: [&[u8]; 2] = [&[], &[1]];

/// Map keys: empty, 0x00 / 0xFF bytes, shared prefixes, and lengths around the 8-byte prefix
/// extractor: K8 is the little-endian encoding of lane id 2 (the neighbour of lane 1), K9 is the
/// seek prefix of map lane 2 (`[MAP_TAG][id 2 LE]`).
pub fn keys() -> &'static [&'static [u8]] {
    &[
        &[],
        &[0],
        &[0, 0],
        &[255],
        &[255, 255],
        &[2, 0, 0, 0, 0, 0, 0, 0],
        &[1, 2, 0, 0, 0, 0, 0, 0, 0],
    ]
}

#[derive(Clone, Copy, Debug, PartialEq, Eq, PartialOrd, Ord, Hash)]
pub struct Item {
    pub a: u8,
    pub n: u8,
}

impl Item {
    pub fn uri(&self) -> &'static str {
        AGENTS[self.a as usize]
    }
    pub fn name(&self) -> &'static str {
        NAMES[self.n as usize]
    }
    pub fn text(&self) -> String {
        format!("({:?},{:?})", self.uri(), self.name())
    }
}

#[derive(Clone, Copy, Debug, PartialEq, Eq, PartialOrd, Ord, Hash)]
pub enum Op {
    IdFor(Item),
    Put(Item, u8),
    Get(Item),
    Delete(Item),
    Update(Item, u8, u8),
    Remove(Item, u8),
    Clear(Item),
    ReadMap(Item),
    /// (agent, mode): 0 = drop then acquire; 1 = request while held, drop, resolve (hand-over);
    /// 2 = request while held, cancel the request, drop, acquire.
    Reacquire(u8, u8),
    /// Close the database (all handles) and open it again. RocksDB only.
    Reopen,
}

impl Op {
    pub fn kind(&self) -> &'static str {
        match self {
            Op::IdFor(_) => "id_for",
            Op::Put(..) => "put",
            Op::Get(_) => "get",
            Op::Delete(_) => "delete",
            Op::Update(..) => "update",
            Op::Remove(..) => "remove",
            Op::Clear(_) => "clear",
            Op::ReadMap(_) => "read_map",
            Op::Reacquire(_, 0) => "reacquire",
            Op::Reacquire(_, 1) => "reacquire_handover",
            Op::Reacquire(..) => "reacquire_after_cancelled_request",
            Op::Reopen => "reopen",
        }
    }
    pub fn item(&self) -> Option<Item> {
        match self {
            Op::IdFor(i) | Op::Put(i, _) | Op::Get(i) | Op::Delete(i) | Op::Update(i, _, _) | Op::Remove(i, _) | Op::Clear(i) | Op::ReadMap(i) => Some(*i),
            _ => None,
        }
    }
}

pub fn op_text(op: &Op) -> String {
    let k = keys();
    match op {
        Op::IdFor(i) => format!("id_for{}", i.text()),
        Op::Put(i, v) => format!("put{} value={:?}", i.text(), VALS[*v as usize]),
        Op::Get(i) => format!("get{}", i.text()),
        Op::Delete(i) => format!("delete{}", i.text()),
        Op::Update(i, key, v) => format!("update{} key={:?} value={:?}", i.text(), k[*key as usize], VALS[*v as usize]),
        Op::Remove(i, key) => format!("remove{} key={:?}", i.text(), k[*key as usize]),
        Op::Clear(i) => format!("clear{}", i.text()),
        Op::ReadMap(i) => format!("read_map{}", i.text()),
        Op::Reacquire(a, _) => format!("{}({:?})", op.kind(), AGENTS[*a as usize]),
        Op::Reopen => "reopen".into(),
    }
}

fn enc(op: &Op) -> [u8; 5] {
    match *op {
        Op::IdFor(i) => [0, i.a, i.n, 0, 0],
        Op::Put(i, v) => [1, i.a, i.n, 0, v],
        Op::Get(i) => [2, i.a, i.n, 0, 0],
        Op::Delete(i) => [3, i.a, i.n, 0, 0],
        Op::Update(i, k, v) => [4, i.a, i.n, k, v],
        Op::Remove(i, k) => [5, i.a, i.n, k, 0],
        Op::Clear(i) => [6, i.a, i.n, 0, 0],
        Op::ReadMap(i) => [7, i.a, i.n, 0, 0],
        Op::Reacquire(a, m) => [8, a, 0, m, 0],
        Op::Reopen => [9, 0, 0, 0, 0],
    }
}

fn dec(e: &[u8]) -> Option<Op> {
    if e.len() != 5 || e[1] as usize >= AGENTS.len() || e[2] as usize >= NAMES.len() || e[3] as usize >= keys().len().max(3) || e[4] as usize >= VALS.len() {
        return None;
    }
    let i = Item { a: e[1], n: e[2] };
    Some(match e[0] {
        0 => Op::IdFor(i),
        1 => Op::Put(i, e[4]),
        2 => Op::Get(i),
        3 => Op::Delete(i),
        4 => Op::Update(i, e[3], e[4]),
        5 => Op::Remove(i, e[3]),
        6 => Op::Clear(i),
        7 => Op::ReadMap(i),
        8 => Op::Reacquire(e[1], e[3]),
        9 => Op::Reopen,
        _ => return None,
    })
}

pub fn ops_to_json(ops: &[Op]) -> Value {
    json!(ops.iter().map(|o| enc(o).to_vec()).collect::<Vec<_>>())
}

pub fn ops_from_json(v: &Value) -> Option<Vec<Op>> {
    let mut out = vec![];
    for e in v.as_array()? {
        let b: Vec<u8> = e.as_array()?.iter().map(|x| x.as_u64().unwrap_or(255) as u8).collect();
        out.push(dec(&b)?);
    }
    Some(out)
}

/// How a store treats an id that is used both as a value and as a map.
#[derive(Clone, Copy, Debug, PartialEq, Eq)]
pub enum KindPolicy {
    /// Wrong-kind access is an error and changes nothing (in-memory store).
    Exclusive,
    /// The value and the map of an id are independent slots (RocksDB store).
    Independent,
}

#[derive(Clone, Debug, Default, PartialEq, Eq, Hash, PartialOrd, Ord)]
pub struct ItemState {
    pub value: Option<Vec<u8>>,
    /// `Some(empty)` is distinguishable from `None` only under `Exclusive` (kind is kept).
    pub map: Option<BTreeMap<Vec<u8>, Vec<u8>>>,
}

impl ItemState {
    pub fn has_data(&self) -> bool {
        self.value.is_some() || self.map.as_ref().map(|m| !m.is_empty()).unwrap_or(false)
    }
}

#[derive(Clone, Debug, PartialEq, Eq)]
pub enum Expect<T> {
    Ok(T),
    Err,
}

#[derive(Clone, Debug, Default, PartialEq, Eq, Hash)]
pub struct Model {
    pub items: BTreeMap<Item, ItemState>,
}

impl Model {
    fn st(&mut self, i: Item) -> &mut ItemState {
        self.items.entry(i).or_default()
    }
    pub fn get_state(&self, i: Item) -> ItemState {
        self.items.get(&i).cloned().unwrap_or_default()
    }
    pub fn items_with_data(&self) -> usize {
        self.items.values().filter(|s| s.has_data()).count()
    }

    pub fn put(&mut self, p: KindPolicy, i: Item, v: &[u8]) -> Expect<()> {
        let s = self.st(i);
        if p == KindPolicy::Exclusive && s.value.is_none() && s.map.is_some() {
            return Expect::Err;
        }
        s.value = Some(v.to_vec());
        Expect::Ok(())
    }
    pub fn get(&self, p: KindPolicy, i: Item) -> Expect<Option<Vec<u8>>> {
        let s = self.get_state(i);
        if p == KindPolicy::Exclusive && s.value.is_none() && s.map.is_some() {
            return Expect::Err;
        }
        Expect::Ok(s.value)
    }
    pub fn delete(&mut self, p: KindPolicy, i: Item) -> Expect<()> {
        let s = self.st(i);
        if s.value.take().is_none() && p == KindPolicy::Exclusive && s.map.is_some() {
            return Expect::Err;
        }
        Expect::Ok(())
    }
    pub fn update(&mut self, p: KindPolicy, i: Item, k: &[u8], v: &[u8]) -> Expect<()> {
        let s = self.st(i);
        if p == KindPolicy::Exclusive && s.map.is_none() && s.value.is_some() {
            return Expect::Err;
        }
        s.map.get_or_insert_with(BTreeMap::new).insert(k.to_vec(), v.to_vec());
        Expect::Ok(())
    }
    pub fn remove(&mut self, p: KindPolicy, i: Item, k: &[u8]) -> Expect<()> {
        let s = self.st(i);
        match s.map.as_mut() {
            Some(m) => {
                m.remove(k);
                if p == KindPolicy::Independent && m.is_empty() {
                    s.map = None;
                }
                Expect::Ok(())
            }
            None => {
                if p == KindPolicy::Exclusive && s.value.is_some() {
                    Expect::Err
                } else {
                    Expect::Ok(())
                }
            }
        }
    }
    pub fn clear(&mut self, p: KindPolicy, i: Item) -> Expect<()> {
        let s = self.st(i);
        if s.map.take().is_none() && p == KindPolicy::Exclusive && s.value.is_some() {
            return Expect::Err;
        }
        Expect::Ok(())
    }
    pub fn read_map(&self, p: KindPolicy, i: Item) -> Expect<BTreeMap<Vec<u8>, Vec<u8>>> {
        let s = self.get_state(i);
        match s.map {
            Some(m) => Expect::Ok(m),
            None => {
                if p == KindPolicy::Exclusive && s.value.is_some() {
                    Expect::Err
                } else {
                    Expect::Ok(BTreeMap::new())
                }
            }
        }
    }

    /// Apply a mutating op to the model only (used by the crash legs to compute candidates).
    pub fn apply(&mut self, p: KindPolicy, op: &Op) {
        let k = keys();
        match *op {
            Op::Put(i, v) => {
                self.put(p, i, VALS[v as usize]);
            }
            Op::Delete(i) => {
                self.delete(p, i);
            }
            Op::Update(i, key, v) => {
                self.update(p, i, k[key as usize], VALS[v as usize]);
            }
            Op::Remove(i, key) => {
                self.remove(p, i, k[key as usize]);
            }
            Op::Clear(i) => {
                self.clear(p, i);
            }
            _ => {}
        }
    }
}

//! Model value pool, styled printer and re-formatting variants.
//!
//! The semantics of every generated text is *not* taken from the generator: every text is parsed
//! by the reference parser (`parse_recognize::<Value>`) and bucketed by the value it parses to.
//! A generator spelling that means something else than intended simply lands in another bucket
//! (and is then a useful near-miss).

use num_bigint::BigInt;
use swimos_model::identifier::is_identifier;
use swimos_model::{Attr, Blob, Item, Value};

// ---------------------------------------------------------------------------------------------
// value pool
// ---------------------------------------------------------------------------------------------

pub fn int(n: i128) -> Value {
    if let Ok(x) = i32::try_from(n) {
        Value::Int32Value(x)
    } else if let Ok(x) = i64::try_from(n) {
        Value::Int64Value(x)
    } else if let Ok(x) = u64::try_from(n) {
        Value::UInt64Value(x)
    } else {
        Value::BigInt(BigInt::from(n))
    }
}

fn text(s: &str) -> Value {
    Value::text(s)
}

fn blob(b: &[u8]) -> Value {
    Value::Data(Blob::from_vec(b.to_vec()))
}

/// Top-level atoms (boundary heavy). `(value, in_quick)`.
pub fn atoms_top() -> Vec<(Value, bool)> {
    let mut v: Vec<(Value, bool)> = vec![];
    let mut q = |x: Value| v.push((x, true));
    q(Value::Extant);
    q(Value::BooleanValue(true));
    q(Value::BooleanValue(false));
    for n in [0i128, 1, -1, 2, 10, 255, i32::MAX as i128, i32::MAX as i128 + 1, i32::MIN as i128 - 1, i64::MAX as i128, i64::MIN as i128, u64::MAX as i128, u64::MAX as i128 + 1, -(u64::MAX as i128) - 1] {
        q(int(n));
    }
    q(Value::BigInt(BigInt::from(2).pow(128)));
    q(Value::BigInt(-BigInt::from(2).pow(128)));
    for x in [0.0f64, -0.0, 1.0, -1.0, 1.5, 0.1, 2.0, 1e21, 1e300, 5e-324, 9007199254740993.0, f64::MAX, f64::NAN, f64::INFINITY, f64::NEG_INFINITY] {
        q(Value::Float64Value(x));
    }
    for t in [
        "", "a", "b", "ab", "a b", "true", "false", "1", "-1", "1.0", "0x1", "x,y", "x;y", "x:y", "x(y", "x)y", "x{y", "x}y", "x\"y", "x\\y", "\n", "x\ny",
        "\t", "\u{e9}", "@a", "%AA==", "%", "#c", "a\u{0}", "\u{ffff}", "\u{1d11e}", "NaN", "-", "_", "a-b", "a.b", "inf", "info", "nano",
    ] {
        q(text(t));
    }
    for b in [&[][..], &[0], &[1], &[1, 2], &[1, 2, 3], &[255, 255, 255, 255], &[0xfb, 0xff]] {
        q(blob(b));
    }
    v
}

/// Atoms used inside records. `(value, in_quick)`.
pub fn atoms_sub() -> Vec<(Value, bool)> {
    vec![
        (Value::Extant, true),
        (int(1), true),
        (int(2), true),
        (Value::Float64Value(1.0), true),
        (Value::Float64Value(-0.0), true),
        (text("a"), true),
        (text("b"), true),
        (text("x,y"), true),
        (Value::BooleanValue(true), true),
        (blob(&[1]), true),
        (int(0), false),
        (text("1"), false),
        (text("true"), false),
        (text("inf"), false),
        (text("a b"), false),
        (text("x)y"), false),
        (text(""), false),
        (int(-1), false),
        (Value::Float64Value(0.0), false),
    ]
}

fn rec(attrs: Vec<Attr>, items: Vec<Item>) -> Value {
    Value::Record(attrs, items)
}

fn vi(v: &Value) -> Item {
    Item::ValueItem(v.clone())
}

fn attr(name: &str, v: &Value) -> Attr {
    Attr::of((name, v.clone()))
}

/// The value pool, smallest first. Each entry carries `in_quick`.
pub fn value_pool() -> Vec<(Value, bool)> {
    let mut out: Vec<(Value, bool)> = atoms_top();
    let sub = atoms_sub();
    // the four "small" atoms used where a full cross product would explode
    let small: Vec<Value> = vec![Value::Extant, int(1), text("a"), Value::Float64Value(1.0)];
    let small_t: Vec<Value> = vec![Value::Extant, int(1), text("a"), Value::Float64Value(1.0), Value::Float64Value(-0.0), text("x,y"), int(2), text("b")];

    // R0
    out.push((rec(vec![], vec![]), true));

    // nested record values of size <= 2 used as items / attribute values
    let mut nested: Vec<Value> = vec![rec(vec![], vec![])];
    for s in &small {
        nested.push(rec(vec![], vec![vi(s)]));
    }
    nested.push(rec(vec![attr("b", &Value::Extant)], vec![]));
    nested.push(rec(vec![attr("b", &int(1))], vec![]));
    nested.push(rec(vec![attr("b", &Value::Extant)], vec![vi(&int(1))]));
    nested.push(rec(vec![], vec![Item::Slot(text("a"), int(1))]));
    nested.push(rec(vec![], vec![vi(&rec(vec![], vec![]))]));

    // R1: one item
    for (s, q) in &sub {
        out.push((rec(vec![], vec![vi(s)]), *q));
    }
    for (k, qk) in &sub {
        for (v, qv) in &sub {
            out.push((rec(vec![], vec![Item::Slot(k.clone(), v.clone())]), *qk && *qv));
        }
    }
    for n in &nested {
        out.push((rec(vec![], vec![vi(n)]), true));
        for s in &small {
            out.push((rec(vec![], vec![Item::Slot(s.clone(), n.clone())]), true));
            out.push((rec(vec![], vec![Item::Slot(n.clone(), s.clone())]), true));
        }
    }

    // attribute values
    let mut attr_vals: Vec<(Value, bool)> = sub.clone();
    for n in &nested {
        attr_vals.push((n.clone(), true));
    }
    for a in &small_t {
        for b in &small_t {
            let q = small.contains(a) && small.contains(b);
            attr_vals.push((rec(vec![], vec![vi(a), vi(b)]), q));
            attr_vals.push((rec(vec![], vec![Item::Slot(a.clone(), b.clone())]), q));
        }
    }
    attr_vals.push((rec(vec![], vec![vi(&rec(vec![], vec![vi(&int(1))])), vi(&rec(vec![], vec![vi(&int(2))]))]), true));
    attr_vals.push((rec(vec![], vec![vi(&rec(vec![attr("b", &Value::Extant)], vec![])), vi(&int(1))]), true));
    attr_vals.push((rec(vec![], vec![vi(&int(1)), vi(&rec(vec![attr("b", &Value::Extant)], vec![]))]), true));
    attr_vals.push((rec(vec![], vec![vi(&rec(vec![], vec![vi(&int(1)), vi(&int(2))]))]), true));
    attr_vals.push((rec(vec![], vec![vi(&int(1)), vi(&int(2)), vi(&int(1))]), true));

    // R3: one attribute, no items
    for (av, q) in &attr_vals {
        out.push((rec(vec![attr("a", av)], vec![]), *q));
    }
    // attribute names needing quotes
    for name in ["a b", "", "1", "true", "x,y", "\u{e9}"] {
        out.push((rec(vec![attr(name, &Value::Extant)], vec![]), true));
        out.push((rec(vec![attr(name, &int(1))], vec![]), true));
    }

    // R2: two items
    let mut small_items: Vec<Item> = small.iter().map(vi).collect();
    small_items.push(Item::Slot(text("a"), int(1)));
    small_items.push(Item::Slot(Value::Extant, Value::Extant));
    small_items.push(Item::Slot(int(1), Value::Extant));
    small_items.push(vi(&rec(vec![], vec![])));
    small_items.push(vi(&rec(vec![attr("b", &Value::Extant)], vec![])));
    for a in &small_items {
        for b in &small_items {
            out.push((rec(vec![], vec![a.clone(), b.clone()]), true));
        }
    }

    // R4: one attribute, one item
    let small_attr_vals: Vec<Value> = vec![
        Value::Extant,
        int(1),
        text("a"),
        rec(vec![], vec![]),
        rec(vec![], vec![vi(&int(1))]),
        rec(vec![], vec![vi(&int(1)), vi(&int(2))]),
        rec(vec![], vec![Item::Slot(text("a"), int(1))]),
        rec(vec![attr("b", &Value::Extant)], vec![]),
    ];
    let mut r4_items: Vec<Item> = small_items.clone();
    r4_items.push(vi(&rec(vec![], vec![vi(&int(1))])));
    r4_items.push(vi(&Value::Float64Value(-0.0)));
    r4_items.push(vi(&text("x,y")));
    for av in &small_attr_vals {
        for it in &r4_items {
            out.push((rec(vec![attr("a", av)], vec![it.clone()]), true));
        }
    }
    // R5: two attributes
    for av in &small_attr_vals {
        for bv in &small_attr_vals {
            out.push((rec(vec![attr("a", av), attr("b", bv)], vec![]), true));
        }
    }
    out.push((rec(vec![attr("a", &Value::Extant), attr("a", &Value::Extant)], vec![]), true));
    // deeper nesting
    let e = rec(vec![], vec![]);
    out.push((rec(vec![], vec![vi(&rec(vec![], vec![vi(&e)]))]), true));
    out.push((rec(vec![attr("a", &rec(vec![attr("b", &rec(vec![attr("c", &Value::Extant)], vec![]))], vec![]))], vec![]), true));
    out.push((rec(vec![attr("a", &rec(vec![], vec![vi(&rec(vec![], vec![vi(&e)]))]))], vec![]), true));

    // ---- thorough only: size 4
    // R6: two attributes and an item
    for av in &small_attr_vals {
        for bv in &small_attr_vals {
            for it in small_items.iter().take(6) {
                out.push((rec(vec![attr("a", av), attr("b", bv)], vec![it.clone()]), false));
            }
        }
    }
    // R7: one attribute, two items
    for av in &small_attr_vals {
        for a in &small_items {
            for b in &small_items {
                out.push((rec(vec![attr("a", av)], vec![a.clone(), b.clone()]), false));
            }
        }
    }
    // R8: three items
    for a in small_items.iter().take(6) {
        for b in small_items.iter().take(6) {
            for c in small_items.iter().take(6) {
                out.push((rec(vec![], vec![a.clone(), b.clone(), c.clone()]), false));
            }
        }
    }
    // R9: attribute whose value is a two-item record over the wider atoms, plus an item
    for a in &small_t {
        for b in &small_t {
            for it in small_items.iter().take(5) {
                out.push((rec(vec![attr("a", &rec(vec![], vec![vi(a), vi(b)]))], vec![it.clone()]), false));
            }
        }
    }
    // R10: one item records nested in a slot of an attribute body
    for n in &nested {
        for m in &nested {
            out.push((rec(vec![attr("a", &rec(vec![], vec![vi(n), vi(m)]))], vec![]), false));
            out.push((rec(vec![], vec![Item::Slot(n.clone(), m.clone())]), false));
        }
    }
    out
}

// ---------------------------------------------------------------------------------------------
// styled printer
// ---------------------------------------------------------------------------------------------

#[derive(Clone, Copy, PartialEq, Eq, Debug, Default, Hash, PartialOrd, Ord)]
pub struct Style {
    /// Extant attribute value: 0 `@a`, 1 `@a()`.
    pub attr_extant: u8,
    /// Attribute value that is an attribute-less record allowing the implicit form: 0 `@a(1,2)`, 1 `@a({1,2})`.
    pub attr_rec: u8,
    /// Body after attributes: 0 minimal (`@a`, `@a 1`), 1 always braces (`@a{}`, `@a{1}`).
    pub after_attr: u8,
    /// Item separator: 0 `,`, 1 `;`, 2 newline.
    pub sep: u8,
    /// Integers: 0 decimal, 1 hexadecimal, 2 leading zero, 3 binary, 4 `-0` for zero.
    pub int: u8,
    /// Floats: 0 `{:?}`, 1 `{:e}`, 2 leading `+`, 3 `{:E}`.
    pub float: u8,
    /// Text: 0 identifier where possible, 1 always quoted, 2 quoted with every char `\uXXXX`.
    pub text: u8,
    /// Attribute names: as `text`.
    pub name: u8,
}

const DIMS: [(usize, u8); 8] = [(0, 2), (1, 2), (2, 2), (3, 3), (4, 5), (5, 4), (6, 3), (7, 3)];

impl Style {
    fn set(&mut self, dim: usize, v: u8) {
        match dim {
            0 => self.attr_extant = v,
            1 => self.attr_rec = v,
            2 => self.after_attr = v,
            3 => self.sep = v,
            4 => self.int = v,
            5 => self.float = v,
            6 => self.text = v,
            _ => self.name = v,
        }
    }
}

/// Styles, quick ones first: the default, every single-dimension deviation, the all-deviating
/// style; thorough adds every two-dimension deviation.
pub fn styles() -> Vec<(Style, bool)> {
    let mut out = vec![(Style::default(), true)];
    for (d, n) in DIMS {
        for v in 1..n {
            let mut s = Style::default();
            s.set(d, v);
            out.push((s, true));
        }
    }
    out.push((Style { attr_extant: 1, attr_rec: 1, after_attr: 1, sep: 1, int: 1, float: 1, text: 1, name: 1 }, true));
    out.push((Style { attr_extant: 1, attr_rec: 1, after_attr: 1, sep: 2, int: 2, float: 3, text: 2, name: 2 }, true));
    for i in 0..DIMS.len() {
        for j in (i + 1)..DIMS.len() {
            for v in 1..DIMS[i].1 {
                for w in 1..DIMS[j].1 {
                    let mut s = Style::default();
                    s.set(DIMS[i].0, v);
                    s.set(DIMS[j].0, w);
                    out.push((s, false));
                }
            }
        }
    }
    out
}

#[derive(Clone, Debug, PartialEq, Eq)]
pub enum Tok {
    /// A primitive.
    Atom(String),
    /// `@name(`
    AttrOpen(String),
    /// `@name`
    AttrBare(String),
    /// `{`, `}`, `)`, `,`, `;`, `:`, newline
    P(&'static str),
}

impl Tok {
    fn text(&self) -> &str {
        match self {
            Tok::Atom(s) | Tok::AttrOpen(s) | Tok::AttrBare(s) => s,
            Tok::P(s) => s,
        }
    }
}

pub fn base64(data: &[u8]) -> String {
    const A: &[u8] = b"ABCDEFGHIJKLMNOPQRSTUVWXYZabcdefghijklmnopqrstuvwxyz0123456789+/";
    let mut s = String::new();
    for c in data.chunks(3) {
        let b = [c[0], *c.get(1).unwrap_or(&0), *c.get(2).unwrap_or(&0)];
        let n = ((b[0] as u32) << 16) | ((b[1] as u32) << 8) | b[2] as u32;
        s.push(A[(n >> 18) as usize & 63] as char);
        s.push(A[(n >> 12) as usize & 63] as char);
        s.push(if c.len() > 1 { A[(n >> 6) as usize & 63] as char } else { '=' });
        s.push(if c.len() > 2 { A[n as usize & 63] as char } else { '=' });
    }
    s
}

fn quote(s: &str, all_unicode: bool) -> String {
    let mut o = String::from("\"");
    for c in s.chars() {
        if all_unicode && (c as u32) <= 0xffff {
            o.push_str(&format!("\\u{:04x}", c as u32));
            continue;
        }
        match c {
            '"' => o.push_str("\\\""),
            '\\' => o.push_str("\\\\"),
            '\n' => o.push_str("\\n"),
            '\r' => o.push_str("\\r"),
            '\t' => o.push_str("\\t"),
            '\u{8}' => o.push_str("\\b"),
            '\u{c}' => o.push_str("\\f"),
            c if (c as u32) < 0x20 => o.push_str(&format!("\\u{:04x}", c as u32)),
            c => o.push(c),
        }
    }
    o.push('"');
    o
}

pub fn text_lit(s: &str, style: u8) -> String {
    match style {
        0 if is_identifier(s) && s != "true" && s != "false" => s.to_string(),
        0 | 1 => quote(s, false),
        _ => quote(s, true),
    }
}

fn int_lit(n: &BigInt, style: u8) -> String {
    let neg = n.sign() == num_bigint::Sign::Minus;
    let mag = n.magnitude();
    let sign = if neg { "-" } else { "" };
    match style {
        1 => format!("{}0x{}", sign, mag.to_str_radix(16)),
        2 => format!("{}0{}", sign, mag.to_str_radix(10)),
        3 => format!("{}0b{}", sign, mag.to_str_radix(2)),
        4 if mag.bits() == 0 => "-0".to_string(),
        _ => format!("{}{}", sign, mag.to_str_radix(10)),
    }
}

fn float_lit(x: f64, style: u8) -> String {
    if !x.is_finite() {
        return format!("{:?}", x);
    }
    match style {
        1 => format!("{:e}", x),
        2 => format!("+{:?}", x),
        3 => format!("{:E}", x),
        _ => format!("{:?}", x),
    }
}

fn as_bigint(v: &Value) -> Option<BigInt> {
    Some(match v {
        Value::Int32Value(n) => BigInt::from(*n),
        Value::Int64Value(n) => BigInt::from(*n),
        Value::UInt32Value(n) => BigInt::from(*n),
        Value::UInt64Value(n) => BigInt::from(*n),
        Value::BigInt(n) => n.clone(),
        Value::BigUint(n) => BigInt::from(n.clone()),
        _ => return None,
    })
}

fn is_record(v: &Value) -> bool {
    matches!(v, Value::Record(..))
}

fn sep_tok(st: &Style) -> Tok {
    Tok::P(match st.sep {
        0 => ",",
        1 => ";",
        _ => "\n",
    })
}

fn items(its: &[Item], st: &Style, out: &mut Vec<Tok>) {
    for (i, it) in its.iter().enumerate() {
        if i > 0 {
            out.push(sep_tok(st));
        }
        match it {
            Item::ValueItem(v) => value(v, st, out),
            Item::Slot(k, v) => {
                value(k, st, out);
                out.push(Tok::P(":"));
                value(v, st, out);
            }
        }
    }
}

fn attribute(a: &Attr, st: &Style, out: &mut Vec<Tok>) {
    let name = format!("@{}", text_lit(a.name.as_str(), st.name));
    match &a.value {
        Value::Extant => {
            if st.attr_extant == 0 {
                out.push(Tok::AttrBare(name));
            } else {
                out.push(Tok::AttrOpen(format!("{}(", name)));
                out.push(Tok::P(")"));
            }
        }
        Value::Record(attrs, its) if attrs.is_empty() => {
            let implicit_ok = its.len() >= 2 || matches!(its.first(), Some(Item::Slot(..)));
            out.push(Tok::AttrOpen(format!("{}(", name)));
            if implicit_ok && st.attr_rec == 0 {
                items(its, st, out);
            } else {
                out.push(Tok::P("{"));
                items(its, st, out);
                out.push(Tok::P("}"));
            }
            out.push(Tok::P(")"));
        }
        v => {
            out.push(Tok::AttrOpen(format!("{}(", name)));
            value(v, st, out);
            out.push(Tok::P(")"));
        }
    }
}

pub fn value(v: &Value, st: &Style, out: &mut Vec<Tok>) {
    match v {
        Value::Extant => {}
        Value::BooleanValue(b) => out.push(Tok::Atom(b.to_string())),
        Value::Float64Value(x) => out.push(Tok::Atom(float_lit(*x, st.float))),
        Value::Text(t) => out.push(Tok::Atom(text_lit(t.as_str(), st.text))),
        Value::Data(b) => out.push(Tok::Atom(format!("%{}", base64(b.as_ref())))),
        Value::Record(attrs, its) => {
            for a in attrs {
                attribute(a, st, out);
            }
            if attrs.is_empty() {
                out.push(Tok::P("{"));
                items(its, st, out);
                out.push(Tok::P("}"));
            } else if its.is_empty() {
                if st.after_attr == 1 {
                    out.push(Tok::P("{"));
                    out.push(Tok::P("}"));
                }
            } else if st.after_attr == 0 && its.len() == 1 && matches!(&its[0], Item::ValueItem(x) if !is_record(x) && *x != Value::Extant) {
                items(its, st, out);
            } else {
                out.push(Tok::P("{"));
                items(its, st, out);
                out.push(Tok::P("}"));
            }
        }
        other => {
            let n = as_bigint(other).expect("integer kind");
            out.push(Tok::Atom(int_lit(&n, st.int)));
        }
    }
}

/// Join tokens; `blank_at`: insert `blank` before token index i (1..n) for every i in the set,
/// `usize::MAX` = at every boundary (and at both ends).
pub fn join(toks: &[Tok], blank: &str, at: Option<usize>) -> String {
    let mut s = String::new();
    let all = at == Some(usize::MAX);
    if all {
        s.push_str(blank);
    }
    for (i, t) in toks.iter().enumerate() {
        if i > 0 {
            let inserted = all || at == Some(i);
            if inserted {
                s.push_str(blank);
            }
            // a bare attribute directly followed by a primitive needs one blank
            if !(inserted && blank == " ") {
                if let (Tok::AttrBare(_), Tok::Atom(_)) = (&toks[i - 1], t) {
                    s.push(' ');
                }
            }
        }
        s.push_str(t.text());
    }
    if all {
        s.push_str(blank);
    }
    s
}

pub fn tokens(v: &Value, st: &Style) -> Vec<Tok> {
    let mut out = vec![];
    value(v, st, &mut out);
    out
}

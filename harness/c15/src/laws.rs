//! The oracle on a pair of strings, and the reducer that brings a failing pair to a canonical
//! minimal form (used for signatures and replays).

use crate::lex::lex;
use bytes::BytesMut;
use std::collections::hash_map::DefaultHasher;
use std::hash::{BuildHasherDefault, Hash, Hasher};
use std::panic::{catch_unwind, AssertUnwindSafe};
use swimos_agent_protocol::MapOperation;
use swimos_model::Value;
use swimos_recon::parser::parse_recognize;
use swimos_recon::{compare_recon_values, recon_hash};
use swimos_runtime::verif_hooks::{MapOperationQueue, ReconKey};

pub const L_PANIC: u16 = 1 << 0; // compare_recon_values panicked
pub const L_SYM: u16 = 1 << 1; // compare(a,b) != compare(b,a)
pub const L_FALSE_POS: u16 = 1 << 2; // compare says equal; reference says different (merges keys)
pub const L_FALSE_NEG: u16 = 1 << 3; // compare says different; reference says equal (splits keys)
pub const L_HASH: u16 = 1 << 4; // equal (by both) but recon_hash differs
pub const L_KEY_EQ: u16 = 1 << 5; // ReconKey == disagrees with compare_recon_values
pub const L_HASH_PANIC: u16 = 1 << 6; // recon_hash panicked
pub const L_KEY_HASH: u16 = 1 << 7; // ReconKey's Hash differs from recon_hash
pub const L_Q_SPLIT: u16 = 1 << 8; // queue keeps two entries for equal keys
pub const L_Q_MERGE: u16 = 1 << 9; // queue coalesces distinct keys
pub const L_Q_PANIC: u16 = 1 << 10; // queue panicked
pub const N_LAWS: usize = 11;

pub fn law_name(bit: usize) -> &'static str {
    [
        "no_panic(compare_recon_values)",
        "compare_symmetric",
        "compare_equal_implies_parse_equal",
        "parse_equal_implies_compare_equal",
        "equal_implies_recon_hash_equal",
        "reconkey_eq_is_compare",
        "no_panic(recon_hash)",
        "reconkey_hash_is_recon_hash",
        "queue_splits_equal_keys",
        "queue_merges_distinct_keys",
        "no_panic(MapOperationQueue)",
    ][bit]
}

pub fn law_explanation(bit: usize) -> &'static str {
    [
        "compare_recon_values panicked",
        "compare_recon_values(a,b) != compare_recon_values(b,a)",
        "compare_recon_values(a,b) is true but the texts do not parse to equal values (or one is invalid and the strings differ): distinct map keys would be merged",
        "compare_recon_values(a,b) is false but both texts are valid and parse to equal values (or the strings are identical): one map key is treated as two",
        "the two texts compare equal (and parse to equal values) but recon_hash gives different hashes: a HashMap keyed by ReconKey treats them as two keys",
        "ReconKey::eq disagrees with compare_recon_values on the same texts",
        "recon_hash panicked",
        "Hash for ReconKey differs from recon_hash of its text",
        "MapOperationQueue kept two entries for keys that parse to equal values",
        "MapOperationQueue coalesced two operations whose keys parse to different values",
        "MapOperationQueue panicked",
    ][bit]
}

pub fn parse(s: &str) -> Result<Option<Value>, ()> {
    match catch_unwind(AssertUnwindSafe(|| parse_recognize::<Value>(s, false))) {
        Ok(Ok(v)) => Ok(Some(v)),
        Ok(Err(_)) => Ok(None),
        Err(_) => Err(()),
    }
}

pub fn rhash(s: &str) -> Option<u64> {
    catch_unwind(AssertUnwindSafe(|| {
        let mut h = DefaultHasher::new();
        recon_hash(s, &mut h);
        h.finish()
    }))
    .ok()
}

pub fn key_hash(k: &ReconKey) -> Option<u64> {
    catch_unwind(AssertUnwindSafe(|| {
        let mut h = DefaultHasher::new();
        k.hash(&mut h);
        h.finish()
    }))
    .ok()
}

pub fn cmp(a: &str, b: &str) -> Option<bool> {
    catch_unwind(AssertUnwindSafe(|| compare_recon_values(a, b))).ok()
}

pub fn key_eq(a: &ReconKey, b: &ReconKey) -> Option<bool> {
    catch_unwind(AssertUnwindSafe(|| a == b)).ok()
}

/// Pair laws given the expectation and the precomputed per-text facts. Returns the mask of
/// failing laws and the number of calls made into the implementation.
#[allow(clippy::too_many_arguments)]
pub fn pair_laws(a: &str, b: &str, ka: &ReconKey, kb: &ReconKey, expect: bool, ha: Option<u64>, hb: Option<u64>, same: bool) -> (u16, u64) {
    let mut calls = 1;
    let r1 = cmp(a, b);
    let r2 = if same {
        r1
    } else {
        calls += 1;
        cmp(b, a)
    };
    let (r1, r2) = match (r1, r2) {
        (Some(x), Some(y)) => (x, y),
        _ => return (L_PANIC, calls),
    };
    let mut m = 0;
    if r1 != r2 {
        m |= L_SYM;
    } else if r1 && !expect {
        m |= L_FALSE_POS;
    } else if !r1 && expect {
        m |= L_FALSE_NEG;
    } else if expect && ha.is_some() && hb.is_some() && ha != hb {
        m |= L_HASH;
    }
    calls += 1;
    match key_eq(ka, kb) {
        Some(k) if k == r1 => {}
        _ => m |= L_KEY_EQ,
    }
    (m, calls)
}

/// Everything recomputed from the two strings (reducer, replay).
pub fn string_laws(a: &str, b: &str) -> u16 {
    let pa = parse(a);
    let pb = parse(b);
    let expect = match (&pa, &pb) {
        (Ok(Some(x)), Ok(Some(y))) => x == y,
        _ => a == b,
    };
    let (ka, kb) = (ReconKey::from(a), ReconKey::from(b));
    let (ha, hb) = (rhash(a), rhash(b));
    let (mut m, _) = pair_laws(a, b, &ka, &kb, expect, ha, hb, a == b);
    if ha.is_none() || hb.is_none() {
        m |= L_HASH_PANIC;
    }
    if (ha.is_some() && key_hash(&ka) != ha) || (hb.is_some() && key_hash(&kb) != hb) {
        m |= L_KEY_HASH;
    }
    m
}

type Q = MapOperationQueue<BuildHasherDefault<DefaultHasher>>;

fn drain(q: &mut Q) -> Vec<String> {
    let mut out = vec![];
    let mut guard = 0;
    while let Some(op) = q.pop() {
        guard += 1;
        if guard > 16 {
            out.push("...".into());
            break;
        }
        out.push(match op {
            MapOperation::Update { key, value } => format!("update({:?},{:?})", String::from_utf8_lossy(&key), String::from_utf8_lossy(&value)),
            MapOperation::Remove { key } => format!("remove({:?})", String::from_utf8_lossy(&key)),
            MapOperation::Clear => "clear".into(),
        });
    }
    out
}

/// Push `update(a,"1")` then `update(b,"2")` (and, separately, `update(a,"1")` then `remove(b)`)
/// into a fresh queue and drain it. Returns the failing queue laws and the drained operations.
pub fn queue_laws(a: &str, b: &str, expect_equal: bool) -> (u16, Vec<Vec<String>>, u64) {
    let r = catch_unwind(AssertUnwindSafe(|| {
        let mut outs = vec![];
        for second_is_remove in [false, true] {
            let mut q: Q = MapOperationQueue::with_hasher(BuildHasherDefault::default());
            let _ = q.push(MapOperation::Update { key: BytesMut::from(a.as_bytes()), value: BytesMut::from(&b"1"[..]) });
            if second_is_remove {
                let _ = q.push(MapOperation::Remove { key: BytesMut::from(b.as_bytes()) });
            } else {
                let _ = q.push(MapOperation::Update { key: BytesMut::from(b.as_bytes()), value: BytesMut::from(&b"2"[..]) });
            }
            outs.push(drain(&mut q));
        }
        outs
    }));
    match r {
        Err(_) => (L_Q_PANIC, vec![], 6),
        Ok(outs) => {
            let mut m = 0;
            for (n, o) in outs.iter().enumerate() {
                if expect_equal {
                    let ok = o.len() == 1 && if n == 0 { o[0].starts_with("update(") && o[0].ends_with(",\"2\")") } else { o[0].starts_with("remove(") };
                    if !ok {
                        m |= L_Q_SPLIT;
                    }
                } else {
                    let ok = o.len() == 2
                        && o[0] == format!("update({:?},{:?})", a, "1")
                        && if n == 0 { o[1] == format!("update({:?},{:?})", b, "2") } else { o[1] == format!("remove({:?})", b) };
                    if !ok {
                        m |= L_Q_MERGE;
                    }
                }
            }
            (m, outs, 8)
        }
    }
}

pub fn string_queue_laws(a: &str, b: &str) -> (u16, Vec<Vec<String>>) {
    let pa = parse(a);
    let pb = parse(b);
    let expect = match (&pa, &pb) {
        (Ok(Some(x)), Ok(Some(y))) => x == y,
        _ => a == b,
    };
    let (m, o, _) = queue_laws(a, b, expect);
    (m, o)
}

// ---------------------------------------------------------------------------------------------
// reducer
// ---------------------------------------------------------------------------------------------

/// Canonical order on candidate texts: shorter first, then lexicographic with newline last.
fn order_key(x: &str) -> (usize, Vec<u32>) {
    (x.len(), x.chars().map(|c| if c == '\n' { u32::MAX } else { c as u32 }).collect())
}

fn smaller(x: &str, y: &str) -> bool {
    order_key(x) < order_key(y)
}

fn fails(law: u16, a: &str, b: &str) -> bool {
    if law & (L_Q_SPLIT | L_Q_MERGE | L_Q_PANIC) != 0 {
        string_queue_laws(a, b).0 & law != 0
    } else {
        string_laws(a, b) & law != 0
    }
}

/// `s` with the byte ranges `cuts` (sorted, disjoint) replaced by `r`.
fn edit(s: &str, cuts: &[(usize, usize)], r: &str) -> String {
    let mut o = String::with_capacity(s.len() + r.len());
    let mut last = 0;
    for &(st, en) in cuts {
        o.push_str(&s[last..st]);
        o.push_str(r);
        last = en;
    }
    o.push_str(&s[last..]);
    o
}

/// Contiguous token ranges of one side: (start byte, end byte).
fn ranges(s: &str) -> Vec<(usize, usize)> {
    let ts = lex(s);
    let mut out = vec![];
    for i in 0..ts.len() {
        for j in i..ts.len() {
            out.push((ts[i].start, ts[j].end));
        }
    }
    out.sort_by_key(|&(st, en)| (std::cmp::Reverse(en - st), st));
    out
}

/// Deletions of one side, largest first: contiguous token ranges, then pairs of tokens (brackets).
fn deletions(s: &str) -> Vec<(String, usize)> {
    let ts = lex(s);
    let mut out: Vec<(String, usize)> = ranges(s).into_iter().map(|(st, en)| (edit(s, &[(st, en)], ""), en - st)).collect();
    for i in 0..ts.len() {
        for j in (i + 2)..ts.len() {
            if matches!((ts[i].kind, ts[j].kind), ('{', '}') | ('@', ')')) {
                out.push((edit(s, &[(ts[i].start, ts[i].end), (ts[j].start, ts[j].end)], ""), ts[i].end - ts[i].start + ts[j].end - ts[j].start));
            }
        }
    }
    out.sort_by(|x, y| y.1.cmp(&x.1));
    out
}

/// Simplifications of one side: a token replaced by the canonical small token of its own lexical
/// kind, any primitive replaced by `0`, a string literal / `@"name"` / `@a()` respelled in its
/// shortest form, a balanced `{..}` range replaced by `0`.
fn replacements(s: &str) -> Vec<String> {
    let ts = lex(s);
    let mut out = vec![];
    for (i, t) in ts.iter().enumerate() {
        let old = &s[t.start..t.end];
        let cands: &[&str] = match t.kind {
            'N' => &["0", "1", "2"],
            'O' => &[".0", "0"],
            'Z' => &["-.0", "0"],
            'F' => &[".5", "1.", "0"],
            'I' => &["a", "b", "0"],
            'B' => &["0"],
            'S' => &["\"\"", "\"a\"", "0"],
            'Q' => &["\",\"", "0"],
            'X' | 'Y' => &["\"\\u002c\"", "\"\\u0061\"", "0"],
            'D' => &["%", "%AA==", "0"],
            ';' | 'n' => &[","],
            '@' => {
                if old.ends_with('(') {
                    &["@a(", "@b("]
                } else {
                    &["@a", "@b", "0"]
                }
            }
            _ => &[],
        };
        for r in cands {
            if smaller(r, old) {
                out.push(edit(s, &[(t.start, t.end)], r));
            }
        }
        // shortest spelling of a string literal
        if matches!(t.kind, 'S' | 'Q' | 'X' | 'Y') {
            if let Ok(Some(Value::Text(txt))) = parse(old) {
                let c = crate::gen::text_lit(txt.as_str(), 0);
                if t.start > 0 && s.as_bytes()[t.start - 1] == b'@' {
                    for r in ["a", "b"] {
                        out.push(edit(s, &[(t.start, t.end)], r));
                    }
                }
                if smaller(&c, old) {
                    let at_name = t.start > 0 && s.as_bytes()[t.start - 1] == b'@';
                    let follows_bare_attr = i > 0 && ts[i - 1].kind == '@' && !s[ts[i - 1].start..ts[i - 1].end].ends_with('(');
                    if at_name || !follows_bare_attr {
                        out.push(edit(s, &[(t.start, t.end)], &c));
                    } else {
                        out.push(edit(s, &[(t.start, t.end)], &format!(" {}", c)));
                    }
                }
            }
        }
        // `@a()` -> `@a`
        if t.kind == '@' && old.ends_with('(') && i + 1 < ts.len() && ts[i + 1].kind == ')' {
            out.push(edit(s, &[(t.end - 1, ts[i + 1].end)], ""));
        }
        if t.kind == '{' {
            let mut depth = 0;
            for u in &ts[i..] {
                if u.kind == '{' {
                    depth += 1;
                } else if u.kind == '}' {
                    depth -= 1;
                    if depth == 0 {
                        out.push(edit(s, &[(t.start, u.end)], "0"));
                        break;
                    }
                }
            }
        }
    }
    out
}

/// Reduce a failing pair for `law` (a single bit) to a local minimum. Deterministic; depends only
/// on the two strings. Only deletions and same-kind simplifications are applied, so whatever
/// makes the reduced pair fail was already present in the original pair. A pair (a,a) stays
/// reflexive.
pub fn reduce(law: u16, a0: &str, b0: &str, memo: &Memo) -> (String, String, u64) {
    let mut a = a0.to_string();
    let mut b = b0.to_string();
    let reflexive = a == b;
    let mut evals = 0u64;
    let mut guard = 0;
    let mut visited: Vec<(String, String)> = vec![];
    'outer: loop {
        guard += 1;
        if guard > 300 {
            break;
        }
        // the reduction is a deterministic function of the current pair: reuse a finished one
        if let Some((fa, fb)) = memo.lock().unwrap().get(&(law, a.clone(), b.clone())) {
            a = fa.clone();
            b = fb.clone();
            break;
        }
        visited.push((a.clone(), b.clone()));
        let mut try_pair = |na: &str, nb: &str, a: &mut String, b: &mut String| -> bool {
            evals += 1;
            if fails(law, na, nb) {
                *a = na.to_string();
                *b = nb.to_string();
                true
            } else {
                false
            }
        };
        if reflexive {
            for (na, _) in deletions(&a) {
                if try_pair(&na, &na, &mut a, &mut b) {
                    continue 'outer;
                }
            }
            for na in replacements(&a) {
                if try_pair(&na, &na, &mut a, &mut b) {
                    continue 'outer;
                }
            }
            let idx: Vec<(usize, char)> = a.char_indices().collect();
            for (p, c) in idx {
                let na = edit(&a, &[(p, p + c.len_utf8())], "");
                if try_pair(&na, &na, &mut a, &mut b) {
                    continue 'outer;
                }
            }
            break;
        }
        // 1. the same text removed from both sides, largest first
        let (rga, rgb) = (ranges(&a), ranges(&b));
        for &(sa, ea) in &rga {
            for &(sb, eb) in &rgb {
                if a[sa..ea] == b[sb..eb] {
                    let (na, nb) = (edit(&a, &[(sa, ea)], ""), edit(&b, &[(sb, eb)], ""));
                    if try_pair(&na, &nb, &mut a, &mut b) {
                        continue 'outer;
                    }
                }
            }
        }
        // 2. one side only, largest deletion first
        let da = deletions(&a);
        let db = deletions(&b);
        let mut single: Vec<(bool, &String, usize)> = da.iter().map(|(t, n)| (true, t, *n)).chain(db.iter().map(|(t, n)| (false, t, *n))).collect();
        single.sort_by(|x, y| y.2.cmp(&x.2));
        for (is_a, t, _) in single {
            let ok = if is_a { try_pair(t, &b.clone(), &mut a, &mut b) } else { try_pair(&a.clone(), t, &mut a, &mut b) };
            if ok {
                continue 'outer;
            }
        }
        // 3. any deletion of a with any deletion of b, largest first (bounded)
        let mut joint: Vec<(usize, usize, usize)> = vec![];
        for (x, (_, n)) in da.iter().enumerate() {
            for (y, (_, m)) in db.iter().enumerate() {
                joint.push((n + m, x, y));
            }
        }
        joint.sort_by(|p, q| q.0.cmp(&p.0).then(p.1.cmp(&q.1)).then(p.2.cmp(&q.2)));
        for (_, x, y) in joint.into_iter().take(2500) {
            if try_pair(&da[x].0, &db[y].0, &mut a, &mut b) {
                continue 'outer;
            }
        }
        // 4. same-kind simplifications: both sides, then one side
        let ra = replacements(&a);
        let rb = replacements(&b);
        for x in &ra {
            for y in &rb {
                if try_pair(x, y, &mut a, &mut b) {
                    continue 'outer;
                }
            }
        }
        for x in &ra {
            if try_pair(x, &b.clone(), &mut a, &mut b) {
                continue 'outer;
            }
        }
        for y in &rb {
            if try_pair(&a.clone(), y, &mut a, &mut b) {
                continue 'outer;
            }
        }
        // 5. single character deletion
        let ia: Vec<(usize, char)> = a.char_indices().collect();
        for (p, c) in ia {
            let na = edit(&a, &[(p, p + c.len_utf8())], "");
            if try_pair(&na, &b.clone(), &mut a, &mut b) {
                continue 'outer;
            }
        }
        let ib: Vec<(usize, char)> = b.char_indices().collect();
        for (p, c) in ib {
            let nb = edit(&b, &[(p, p + c.len_utf8())], "");
            if try_pair(&a.clone(), &nb, &mut a, &mut b) {
                continue 'outer;
            }
        }
        break;
    }
    {
        let mut m = memo.lock().unwrap();
        for (va, vb) in visited {
            m.insert((law, va, vb), (a.clone(), b.clone()));
        }
    }
    (a, b, evals)
}

/// Canonical orientation of a reduced pair.
pub fn orient(law: u16, a: String, b: String) -> (String, String) {
    if order_key(&b) < order_key(&a) && fails(law, &b, &a) {
        (b, a)
    } else {
        (a, b)
    }
}

pub type Memo = std::sync::Mutex<std::collections::HashMap<(u16, String, String), (String, String)>>;

//! A small best-effort lexer over Recon-ish text. Used only for (a) the coarse *shape* of a text
//! (grouping of raw failures before they are reduced) and (b) token boundaries for the reducer.
//! It never decides validity or meaning - the reference parser does.

use swimos_model::identifier::{is_identifier_char, is_identifier_start};

#[derive(Clone, Copy, Debug, PartialEq, Eq)]
pub struct LTok {
    pub start: usize,
    pub end: usize,
    pub kind: char,
}

fn is_b64(c: char) -> bool {
    c.is_ascii_alphanumeric() || c == '+' || c == '/' || c == '='
}

pub fn lex(s: &str) -> Vec<LTok> {
    let cs: Vec<(usize, char)> = s.char_indices().collect();
    let n = cs.len();
    let pos = |i: usize| if i < n { cs[i].0 } else { s.len() };
    let mut out = vec![];
    let mut i = 0;
    while i < n {
        let (st, c) = cs[i];
        let mut j = i + 1;
        let kind;
        if c == '"' {
            let mut raw_delim = false;
            let mut esc = false;
            let mut closed = false;
            while j < n {
                let d = cs[j].1;
                if d == '\\' {
                    esc = true;
                    j += 2;
                    continue;
                }
                if d == '"' {
                    closed = true;
                    j += 1;
                    break;
                }
                if ",;:(){}@\n ".contains(d) {
                    raw_delim = true;
                }
                j += 1;
            }
            if j > n {
                j = n;
            }
            kind = if !closed {
                'U'
            } else {
                match (raw_delim, esc) {
                    (false, false) => 'S',
                    (true, false) => 'Q',
                    (false, true) => 'X',
                    (true, true) => 'Y',
                }
            };
        } else if c == '@' && j < n && (is_identifier_start(cs[j].1)) {
            while j < n && is_identifier_char(cs[j].1) {
                j += 1;
            }
            if j < n && cs[j].1 == '(' {
                j += 1;
            }
            kind = '@';
        } else if c == ' ' || c == '\t' {
            while j < n && (cs[j].1 == ' ' || cs[j].1 == '\t') {
                j += 1;
            }
            kind = ' ';
        } else if c == '\n' || c == '\r' {
            while j < n && (cs[j].1 == '\n' || cs[j].1 == '\r') {
                j += 1;
            }
            kind = 'n';
        } else if c == '%' {
            while j < n && is_b64(cs[j].1) {
                j += 1;
            }
            kind = 'D';
        } else if c.is_ascii_digit() || ((c == '-' || c == '+') && j < n && cs[j].1.is_ascii_digit()) {
            while j < n {
                let d = cs[j].1;
                let prev = cs[j - 1].1;
                if d.is_ascii_alphanumeric() || d == '.' || d == '_' || ((d == '-' || d == '+') && (prev == 'e' || prev == 'E')) {
                    j += 1;
                } else {
                    break;
                }
            }
            let t = &s[st..pos(j)];
            let body = t.trim_start_matches(['-', '+']);
            let low = body.to_ascii_lowercase();
            kind = if low.starts_with("0x") || low.starts_with("0b") {
                'N'
            } else if low.contains('.') || low.contains('e') {
                match t.trim_start_matches('+').parse::<f64>() {
                    Ok(x) if x == 0.0 && x.is_sign_negative() => 'Z',
                    Ok(x) if x == 0.0 => 'O',
                    _ => 'F',
                }
            } else {
                'N'
            };
        } else if is_identifier_start(c) {
            while j < n && is_identifier_char(cs[j].1) {
                j += 1;
            }
            let t = &s[st..pos(j)];
            kind = if t == "true" || t == "false" { 'B' } else { 'I' };
        } else {
            kind = c;
        }
        out.push(LTok { start: st, end: pos(j), kind });
        i = j;
    }
    out
}

/// Coarse shape: token kinds, blanks dropped.
pub fn shape(s: &str) -> String {
    lex(s).iter().filter(|t| t.kind != ' ').map(|t| t.kind).collect()
}

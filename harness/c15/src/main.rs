//! C15 - Comparing and hashing Recon text agrees with comparing parsed values.
//!
//! Engine E4 (bounded exhaustive enumeration). A pool of model values (tree size <= 3, boundary
//! atoms; thorough: size 4) is printed with the three Recon printers and with a styled printer
//! enumerating the legal re-formattings (blank insertion at every token boundary, `{}`/`()` body
//! forms, `@a` / `@a()` / `@a{}`, numeric spellings, `-0`, identifier / string / escaped forms),
//! plus single-edit mutations of those texts and a hand-written pool of invalid texts.
//!
//! Every text is parsed with `parse_recognize::<Value>` (the reference); "valid" and "equal"
//! are defined by it and by `Value`'s `PartialEq`. On every enumerated pair:
//!   * both valid: `compare_recon_values(a,b) == (parse(a) == parse(b))`
//!   * otherwise:  `compare_recon_values(a,b) == (a == b)`
//!   * reflexive, symmetric, no panic
//!   * equal => `recon_hash` equal (SipHash-1-3, zero keys)
//!   * `ReconKey`'s `==`/`Hash` agree with the above, and the `MapOperationQueue` coalesces two
//!     operations exactly when their keys are equal by the reference.

mod gen;
mod laws;
mod lex;

use laws::*;
use serde_json::json;
use std::collections::{BTreeMap, HashMap};
use std::time::Instant;
use swimos_model::{Item, Value};
use swimos_recon::{print_recon, print_recon_compact, print_recon_pretty};
use swimos_runtime::verif_hooks::ReconKey;
use vcommon::{ncpu, par_map, Ctx, Leg};

// ---------------------------------------------------------------------------------------------
// text database
// ---------------------------------------------------------------------------------------------

#[derive(Clone, Copy, PartialEq, Eq, Debug)]
enum Class {
    Valid(u32),
    Invalid,
    Panics,
}

struct TextInfo {
    s: String,
    rank: u8,
    class: Class,
    hash: Option<u64>,
    key: ReconKey,
    shape: u32,
    /// Grouping id of raw failures: the bucket for valid texts, the token shape otherwise.
    gid: u32,
    /// Lexical features (negative zero float, zero float, newline, string with raw delimiter,
    /// string with escapes, `;`): failures are grouped separately per feature combination.
    feat: u8,
    text_mask: u16,
}

struct Bucket {
    value: Value,
    flat: u32,
    texts: Vec<u32>,
    primary: bool,
}

#[derive(Default)]
struct Interner {
    list: Vec<(String, u8)>,
    index: HashMap<String, u32>,
}

impl Interner {
    fn add(&mut self, s: String, rank: u8) -> u32 {
        if let Some(&i) = self.index.get(&s) {
            if self.list[i as usize].1 > rank {
                self.list[i as usize].1 = rank;
            }
            i
        } else {
            let i = self.list.len() as u32;
            self.index.insert(s.clone(), i);
            self.list.push((s, rank));
            i
        }
    }
}

fn hex(b: &[u8]) -> String {
    b.iter().map(|x| format!("{:02x}", x)).collect()
}

/// Canonical key: equal keys <=> `Value::eq` (verified on all pairs of primary buckets).
fn ckey(v: &Value, out: &mut String) {
    use num_bigint::BigInt;
    match v {
        Value::Extant => out.push('E'),
        Value::BooleanValue(b) => out.push(if *b { 'T' } else { 'F' }),
        Value::Int32Value(n) => out.push_str(&format!("i{};", n)),
        Value::Int64Value(n) => out.push_str(&format!("i{};", n)),
        Value::UInt32Value(n) => out.push_str(&format!("i{};", n)),
        Value::UInt64Value(n) => out.push_str(&format!("i{};", n)),
        Value::BigInt(n) => out.push_str(&format!("i{};", n)),
        Value::BigUint(n) => out.push_str(&format!("i{};", BigInt::from(n.clone()))),
        Value::Float64Value(x) => {
            if x.is_nan() {
                out.push_str("fnan;")
            } else if *x == 0.0 {
                out.push_str("f0;")
            } else {
                out.push_str(&format!("f{:016x};", x.to_bits()))
            }
        }
        Value::Text(t) => out.push_str(&format!("s{}:{}", t.as_str().len(), t.as_str())),
        Value::Data(b) => out.push_str(&format!("d{};", hex(b.as_ref()))),
        Value::Record(attrs, items) => {
            out.push_str("R[");
            for a in attrs {
                out.push_str(&format!("@{}:{}=", a.name.as_str().len(), a.name.as_str()));
                ckey(&a.value, out);
            }
            out.push('|');
            for it in items {
                match it {
                    Item::ValueItem(v) => {
                        out.push('v');
                        ckey(v, out);
                    }
                    Item::Slot(k, v) => {
                        out.push('k');
                        ckey(k, out);
                        ckey(v, out);
                    }
                }
            }
            out.push(']');
        }
    }
}

/// Loose flattening used to decide which buckets are *neighbours*: structure dropped, numbers by
/// numeric value, text/bool/attribute names by content, Extant dropped.
fn flat(v: &Value, out: &mut Vec<String>) {
    match v {
        Value::Extant => {}
        Value::BooleanValue(b) => out.push(b.to_string()),
        Value::Int32Value(n) => out.push(format!("{}", *n as f64)),
        Value::Int64Value(n) => out.push(format!("{}", *n as f64)),
        Value::UInt32Value(n) => out.push(format!("{}", *n as f64)),
        Value::UInt64Value(n) => out.push(format!("{}", *n as f64)),
        Value::BigInt(n) => out.push(format!("{}", num_bigint_to_f64(&n.to_string()))),
        Value::BigUint(n) => out.push(format!("{}", num_bigint_to_f64(&n.to_string()))),
        Value::Float64Value(x) => out.push(if x.is_nan() { "NaN".into() } else if *x == 0.0 { "0".into() } else { format!("{}", x) }),
        Value::Text(t) => out.push(t.as_str().to_string()),
        Value::Data(b) => out.push(format!("%{}", gen::base64(b.as_ref()))),
        Value::Record(attrs, items) => {
            for a in attrs {
                out.push(a.name.as_str().to_string());
                flat(&a.value, out);
            }
            for it in items {
                match it {
                    Item::ValueItem(v) => flat(v, out),
                    Item::Slot(k, v) => {
                        flat(k, out);
                        flat(v, out);
                    }
                }
            }
        }
    }
}

fn num_bigint_to_f64(s: &str) -> f64 {
    s.parse::<f64>().unwrap_or(f64::NAN)
}

struct Db {
    texts: Vec<TextInfo>,
    buckets: Vec<Bucket>,
    shapes: Vec<String>,
    n_flats: usize,
}

struct Classified {
    value: Result<Option<Value>, ()>,
    ckey: String,
    flat: String,
    hash: Option<u64>,
    key: ReconKey,
    shape: String,
    mask: u16,
}

fn classify(s: &str) -> Classified {
    let value = parse(s);
    let (mut ck, mut fl) = (String::new(), String::new());
    if let Ok(Some(v)) = &value {
        ckey(v, &mut ck);
        let mut f = vec![];
        flat(v, &mut f);
        fl = f.join("\u{1f}");
    }
    let hash = rhash(s);
    let key = ReconKey::from(s);
    let mut mask = 0;
    if hash.is_none() {
        mask |= L_HASH_PANIC;
    } else if key_hash(&key) != hash {
        mask |= L_KEY_HASH;
    }
    Classified { value, ckey: ck, flat: fl, hash, key, shape: lex::shape(s), mask }
}

fn build_db(list: Vec<(String, u8)>, n_primary_texts: usize, mutant_cap: usize) -> Db {
    let cls: Vec<Classified> = par_map(&list, ncpu(), |_, (s, _)| classify(s));
    let mut texts = Vec::with_capacity(list.len());
    let mut buckets: Vec<Bucket> = vec![];
    let mut bidx: HashMap<String, u32> = HashMap::new();
    let mut shapes: Vec<String> = vec![];
    let mut sidx: HashMap<String, u32> = HashMap::new();
    let mut fidx: HashMap<String, u32> = HashMap::new();
    for (i, ((s, rank), c)) in list.into_iter().zip(cls).enumerate() {
        let shape = *sidx.entry(c.shape.clone()).or_insert_with(|| {
            shapes.push(c.shape.clone());
            (shapes.len() - 1) as u32
        });
        let class = match c.value {
            Err(()) => Class::Panics,
            Ok(None) => Class::Invalid,
            Ok(Some(v)) => {
                let nf = fidx.len() as u32;
                let f = *fidx.entry(c.flat).or_insert(nf);
                let b = match bidx.get(&c.ckey) {
                    Some(&b) => {
                        if buckets[b as usize].value != v || v != buckets[b as usize].value {
                            vcommon::machinery_failure("canonical bucket key disagrees with Value::eq (one bucket holds != values)");
                        }
                        b
                    }
                    None => {
                        buckets.push(Bucket { value: v, flat: f, texts: vec![], primary: false });
                        bidx.insert(c.ckey, (buckets.len() - 1) as u32);
                        (buckets.len() - 1) as u32
                    }
                };
                buckets[b as usize].texts.push(i as u32);
                if i < n_primary_texts {
                    buckets[b as usize].primary = true;
                }
                Class::Valid(b)
            }
        };
        let gid = match class {
            Class::Valid(b) => b,
            _ => 0x8000_0000 | shape,
        };
        let mut feat = 0u8;
        for ch in c.shape.chars() {
            feat |= match ch {
                'Z' => 1,
                'O' => 2,
                'n' => 4,
                'Q' => 8,
                'X' => 16,
                'Y' => 24,
                ';' => 32,
                'U' => 64,
                _ => 0,
            };
        }
        texts.push(TextInfo { s, rank, class, hash: c.hash, key: c.key, shape, gid, feat, text_mask: c.mask });
    }
    // quick-tier texts first inside every bucket (so that "the first K texts" of a bucket in the
    // thorough tier extend those of the quick tier)
    // Texts that reached a bucket only as a mutant of some base are kept up to `mutant_cap` per
    // bucket (shortest first) for the bucket-wise legs; all of them stay in the mutation leg.
    for b in buckets.iter_mut() {
        let (mut prim, mut muts): (Vec<u32>, Vec<u32>) = b.texts.iter().partition(|&&t| (t as usize) < n_primary_texts);
        let key = |t: u32| (texts[t as usize].rank, texts[t as usize].s.len(), texts[t as usize].s.as_str());
        muts.sort_by(|&x, &y| key(x).cmp(&key(y)));
        muts.truncate(mutant_cap);
        prim.extend(muts);
        // tier-independent order: quick-tier texts first, then shortest first
        prim.sort_by(|&x, &y| key(x).cmp(&key(y)));
        b.texts = prim;
    }
    Db { texts, buckets, shapes, n_flats: fidx.len() }
}

// ---------------------------------------------------------------------------------------------
// accumulation of raw failures
// ---------------------------------------------------------------------------------------------

type GKey = (u8, u32, u32, u8, u8); // law bit, group ids (sorted), features

#[derive(Clone, Copy)]
struct Group {
    count: u64,
    best: (u8, u32, u32, u32), // rank sum, length sum, i, j
}

#[derive(Default)]
struct Acc {
    evals: u64,
    calls: u64,
    nontrivial: u64,
    groups: HashMap<GKey, Group>,
    /// failing pairs not recorded because the per-worker group table was full
    overflow: u64,
}

const MAX_GROUPS_PER_WORKER: usize = 50_000;

impl Acc {
    fn fail(&mut self, db: &Db, mask: u16, i: u32, j: u32) {
        let (ti, tj) = (&db.texts[i as usize], &db.texts[j as usize]);
        let (ga, gb) = ((ti.gid, ti.feat), (tj.gid, tj.feat));
        let ((sa, fa), (sb, fb)) = if ga <= gb { (ga, gb) } else { (gb, ga) };
        let cand = (ti.rank + tj.rank, (ti.s.len() + tj.s.len()) as u32, i, j);
        for bit in 0..N_LAWS {
            if mask & (1 << bit) != 0 {
                if self.groups.len() >= MAX_GROUPS_PER_WORKER && !self.groups.contains_key(&(bit as u8, sa, sb, fa, fb)) {
                    self.overflow += 1;
                    continue;
                }
                let g = self.groups.entry((bit as u8, sa, sb, fa, fb)).or_insert(Group { count: 0, best: cand });
                g.count += 1;
                if better(db, cand, g.best) {
                    g.best = cand;
                }
            }
        }
    }

}

/// Tier-independent preference between two example pairs of one group: quick-tier texts first,
/// then shortest, then by the texts themselves.
fn better(db: &Db, x: (u8, u32, u32, u32), y: (u8, u32, u32, u32)) -> bool {
    if (x.0, x.1) != (y.0, y.1) {
        return (x.0, x.1) < (y.0, y.1);
    }
    let t = |i: u32| db.texts[i as usize].s.as_str();
    (t(x.2), t(x.3)) < (t(y.2), t(y.3))
}

fn expect(db: &Db, i: u32, j: u32) -> bool {
    match (db.texts[i as usize].class, db.texts[j as usize].class) {
        (Class::Valid(a), Class::Valid(b)) => a == b,
        _ => i == j,
    }
}

/// Check the unordered pair {i,j} (both directions).
fn check_pair(db: &Db, i: u32, j: u32, acc: &mut Acc) -> u16 {
    let (ti, tj) = (&db.texts[i as usize], &db.texts[j as usize]);
    // a text on which the reference parser itself panics is checked against itself only (leg 0):
    // paired with anything else it would only repeat that one failure
    if i != j && (ti.class == Class::Panics || tj.class == Class::Panics) {
        return 0;
    }
    let e = expect(db, i, j);
    let (m, calls) = pair_laws(&ti.s, &tj.s, &ti.key, &tj.key, e, ti.hash, tj.hash, i == j);
    acc.evals += if i == j { 1 } else { 2 };
    acc.calls += calls;
    if m != 0 {
        acc.fail(db, m, i, j);
    }
    m
}

/// Run `f(unit, acc)` for every unit, striding the units over worker chunks.
fn run_units<U: Sync, F: Fn(&U, &mut Acc) + Sync>(db: &Db, units: &[U], f: F) -> Acc {
    let chunks = (ncpu() * 8).max(1);
    let ids: Vec<usize> = (0..chunks).collect();
    let accs = par_map(&ids, ncpu(), |_, &c| {
        let mut acc = Acc::default();
        let mut k = c;
        while k < units.len() {
            f(&units[k], &mut acc);
            k += chunks;
        }
        acc
    });
    let mut total = Acc::default();
    for a in accs {
        merge_into(db, &mut total, a);
    }
    total
}

fn merge_into(db: &Db, total: &mut Acc, o: Acc) {
    total.evals += o.evals;
    total.calls += o.calls;
    total.nontrivial += o.nontrivial;
    total.overflow += o.overflow;
    for (k, g) in o.groups {
        match total.groups.get_mut(&k) {
            None => {
                total.groups.insert(k, g);
            }
            Some(e) => {
                e.count += g.count;
                if better(db, g.best, e.best) {
                    e.best = g.best;
                }
            }
        }
    }
}

// ---------------------------------------------------------------------------------------------
// generation
// ---------------------------------------------------------------------------------------------

fn invalid_pool() -> Vec<&'static str> {
    vec![
        // unbalanced
        "{", "}", "(", ")", "{1", "{1,", "{1,2", "{a:", "{a:1", "@a(", "@a(1", "@a(1,", "@a{", "@a{1", "{{}", "{{1}", "@a(@b(", "@a(}", "{)", "{1)", "@a(1}", "@a({1)", "@a({1}",
        // bad escapes / strings
        "\"", "\"a", "\"\\q\"", "\"\\u12\"", "\"\\u12g4\"", "\"\\\"", "\"a\\", "\"\\ud800\"", "\"\\udc00\"", "@\"a", "@\"\\q\"", "{\"\\q\"}", "@a(\"\\q\")",
        // empty / blank (valid: Extant) and comments
        "", " ", "\n", "\t", " \n ", "#c", "1 #c", "#",
        // trailing garbage (accepted by the reference parser after a complete value)
        "1 }", "1 2", "{1}}", "{1} {2}", "a b", "a)", "@a(1))", "\"a\"\"b\"", "true false", "1,2", "{},", "%AA==x",
        // lexical near misses
        "@", "@@", "@ a", "@a (1)", "@1", "@(1)", "@a@", ":", ",", ";", ":1", "a:", "a:1", "1:", "{:", "{,", "-", "+", "+1", "-a", "1-", "0x", "0xg", "0b2", "1e", "1e+", "1.e1", ".5", "1..2", "--1", "1_0",
        "%", "%A", "%AA", "%AAA", "%AA=", "%A===", "%====", "%AA==", "%AAAA", "%$", "$", "~", "^", "[", "]", "[1]", "<a>", "a=1", "'a'", "`a`", "\\", "\\n", "\u{0}", "\u{feff}1", "\u{a0}1",
    ]
}

struct Generated {
    interner: Interner,
    n_values: usize,
    n_primary: usize,
    /// (base text, mutants of that base)
    mutation_sets: Vec<(u32, Vec<u32>)>,
    handwritten: Vec<u32>,
}

fn generate(thorough: bool) -> Generated {
    let mut it = Interner::default();
    let pool = gen::value_pool();
    let styles = gen::styles();
    let n_single = styles.iter().filter(|s| s.1).count();
    let mut bases: Vec<(u32, u8)> = vec![];
    let mut seen_base: std::collections::HashSet<u32> = Default::default();
    let mut n_values = 0;
    for (v, vq) in &pool {
        if !thorough && !vq {
            continue;
        }
        n_values += 1;
        let vrank = if *vq { 0 } else { 1 };
        for (k, (st, sq)) in styles.iter().enumerate() {
            if !thorough && !sq {
                continue;
            }
            let rank = if *sq { vrank } else { 1 };
            let toks = gen::tokens(v, st);
            let id = it.add(gen::join(&toks, "", None), rank);
            if k == 0 {
                if seen_base.insert(id) {
                    bases.push((id, vrank));
                }
                for s in [format!("{}", print_recon_compact(v)), format!("{}", print_recon(v)), format!("{}", print_recon_pretty(v))] {
                    let id = it.add(s, vrank);
                    // thorough-only values contribute one base (the styled compact text)
                    if *vq && seen_base.insert(id) {
                        bases.push((id, vrank));
                    }
                }
            }
            // blank insertion: default style, the two all-deviating styles; thorough: also the
            // separator styles
            let blanks = k == 0 || k == n_single - 1 || k == n_single - 2 || (thorough && *sq && st.sep != 0 && k < n_single - 2);
            if blanks {
                let brank = if k == 0 || k >= n_single - 2 { rank } else { 1 };
                for i in 1..toks.len() {
                    it.add(gen::join(&toks, " ", Some(i)), brank);
                    it.add(gen::join(&toks, "\n", Some(i)), brank);
                }
                for b in [" ", "\n", "\t", "  ", " \n"] {
                    it.add(gen::join(&toks, b, Some(usize::MAX)), brank);
                }
            }
        }
    }
    // attributes nested in attribute bodies, each body holding two items (an implicit record),
    // spelled with and without the braces of that record at every level pattern: all spellings of
    // one depth are one value. Depth matters on its own: state kept per open attribute (a stack)
    // is exercised only by nesting, not by any of the short texts above.
    let max_depth = if thorough { 24 } else { 12 };
    for d in 1..=max_depth {
        let patterns: Vec<Box<dyn Fn(usize) -> bool>> = vec![
            Box::new(|_| false),
            Box::new(|_| true),
            Box::new(|l| l % 2 == 0),
            Box::new(|l| l % 2 == 1),
            Box::new(|l| l == 1),
            Box::new(move |l| l == d),
            Box::new(|l| l <= 8),
            Box::new(|l| l > 8),
            Box::new(|l| l % 3 == 0),
        ];
        for pat in &patterns {
            let mut text = String::new();
            for l in 1..=d {
                text.push_str(&format!("@a{}(", l));
                if pat(l) {
                    text.push('{');
                }
            }
            text.push_str("0");
            for l in (1..=d).rev() {
                text.push_str(&format!(",{}", l));
                if pat(l) {
                    text.push('}');
                }
                text.push(')');
            }
            it.add(text, 0);
        }
    }
    let n_primary = it.list.len();

    // single-edit mutations of the base texts
    let quick_ins = ['{', ')', ',', '"'];
    let all_ins = ['{', '}', '(', ')', '@', ':', ',', ';', '"', '\\', ' ', '\n', 'a', '0', '-', '.', '%', '#'];
    let repl = ['{', ')', ',', '"', ':', '@', '0'];
    let mut mutation_sets = vec![];
    for (base, brank) in bases {
        let s = it.list[base as usize].0.clone();
        let idx: Vec<(usize, char)> = s.char_indices().collect();
        let mut ms: Vec<u32> = vec![];
        // deletions
        for &(p, c) in &idx {
            let mut m = String::with_capacity(s.len());
            m.push_str(&s[..p]);
            m.push_str(&s[p + c.len_utf8()..]);
            ms.push(it.add(m, brank));
        }
        // adjacent transpositions
        for w in idx.windows(2) {
            let ((p, c), (_, d)) = (w[0], w[1]);
            if c != d {
                let mut m = String::with_capacity(s.len());
                m.push_str(&s[..p]);
                m.push(d);
                m.push(c);
                m.push_str(&s[p + c.len_utf8() + d.len_utf8()..]);
                ms.push(it.add(m, brank));
            }
        }
        // insertions
        let mut cuts: Vec<usize> = idx.iter().map(|x| x.0).collect();
        cuts.push(s.len());
        for &p in &cuts {
            for &c in all_ins.iter() {
                let q = quick_ins.contains(&c);
                if !q && (!thorough || brank != 0) {
                    continue;
                }
                let mut m = String::with_capacity(s.len() + 1);
                m.push_str(&s[..p]);
                m.push(c);
                m.push_str(&s[p..]);
                ms.push(it.add(m, if q { brank } else { 1 }));
            }
        }
        // replacements (thorough)
        if thorough && brank == 0 {
            for &(p, c) in &idx {
                for &r in repl.iter() {
                    if r != c {
                        let mut m = String::with_capacity(s.len());
                        m.push_str(&s[..p]);
                        m.push(r);
                        m.push_str(&s[p + c.len_utf8()..]);
                        ms.push(it.add(m, 1));
                    }
                }
            }
        }
        ms.sort();
        ms.dedup();
        ms.retain(|&m| m != base);
        mutation_sets.push((base, ms));
    }
    let handwritten: Vec<u32> = invalid_pool().into_iter().map(|s| it.add(s.to_string(), 0)).collect();
    Generated { interner: it, n_values, n_primary, mutation_sets, handwritten }
}

// ---------------------------------------------------------------------------------------------
// main
// ---------------------------------------------------------------------------------------------

fn sample(db: &Db, i: u32, j: u32) -> serde_json::Value {
    json!({"a": db.texts[i as usize].s, "b": db.texts[j as usize].s, "expected_equal": expect(db, i, j)})
}

fn main() {
    std::panic::set_hook(Box::new(|_| {}));
    let ctx = Ctx::from_env("C15");
    if ctx.replay_request().is_some() {
        // `finish` consumes the context; rebuild it inside
        let r = ctx.replay_request().unwrap().clone();
        let d = &r["detail"];
        let sig = r["signature"].as_str().unwrap_or("").to_string();
        let law_s = d["law"].as_str().unwrap_or("").to_string();
        let a = d["a"].as_str().unwrap_or("").to_string();
        let b = d["b"].as_str().unwrap_or("").to_string();
        let bit = (0..N_LAWS).find(|&k| law_name(k) == law_s).unwrap_or_else(|| vcommon::machinery_failure("replay: unknown law"));
        let law = 1u16 << bit;
        let (m, q) = if law & (L_Q_SPLIT | L_Q_MERGE | L_Q_PANIC) != 0 { string_queue_laws(&a, &b) } else { (string_laws(&a, &b), vec![]) };
        eprintln!(
            "replay: law={} a={:?} b={:?}\n  parse(a)={:?}\n  parse(b)={:?}\n  compare(a,b)={:?} compare(b,a)={:?} recon_hash(a)={:?} recon_hash(b)={:?} queue={:?}\n  still failing: {}",
            law_s,
            a,
            b,
            parse(&a),
            parse(&b),
            cmp(&a, &b),
            cmp(&b, &a),
            rhash(&a),
            rhash(&b),
            q,
            m & law != 0
        );
        if m & law != 0 {
            ctx.violation("replay", &sig, json!({"law": law_s, "a": a, "b": b, "explanation": law_explanation(bit), "values": [a, b]}));
        }
        ctx.finish("model_checking", "replay");
    }
    let thorough = !ctx.quick();

    // ---- generation + classification
    let t0 = Instant::now();
    let g = generate(thorough);
    let Generated { interner, n_values, n_primary, mutation_sets, handwritten } = g;
    let n_texts = interner.list.len();
    let mutant_cap = ctx.tier.pick(16usize, 32usize);
    let db = build_db(interner.list, n_primary, mutant_cap);
    let n_valid = db.texts.iter().filter(|t| matches!(t.class, Class::Valid(_))).count();
    let n_panics = db.texts.iter().filter(|t| t.class == Class::Panics).count();
    let n_invalid = n_texts - n_valid - n_panics;
    let primary: Vec<u32> = (0..db.buckets.len() as u32).filter(|&b| db.buckets[b as usize].primary).collect();
    eprintln!(
        "[C15] values={} texts={} (variants {}, valid {}, invalid {}, parser panics {}) buckets={} (primary {}) shapes={} flat classes={} gen+classify {:.1}s",
        n_values,
        n_texts,
        n_primary,
        n_valid,
        n_invalid,
        n_panics,
        db.buckets.len(),
        primary.len(),
        db.shapes.len(),
        db.n_flats,
        t0.elapsed().as_secs_f64()
    );

    let mut leg_groups: Vec<(String, HashMap<GKey, Group>)> = vec![];
    let mut overflow_total = 0u64;

    // ---- leg 0: every text against itself (reflexivity, per-text hash laws)
    {
        let t0 = Instant::now();
        let ids: Vec<u32> = (0..n_texts as u32).collect();
        let mut acc = run_units(&db, &ids, |&i, acc| {
            check_pair(&db, i, i, acc);
            let tm = db.texts[i as usize].text_mask;
            if tm != 0 {
                acc.fail(&db, tm, i, i);
            }
        });
        acc.calls += 3 * n_texts as u64; // parse, recon_hash, ReconKey hash at classification
        let nontriv = db.buckets.iter().filter(|b| b.texts.len() >= 2).map(|b| b.texts.len() as u64).sum();
        ctx.add_leg(Leg {
            name: "texts_reflexive".into(),
            engine: "E4-enum".into(),
            states: n_texts as u64,
            transitions: acc.calls,
            evaluations: acc.evals,
            distinct_nontrivial: nontriv,
            rule: "every generated text classified by the reference parser and compared with itself; non-trivial = valid texts sharing their parsed value with at least one other distinct text".into(),
            samples: vec![json!(db.texts[0].s), json!(db.texts[n_primary / 2].s), json!(db.texts[n_texts - 1].s)],
            exhaustive: true,
            bounds: json!({"model_values": n_values, "texts": n_texts, "valid": n_valid, "invalid": n_invalid, "reference_parser_panics": n_panics, "buckets": db.buckets.len(), "primary_buckets": primary.len()}),
            wall_s: t0.elapsed().as_secs_f64(),
        });
        overflow_total += acc.overflow;
        leg_groups.push(("texts_reflexive".into(), acc.groups));
    }

    // ---- leg 1: all pairs inside every bucket
    {
        let t0 = Instant::now();
        let mut units: Vec<(u32, u32)> = vec![];
        for (b, bk) in db.buckets.iter().enumerate() {
            for r in 0..bk.texts.len() {
                units.push((b as u32, r as u32));
            }
        }
        let acc = run_units(&db, &units, |&(b, r), acc| {
            let ts = &db.buckets[b as usize].texts;
            let i = ts[r as usize];
            for &j in &ts[r as usize + 1..] {
                check_pair(&db, i, j, acc);
                acc.nontrivial += 1;
            }
        });
        let big = db.buckets.iter().map(|b| b.texts.len()).max().unwrap_or(0);
        let sb = db.buckets.iter().position(|b| b.primary && b.texts.len() >= 4).unwrap_or(0);
        let st = &db.buckets[sb].texts;
        ctx.add_leg(Leg {
            name: "within_bucket".into(),
            engine: "E4-enum".into(),
            states: n_valid as u64,
            transitions: acc.calls,
            evaluations: acc.evals,
            distinct_nontrivial: acc.nontrivial,
            rule: "all ordered pairs of distinct texts that parse to equal values (every bucket, all its texts); non-trivial = unordered pairs of distinct strings with equal values".into(),
            samples: vec![sample(&db, st[0], st[st.len() - 1]), sample(&db, st[1.min(st.len() - 1)], st[st.len() / 2])],
            exhaustive: true,
            bounds: json!({"buckets": db.buckets.len(), "largest_bucket": big}),
            wall_s: t0.elapsed().as_secs_f64(),
        });
        overflow_total += acc.overflow;
        leg_groups.push(("within_bucket".into(), acc.groups));
    }

    // ---- leg 2: neighbouring buckets (same loose flattening), K texts per bucket
    let k_nb = ctx.tier.pick(8usize, 16usize);
    let mut by_flat: BTreeMap<u32, Vec<u32>> = BTreeMap::new();
    for &b in &primary {
        by_flat.entry(db.buckets[b as usize].flat).or_default().push(b);
    }
    let classes: Vec<Vec<u32>> = by_flat.into_values().filter(|v| v.len() >= 2).collect();
    {
        let t0 = Instant::now();
        // unit = (class, index of bucket in class, text row)
        let mut units: Vec<(u32, u32, u32)> = vec![];
        for (c, bs) in classes.iter().enumerate() {
            for (x, &b) in bs.iter().enumerate() {
                for r in 0..db.buckets[b as usize].texts.len().min(k_nb) {
                    units.push((c as u32, x as u32, r as u32));
                }
            }
        }
        let acc = run_units(&db, &units, |&(c, x, r), acc| {
            let bs = &classes[c as usize];
            let i = db.buckets[bs[x as usize] as usize].texts[r as usize];
            for &b2 in &bs[x as usize + 1..] {
                for &j in db.buckets[b2 as usize].texts.iter().take(k_nb) {
                    check_pair(&db, i, j, acc);
                    acc.nontrivial += 1;
                }
            }
        });
        let big = classes.iter().map(|c| c.len()).max().unwrap_or(0);
        let mut samples = vec![];
        for c in classes.iter().filter(|c| c.len() >= 3).take(2) {
            samples.push(sample(&db, db.buckets[c[0] as usize].texts[0], db.buckets[c[c.len() - 1] as usize].texts[0]));
        }
        ctx.add_leg(Leg {
            name: "neighbour_buckets".into(),
            engine: "E4-enum".into(),
            states: classes.iter().map(|c| c.len() as u64).sum(),
            transitions: acc.calls,
            evaluations: acc.evals,
            distinct_nontrivial: acc.nontrivial,
            rule: "all ordered pairs of texts from two different buckets with the same loose flattening (same atoms in the same order; structure, numeric kind, quoting and Extant ignored), first K texts per bucket; every pair is a near miss".into(),
            samples,
            exhaustive: true,
            bounds: json!({"classes_with_2+_buckets": classes.len(), "largest_class": big, "texts_per_bucket_K": k_nb}),
            wall_s: t0.elapsed().as_secs_f64(),
        });
        overflow_total += acc.overflow;
        leg_groups.push(("neighbour_buckets".into(), acc.groups));
    }

    // ---- leg 3: every pair of primary buckets, one representative each; also validates the
    // canonical bucket key against Value::eq
    {
        let t0 = Instant::now();
        let units: Vec<u32> = (0..primary.len() as u32).collect();
        let bad_key = std::sync::atomic::AtomicU64::new(0);
        let acc = run_units(&db, &units, |&x, acc| {
            let bx = &db.buckets[primary[x as usize] as usize];
            for &b2 in &primary[x as usize + 1..] {
                let by = &db.buckets[b2 as usize];
                if bx.value == by.value || by.value == bx.value {
                    bad_key.fetch_add(1, std::sync::atomic::Ordering::Relaxed);
                }
                let (i, j) = (bx.texts[0], by.texts[0]);
                check_pair(&db, i, j, acc);
                if db.texts[i as usize].shape == db.texts[j as usize].shape {
                    acc.nontrivial += 1;
                }
            }
        });
        if bad_key.load(std::sync::atomic::Ordering::Relaxed) != 0 {
            vcommon::machinery_failure("canonical bucket key disagrees with Value::eq (two buckets hold == values)");
        }
        ctx.add_leg(Leg {
            name: "all_bucket_pairs".into(),
            engine: "E4-enum".into(),
            states: primary.len() as u64,
            transitions: acc.calls,
            evaluations: acc.evals,
            distinct_nontrivial: acc.nontrivial,
            rule: "all ordered pairs of primary buckets (those holding a printed pool value), first text of each; non-trivial = pairs whose texts have the same token shape (same structure, different atoms)".into(),
            samples: vec![sample(&db, db.buckets[primary[3] as usize].texts[0], db.buckets[primary[primary.len() - 1] as usize].texts[0])],
            exhaustive: true,
            bounds: json!({"primary_buckets": primary.len()}),
            wall_s: t0.elapsed().as_secs_f64(),
        });
        overflow_total += acc.overflow;
        leg_groups.push(("all_bucket_pairs".into(), acc.groups));
    }

    // ---- leg 4: single-edit mutations: base x mutant, mutant x sibling mutant
    {
        let t0 = Instant::now();
        let n_mut: usize = mutation_sets.iter().map(|m| m.1.len()).sum();
        let sib_cap = ctx.tier.pick(48usize, 96usize);
        let acc = run_units(&db, &mutation_sets, |(base, ms), acc| {
            for &m in ms {
                let (i, j) = if *base < m { (*base, m) } else { (m, *base) };
                check_pair(&db, i, j, acc);
                acc.nontrivial += 1;
            }
            let sib: &[u32] = &ms[..ms.len().min(sib_cap)];
            for (x, &i) in sib.iter().enumerate() {
                for &j in &sib[x + 1..] {
                    check_pair(&db, i, j, acc);
                }
            }
        });
        let (b0, m0) = (&mutation_sets[mutation_sets.len() / 2].0, &mutation_sets[mutation_sets.len() / 2].1);
        ctx.add_leg(Leg {
            name: "mutations".into(),
            engine: "E4-enum".into(),
            states: n_mut as u64,
            transitions: acc.calls,
            evaluations: acc.evals,
            distinct_nontrivial: acc.nontrivial,
            rule: "every base text (styled compact print and the three printers of each pool value) against each of its single-edit mutants (delete, transpose, insert; thorough: replace), and the first N sibling mutants of a base against each other; non-trivial = (base, mutant) pairs".into(),
            samples: vec![sample(&db, *b0, m0[0]), sample(&db, *b0, m0[m0.len() - 1])],
            exhaustive: true,
            bounds: json!({"bases": mutation_sets.len(), "mutants": n_mut, "sibling_cap_N": sib_cap}),
            wall_s: t0.elapsed().as_secs_f64(),
        });
        overflow_total += acc.overflow;
        leg_groups.push(("mutations".into(), acc.groups));
    }

    // ---- leg 5: invalid texts
    {
        let t0 = Instant::now();
        let inv_cap = ctx.tier.pick(1500usize, 5000usize);
        let invalid_all: Vec<u32> = (0..n_texts as u32).filter(|&i| !matches!(db.texts[i as usize].class, Class::Valid(_))).collect();
        let mut inv_pool: Vec<u32> = handwritten.clone();
        let mut sorted_inv = invalid_all.clone();
        sorted_inv.sort_by(|&x, &y| {
            let k = |i: u32| (db.texts[i as usize].rank, db.texts[i as usize].s.len(), db.texts[i as usize].s.as_str());
            k(x).cmp(&k(y))
        });
        for &i in sorted_inv.iter() {
            if inv_pool.len() >= inv_cap {
                break;
            }
            if !handwritten.contains(&i) {
                inv_pool.push(i);
            }
        }
        let reps: Vec<u32> = primary.iter().map(|&b| db.buckets[b as usize].texts[0]).collect();
        // units: (kind, index)
        let mut units: Vec<(u8, u32)> = vec![];
        for x in 0..inv_pool.len() {
            units.push((0, x as u32));
        }
        for x in 0..handwritten.len() {
            units.push((1, x as u32));
        }
        let acc = run_units(&db, &units, |&(kind, x), acc| {
            if kind == 0 {
                let i = inv_pool[x as usize];
                for &j in &inv_pool[x as usize + 1..] {
                    if i != j {
                        check_pair(&db, i.min(j), i.max(j), acc);
                        acc.nontrivial += 1;
                    }
                }
            } else {
                let i = handwritten[x as usize];
                for &j in reps.iter().chain(inv_pool.iter()) {
                    if i != j {
                        check_pair(&db, i.min(j), i.max(j), acc);
                    }
                }
            }
        });
        ctx.add_leg(Leg {
            name: "invalid_texts".into(),
            engine: "E4-enum".into(),
            states: invalid_all.len() as u64 + handwritten.len() as u64,
            transitions: acc.calls,
            evaluations: acc.evals,
            distinct_nontrivial: acc.nontrivial,
            rule: "all ordered pairs of the invalid pool (hand-written unbalanced / bad-escape / blank / trailing-garbage / lexical near-miss texts plus the shortest invalid mutants); every hand-written text against every bucket representative and every text of the invalid pool; non-trivial = pairs inside the invalid pool".into(),
            samples: vec![sample(&db, inv_pool[0], inv_pool[1]), sample(&db, handwritten[27], reps[5]), sample(&db, inv_pool[inv_pool.len() - 1], inv_pool[inv_pool.len() - 2])],
            exhaustive: true,
            bounds: json!({"handwritten": handwritten.len(), "invalid_pool": inv_pool.len(), "all_invalid_texts": invalid_all.len(), "bucket_representatives": reps.len()}),
            wall_s: t0.elapsed().as_secs_f64(),
        });
        overflow_total += acc.overflow;
        leg_groups.push(("invalid_texts".into(), acc.groups));
    }

    // ---- leg 6: the backpressure queue keyed by ReconKey
    {
        let t0 = Instant::now();
        let kq = ctx.tier.pick(3usize, 6usize);
        let kq_nb = ctx.tier.pick(2usize, 3usize);
        #[derive(Clone, Copy)]
        enum U {
            Within(u32, u32),
            Neigh(u32, u32, u32),
            Hand(u32),
        }
        let mut units: Vec<U> = vec![];
        for &b in &primary {
            for r in 0..db.buckets[b as usize].texts.len().min(kq) {
                units.push(U::Within(b, r as u32));
            }
        }
        for (c, bs) in classes.iter().enumerate() {
            for (x, &b) in bs.iter().enumerate() {
                for r in 0..db.buckets[b as usize].texts.len().min(kq_nb) {
                    units.push(U::Neigh(c as u32, x as u32, r as u32));
                }
            }
        }
        for x in 0..handwritten.len() {
            units.push(U::Hand(x as u32));
        }
        let queue_pair = |i: u32, j: u32, acc: &mut Acc| {
            let e = expect(&db, i, j);
            if db.texts[i as usize].class == Class::Panics || db.texts[j as usize].class == Class::Panics {
                return;
            }
            for (x, y) in [(i, j), (j, i)] {
                let (m, _, calls) = queue_laws(&db.texts[x as usize].s, &db.texts[y as usize].s, e);
                acc.evals += 1;
                acc.calls += calls;
                if m != 0 {
                    acc.fail(&db, m, x, y);
                }
            }
            if e {
                acc.nontrivial += 1;
            }
        };
        let acc = run_units(&db, &units, |u, acc| match *u {
            U::Within(b, r) => {
                let ts = &db.buckets[b as usize].texts;
                for &j in ts.iter().take(kq).skip(r as usize + 1) {
                    queue_pair(ts[r as usize], j, acc);
                }
            }
            U::Neigh(c, x, r) => {
                let bs = &classes[c as usize];
                let i = db.buckets[bs[x as usize] as usize].texts[r as usize];
                for &b2 in &bs[x as usize + 1..] {
                    for &j in db.buckets[b2 as usize].texts.iter().take(kq_nb) {
                        queue_pair(i, j, acc);
                    }
                }
            }
            U::Hand(x) => {
                let i = handwritten[x as usize];
                for &j in &handwritten[x as usize + 1..] {
                    if i != j {
                        queue_pair(i, j, acc);
                    }
                }
            }
        });
        ctx.add_leg(Leg {
            name: "backpressure_queue".into(),
            engine: "E4-enum".into(),
            states: units.len() as u64,
            transitions: acc.calls,
            evaluations: acc.evals,
            distinct_nontrivial: acc.nontrivial,
            rule: "MapOperationQueue (HashMap keyed by ReconKey, SipHash zero keys): update(a);update(b) and update(a);remove(b), drained; pairs = first K texts of each primary bucket pairwise, first K' texts across neighbouring buckets, all pairs of hand-written texts; non-trivial = pairs of distinct texts with equal keys (must coalesce)".into(),
            samples: vec![json!({"ops": ["update(\"@a(1,2)\",1)", "update(\"@a({1,2})\",2)"], "expected": "one entry, value 2"})],
            exhaustive: true,
            bounds: json!({"texts_per_bucket_K": kq, "texts_per_neighbour_bucket": kq_nb}),
            wall_s: t0.elapsed().as_secs_f64(),
        });
        overflow_total += acc.overflow;
        leg_groups.push(("backpressure_queue".into(), acc.groups));
    }

    // ---- reduce every failure group's best example to a canonical minimal pair
    let t0 = Instant::now();
    let mut todo: Vec<(usize, u8, u32, u32, u64, u32, u32)> = vec![]; // leg, law bit, i, j, count, group ids
    let mut seen: HashMap<(u8, u32, u32), ()> = HashMap::new();
    for (l, (_, groups)) in leg_groups.iter().enumerate() {
        let mut gs: Vec<(&GKey, &Group)> = groups.iter().collect();
        gs.sort_by(|(k1, g1), (k2, g2)| {
            let t = |i: u32| db.texts[i as usize].s.as_str();
            (k1.0, g1.best.0, g1.best.1, t(g1.best.2), t(g1.best.3)).cmp(&(k2.0, g2.best.0, g2.best.1, t(g2.best.2), t(g2.best.3)))
        });
        for (k, g) in gs {
            if seen.insert((k.0, g.best.2, g.best.3), ()).is_none() {
                todo.push((l, k.0, g.best.2, g.best.3, g.count, k.1, k.2));
            }
        }
    }
    let raw_groups = todo.len();
    let raw_failures: u64 = todo.iter().map(|t| t.4).sum();
    let reduce_cap = ctx.tier.pick(60000usize, 200000usize);
    // smallest examples first, so that a cap (if ever hit) drops the largest
    todo.sort_by(|x, y| {
        let k = |t: &(usize, u8, u32, u32, u64, u32, u32)| {
            let (a, b) = (&db.texts[t.2 as usize], &db.texts[t.3 as usize]);
            (t.1, a.rank + b.rank, a.s.len() + b.s.len(), a.s.clone(), b.s.clone())
        };
        k(x).cmp(&k(y))
    });
    let memo: Memo = Default::default();
    let reduced: Vec<(String, String, u64)> = par_map(&todo, ncpu(), |n, t| {
        let (a, b) = (&db.texts[t.2 as usize].s, &db.texts[t.3 as usize].s);
        if n < reduce_cap {
            let (ra, rb, ev) = reduce(1u16 << t.1, a, b, &memo);
            let (ra, rb) = orient(1u16 << t.1, ra, rb);
            (ra, rb, ev)
        } else {
            (a.clone(), b.clone(), 0)
        }
    });
    for (n, (t, (a, b, _))) in todo.iter().zip(reduced.iter()).enumerate() {
        let bit = t.1 as usize;
        let consequence = bit >= 8 && bit <= 9 && string_laws(a, b) != 0;
        let sig = if n >= reduce_cap {
            format!("law={} unreduced shapes={:?}|{:?}", law_name(bit), db.shapes[db.texts[t.2 as usize].shape as usize], db.shapes[db.texts[t.3 as usize].shape as usize])
        } else if consequence {
            format!("law={} (consequence of a compare/hash law violation on the same pair)", law_name(bit))
        } else {
            format!("law={} a={:?} b={:?}", law_name(bit), a, b)
        };
        let (oa, ob) = (&db.texts[t.2 as usize].s, &db.texts[t.3 as usize].s);
        ctx.violation(
            &leg_groups[t.0].0,
            &sig,
            json!({
                "law": law_name(bit), "a": a, "b": b, "values": [a, b],
                "explanation": law_explanation(bit),
                "parsed": [format!("{:?}", parse(a)), format!("{:?}", parse(b))],
                "compare": [format!("{:?}", cmp(a, b)), format!("{:?}", cmp(b, a))],
                "recon_hash": [format!("{:?}", rhash(a)), format!("{:?}", rhash(b))],
                "found_as": [oa, ob],
                "pairs_in_group": t.4,
            }),
        );
    }
    eprintln!(
        "[C15] raw failing pairs={} groups={} reduced to {} signatures in {:.1}s ({} reducer evaluations)",
        raw_failures,
        raw_groups,
        ctx.violation_count(),
        t0.elapsed().as_secs_f64(),
        reduced.iter().map(|r| r.2).sum::<u64>()
    );

    if overflow_total > 0 {
        ctx.violation("all", "raw failure table overflow (more distinct failing groups than the engine records)", json!({"law": "overflow", "unrecorded_failing_pairs": overflow_total, "explanation": "too many distinct failure groups"}));
    }
    ctx.assume("validity and equality of texts are defined by parse_recognize::<Value>(text, false) and Value's PartialEq (so text after a complete top-level value is ignored, as the reference parser ignores it)");
    ctx.assume("SipHash-1-3 with zero keys (std DefaultHasher::new) stands for every Hasher");
    ctx.assume("value pool: tree size <= 3 (thorough: 4) over boundary atoms; other atoms and deeper nesting are not enumerated");
    ctx.finish(
        "model_checking",
        "bounded-exhaustive enumeration of pairs of Recon texts (printer outputs, legal re-formattings, single-edit mutants, invalid texts) against the reference parser, on the real compare_recon_values / recon_hash / ReconKey / MapOperationQueue",
    );
}

fn main() {
    vcommon::machinery_failure("C15: engine not built yet");
}

use swimos_model::{Attr, Item, Value};
use swimos_recon::parser::parse_recognize;
use swimos_recon::*;
use std::hash::Hasher;
fn h(s: &str) -> u64 { let mut x = std::collections::hash_map::DefaultHasher::new(); recon_hash(s, &mut x); x.finish() }
fn main() {
    let vals = vec![
        Value::Float64Value(f64::NAN), Value::Float64Value(f64::INFINITY), Value::Float64Value(-0.0), Value::Float64Value(1e300), Value::Float64Value(1.0),
        Value::text("a b"), Value::text("a,b"), Value::text(""), Value::text("true"), Value::text("é"), Value::text("\u{1}\n\"\\"),
        Value::Record(vec![Attr::of(("a", Value::Record(vec![], vec![Item::ValueItem(Value::Int32Value(1))])))], vec![]),
        Value::Record(vec![Attr::of(("a", Value::Record(vec![], vec![Item::ValueItem(Value::Int32Value(1)), Item::ValueItem(Value::Int32Value(2))])))], vec![]),
        Value::Record(vec![Attr::of(("a", Value::Record(vec![Attr::of("b")], vec![])))], vec![Item::ValueItem(Value::Int32Value(2))]),
        Value::Record(vec![Attr::of(("a b", Value::Extant))], vec![Item::Slot(Value::Extant, Value::Extant), Item::ValueItem(Value::Extant)]),
        Value::Record(vec![], vec![Item::ValueItem(Value::Record(vec![], vec![]))]),
        Value::Data(swimos_model::Blob::from_vec(vec![1,2,3,4])),
        Value::Data(swimos_model::Blob::from_vec(vec![])),
    ];
    for v in &vals {
        let a = format!("{}", print_recon(v)); let b = format!("{}", print_recon_compact(v)); let c = format!("{}", print_recon_pretty(v));
        println!("{:?}\n  std={:?} compact={:?} pretty={:?}", v, a, b, c);
        println!("  parse std: {:?}", parse_recognize::<Value>(a.as_str(), false));
    }
    let pairs = [("0.0","-0.0"),("@a(\"x,y\")","@a(\"x\\u002cy\")"),("1 garbage","1"),("@a(1)","@a({1})"),("@a(1,2)","@a({1,2})"),("@a({1},{2})","@a(1,2)"),
      ("{1,}","{1}"),("@a()","@a"),("@a{}","@a"),("@a()","@a{}"), ("","{}"), ("NaN","nan"), ("1","01"),("1","0x1"),("-0","0"),("1.","1.0"),("{","{"),("{","("),("\"\\q\"","\"\\q\""),
      ("@a(@b)","@a({@b})"),("@a(@b,1)","@a(@b{1})"),("@a(@b 1)","@a(@b{1})"), ("{a:1}","{a:{1}}"), ("{{1}:2}","{1:2}"), ("@a({})","@a()"), ("@a({})","@a"),("{{}}","{}"),("{,}","{}"),("{:}","{}")];
    for (a,b) in pairs {
        let pa = parse_recognize::<Value>(a, false); let pb = parse_recognize::<Value>(b, false);
        let exp = match (&pa,&pb) { (Ok(x),Ok(y)) => x==y, _ => a==b };
        let c = compare_recon_values(a,b);
        println!("{:?} vs {:?}: cmp={} expect={} hash_eq={} {}  pa={:?} pb={:?}", a, b, c, exp, h(a)==h(b), if c!=exp {"MISMATCH"} else if exp && h(a)!=h(b) {"HASHDIFF"} else {""}, pa.ok(), pb.ok());
    }
}

//! C19 - Model values: equality, ordering and hashing are mutually coherent.
//! Engine E4: every pair and every triple of a boundary-heavy finite pool, checked against the
//! algebraic laws; plus the derived-collection consequences (sort / BTreeMap / HashMap).

use num_bigint::{BigInt, BigUint};
use serde_json::json;
use std::cmp::Ordering;
use std::collections::hash_map::DefaultHasher;
use std::collections::{BTreeMap, BTreeSet, HashMap};
use std::hash::{Hash, Hasher};
use std::sync::Mutex;
use std::time::Instant;
use swimos_model::{Attr, Blob, Item, Text, Value};
use vcommon::{Ctx, Leg};

fn atoms() -> Vec<Value> {
    let mut v = vec![Value::Extant, Value::BooleanValue(false), Value::BooleanValue(true)];
    for n in [i32::MIN, -1, 0, 1, 2, i32::MAX] {
        v.push(Value::Int32Value(n));
    }
    for n in [i64::MIN, i32::MIN as i64 - 1, -1, 0, 1, 2, i32::MAX as i64 + 1, u32::MAX as i64, (1i64 << 53) + 1, i64::MAX] {
        v.push(Value::Int64Value(n));
    }
    for n in [0u32, 1, 2, i32::MAX as u32 + 1, u32::MAX] {
        v.push(Value::UInt32Value(n));
    }
    for n in [0u64, 1, 2, u32::MAX as u64 + 1, i64::MAX as u64, i64::MAX as u64 + 1, u64::MAX] {
        v.push(Value::UInt64Value(n));
    }
    let two = BigInt::from(2);
    for b in [
        BigInt::from(-1),
        BigInt::from(0),
        BigInt::from(1),
        BigInt::from(i64::MIN),
        BigInt::from(i64::MIN) - 1,
        BigInt::from(i64::MAX),
        BigInt::from(i64::MAX) + 1,
        BigInt::from(u64::MAX),
        BigInt::from(u64::MAX) + 1,
        two.pow(127) - 1,
        two.pow(127),
        -two.pow(127),
        -two.pow(127) - 1,
        two.pow(128),
    ] {
        v.push(Value::BigInt(b));
    }
    let twou = BigUint::from(2u32);
    for b in [
        BigUint::from(0u32),
        BigUint::from(1u32),
        BigUint::from(u32::MAX),
        BigUint::from(i64::MAX as u64),
        BigUint::from(u64::MAX),
        BigUint::from(u64::MAX) + 1u32,
        twou.pow(127),
        twou.pow(128),
    ] {
        v.push(Value::BigUint(b));
    }
    for x in [
        0.0f64,
        -0.0,
        1.0,
        -1.0,
        0.5,
        1.5,
        1.0 + f64::EPSILON / 2.0 + f64::EPSILON,
        f64::MIN_POSITIVE,
        2.0,
        9007199254740992.0, // 2^53
        9223372036854775808.0, // 2^63
        18446744073709551616.0, // 2^64
        1e300,
        f64::INFINITY,
        f64::NEG_INFINITY,
        f64::NAN,
    ] {
        v.push(Value::Float64Value(x));
    }
    for t in ["", "a", "b", "ab", "true", "1", "é"] {
        v.push(Value::Text(Text::new(t)));
    }
    // texts that differ only by trailing NUL characters, and texts around the boundary between
    // the inline (<= 24 bytes) and the heap representation of `Text`
    let x23 = "x".repeat(23);
    for t in ["\0".to_string(), "a\0".to_string(), "a\0\0".to_string(), x23.clone(), format!("{}x", x23), format!("{}xx", x23), format!("{}\0", x23), format!("{}x\0", x23)] {
        v.push(Value::Text(Text::new(&t)));
    }
    for d in [vec![], vec![0u8], vec![1], vec![0, 0], vec![255], vec![1, 0]] {
        v.push(Value::Data(Blob::from_vec(d)));
    }
    v
}

fn pool(quick: bool) -> Vec<Value> {
    let atoms = atoms();
    let mut v = atoms.clone();
    // Records nesting a sub-pool of atoms (one of each interesting class).
    let sub: Vec<Value> = vec![
        Value::Extant,
        Value::Int32Value(1),
        Value::Int64Value(1),
        Value::UInt32Value(1),
        Value::Float64Value(1.0),
        Value::Float64Value(0.0),
        Value::Float64Value(-0.0),
        Value::BigInt(BigInt::from(1)),
        Value::Text(Text::new("a")),
        Value::Data(Blob::from_vec(vec![1])),
        Value::BooleanValue(true),
    ];
    v.push(Value::empty_record());
    for a in &sub {
        v.push(Value::Record(vec![], vec![Item::ValueItem(a.clone())]));
        v.push(Value::Record(vec![], vec![Item::Slot(Value::text("k"), a.clone())]));
        v.push(Value::Record(vec![], vec![Item::Slot(a.clone(), Value::Int32Value(0))]));
        v.push(Value::Record(vec![Attr::of(("t", a.clone()))], vec![]));
    }
    if !quick {
        for a in &sub {
            for b in &sub {
                v.push(Value::Record(vec![], vec![Item::ValueItem(a.clone()), Item::ValueItem(b.clone())]));
            }
        }
    } else {
        for a in sub.iter().take(5) {
            for b in sub.iter().take(5) {
                v.push(Value::Record(vec![], vec![Item::ValueItem(a.clone()), Item::ValueItem(b.clone())]));
            }
        }
    }
    v.push(Value::Record(vec![Attr::of("t")], vec![Item::ValueItem(Value::Int32Value(1))]));
    v.push(Value::Record(vec![Attr::of("t"), Attr::of("u")], vec![]));
    v.push(Value::Record(vec![Attr::of("u")], vec![]));
    v.push(Value::Record(vec![], vec![Item::ValueItem(Value::Record(vec![], vec![Item::ValueItem(Value::Int32Value(1))]))]));
    v
}

/// The thorough pool: the quick pool followed by every record with at most two items (value
/// items and slots over four atoms of different kinds), without attributes, with a bare
/// attribute and with an attribute carrying each atom - so that the recursive comparison of
/// records is exercised on every pair and triple of shapes, not on a hand-picked few.
fn pool_deep() -> Vec<Value> {
    let mut v = pool(false);
    let sub: Vec<Value> = vec![Value::Int32Value(1), Value::Float64Value(1.0), Value::Text(Text::new("a")), Value::Extant];
    let mut items: Vec<Item> = vec![];
    for a in &sub {
        items.push(Item::ValueItem(a.clone()));
    }
    for a in &sub {
        for b in &sub {
            items.push(Item::Slot(a.clone(), b.clone()));
        }
    }
    let mut bodies: Vec<Vec<Item>> = vec![vec![]];
    for a in &items {
        bodies.push(vec![a.clone()]);
    }
    for a in &items {
        for b in &items {
            bodies.push(vec![a.clone(), b.clone()]);
        }
    }
    let mut attrs: Vec<Vec<Attr>> = vec![vec![], vec![Attr::of("t")]];
    for a in &sub {
        attrs.push(vec![Attr::of(("t", a.clone()))]);
    }
    for at in &attrs {
        for b in &bodies {
            v.push(Value::Record(at.clone(), b.clone()));
        }
    }
    v
}

fn kind(v: &Value) -> String {
    match v {
        Value::Float64Value(x) => {
            if x.is_nan() {
                "Float64(nan)".into()
            } else if x.is_infinite() {
                "Float64(inf)".into()
            } else if *x == 0.0 {
                if x.is_sign_negative() { "Float64(-0)".into() } else { "Float64(+0)".into() }
            } else if x.fract() == 0.0 {
                "Float64(integral)".into()
            } else {
                "Float64(fraction)".into()
            }
        }
        Value::Record(..) => "Record".into(),
        other => format!("{}", other.kind()),
    }
}

fn h(v: &Value) -> u64 {
    let mut s = DefaultHasher::new();
    v.hash(&mut s);
    s.finish()
}

fn main() {
    let ctx = Ctx::from_env("C19");
    // the boundary pool runs in well under a second: both tiers use it; the thorough tier appends
    // the systematic record pool (indices of the boundary pool stay valid in it)
    let p = if ctx.quick() { pool(false) } else { pool_deep() };
    let n = p.len();

    if let Some(r) = ctx.replay_request() {
        // replay: indices into the pool printed as debug strings; re-evaluate the law on them
        let d = &r["detail"];
        let idx: Vec<usize> = d["indices"].as_array().unwrap().iter().map(|x| x.as_u64().unwrap() as usize).collect();
        let pool_full = pool_deep();
        let vals: Vec<&Value> = idx.iter().map(|i| &pool_full[*i]).collect();
        let law = d["law"].as_str().unwrap();
        let e = if law.starts_with("drop_take_") { drop_take_laws(&vals).into_iter().find(|(l, _)| l == law).map(|(_, e)| e) } else { eval_law(law, &vals) };
        if let Some(e) = e {
            ctx.violation("replay", r["signature"].as_str().unwrap(), json!({"law": law, "values": format!("{:?}", vals), "explanation": e}));
        }
        ctx.finish("model_checking", "replay");
    }

    let found: Mutex<BTreeMap<String, serde_json::Value>> = Mutex::new(BTreeMap::new());
    let pool_name = ctx.tier.name();
    let report = |law: &str, idx: &[usize], expl: String| {
        let mut kinds: Vec<String> = idx.iter().map(|i| kind(&p[*i])).collect();
        // canonical form: pair laws are symmetric in (a,b) so the kinds are sorted; the
        // collection laws are consequences whose failing keys depend on insertion order, so they
        // are identified by the law alone.
        if idx.len() == 2 {
            kinds.sort();
        }
        let sig = if law.starts_with("sort_") || law.starts_with("hashmap_") || law.starts_with("btreemap_") {
            format!("law={} (consequence of an Eq/Ord/Hash law violation)", law)
        } else {
            format!("law={} kinds={}", law, kinds.join(","))
        };
        let mut f = found.lock().unwrap();
        f.entry(sig).or_insert_with(|| {
            json!({"law": law, "indices": idx, "pool": pool_name,
                   "values": idx.iter().map(|i| format!("{:?}", p[*i])).collect::<Vec<_>>(), "explanation": expl})
        });
    };

    // ---- pairs
    let t0 = Instant::now();
    let mut evals = 0u64;
    let mut eq_pairs = 0u64;
    for i in 0..n {
        if p[i] != p[i] {
            report("eq_reflexive", &[i], "a != a".into());
        }
        if p[i].cmp(&p[i]) != Ordering::Equal {
            report("cmp_reflexive", &[i], "cmp(a,a) != Equal".into());
        }
        for j in 0..n {
            evals += 1;
            let (a, b) = (&p[i], &p[j]);
            let e = a == b;
            if e && i != j {
                eq_pairs += 1;
            }
            if e != (b == a) {
                report("eq_symmetric", &[i, j], format!("(a==b)={} (b==a)={}", e, b == a));
            }
            if e && h(a) != h(b) {
                report("eq_implies_hash_eq", &[i, j], "a==b but hash(a)!=hash(b)".into());
            }
            let c = a.cmp(b);
            if c != b.cmp(a).reverse() {
                report("cmp_antisymmetric", &[i, j], format!("cmp(a,b)={:?} cmp(b,a)={:?}", c, b.cmp(a)));
            }
            if (c == Ordering::Equal) != e {
                report("cmp_equal_iff_eq", &[i, j], format!("cmp(a,b)={:?} (a==b)={}", c, e));
            }
        }
    }
    ctx.add_leg(Leg {
        name: "pairs".into(),
        engine: "E4-enum".into(),
        states: n as u64,
        transitions: evals * 6,
        evaluations: evals,
        distinct_nontrivial: eq_pairs,
        rule: "all ordered pairs of the pool; non-trivial = distinct pool entries that are == (cross-kind equal numbers etc.)".into(),
        samples: vec![json!(format!("{:?} vs {:?}", p[4], p[10])), json!(format!("{:?} vs {:?}", p[n - 1], p[n - 2]))],
        exhaustive: true,
        bounds: json!({"pool_size": n, "pairs": n * n}),
        wall_s: t0.elapsed().as_secs_f64(),
    });

    // ---- triples (parallel over first index)
    let t0 = Instant::now();
    // precompute matrices
    let eqm: Vec<Vec<bool>> = (0..n).map(|i| (0..n).map(|j| p[i] == p[j]).collect()).collect();
    let cmpm: Vec<Vec<Ordering>> = (0..n).map(|i| (0..n).map(|j| p[i].cmp(&p[j])).collect()).collect();
    let idxs: Vec<usize> = (0..n).collect();
    // A triple is reported under a *_transitive law only if each of its three pairs satisfies the
    // pair laws (otherwise the pair-level report is the canonical minimal form of the defect).
    let pair_ok: Vec<Vec<bool>> = (0..n)
        .map(|i| {
            (0..n)
                .map(|j| cmpm[i][j] == cmpm[j][i].reverse() && (cmpm[i][j] == Ordering::Equal) == eqm[i][j] && eqm[i][j] == eqm[j][i])
                .collect()
        })
        .collect();
    let nontriv: Vec<u64> = vcommon::par_map(&idxs, vcommon::ncpu(), |_, &i| {
        let mut nt = 0u64;
        for j in 0..n {
            for k in 0..n {
                if !(pair_ok[i][j] && pair_ok[j][k] && pair_ok[i][k] && pair_ok[i][i] && pair_ok[j][j] && pair_ok[k][k]) {
                    continue;
                }
                if eqm[i][j] && eqm[j][k] && !eqm[i][k] {
                    report("eq_transitive", &[i, j, k], "a==b, b==c, a!=c".into());
                }
                let (ab, bc, ac) = (cmpm[i][j], cmpm[j][k], cmpm[i][k]);
                if ab != Ordering::Greater && bc != Ordering::Greater {
                    if ab == Ordering::Less || bc == Ordering::Less {
                        nt += 1;
                        if ac != Ordering::Less {
                            report("cmp_transitive", &[i, j, k], format!("cmp(a,b)={:?} cmp(b,c)={:?} but cmp(a,c)={:?}", ab, bc, ac));
                        }
                    } else if ac != Ordering::Equal {
                        report("cmp_transitive", &[i, j, k], format!("cmp(a,b)=Equal cmp(b,c)=Equal but cmp(a,c)={:?}", ac));
                    }
                }
            }
        }
        nt
    });
    let triples = (n * n * n) as u64;
    ctx.add_leg(Leg {
        name: "triples".into(),
        engine: "E4-enum".into(),
        states: n as u64,
        transitions: triples * 2,
        evaluations: triples,
        distinct_nontrivial: nontriv.iter().sum(),
        rule: "all ordered triples of the pool; non-trivial = triples with a<=b<=c and at least one strict".into(),
        samples: vec![json!(format!("{:?}, {:?}, {:?}", p[3], p[12], p[40]))],
        exhaustive: true,
        bounds: json!({"pool_size": n, "triples": triples}),
        wall_s: t0.elapsed().as_secs_f64(),
    });

    // ---- collections keyed / sorted by model values
    let t0 = Instant::now();
    let mut coll_evals = 0u64;
    {
        // sort must not panic and must produce a sequence sorted w.r.t. cmp
        let r = std::panic::catch_unwind(|| {
            let mut s = p.clone();
            s.sort();
            s
        });
        coll_evals += 1;
        match r {
            Err(_) => report("sort_no_panic", &[], "Vec<Value>::sort panicked (inconsistent total order detected by std)".into()),
            Ok(s) => {
                for w in 0..s.len().saturating_sub(1) {
                    if s[w].cmp(&s[w + 1]) == Ordering::Greater {
                        let i = p.iter().position(|x| format!("{:?}", x) == format!("{:?}", s[w])).unwrap_or(0);
                        let j = p.iter().position(|x| format!("{:?}", x) == format!("{:?}", s[w + 1])).unwrap_or(0);
                        report("sort_sorted", &[i, j], "adjacent elements after sort are out of order".into());
                    }
                }
            }
        }
        // HashMap: number of distinct keys == number of ==-classes (computed by brute force
        // first-representative scan), every key retrievable
        let mut hm: HashMap<Value, usize> = HashMap::new();
        for (i, v) in p.iter().enumerate() {
            hm.entry(v.clone()).or_insert(i);
            coll_evals += 1;
        }
        for (i, v) in p.iter().enumerate() {
            let rep = (0..n).find(|&j| eqm[j][i]).unwrap();
            match hm.get(v) {
                None => report("hashmap_lookup", &[i], "inserted key not found".into()),
                Some(&j) => {
                    if !eqm[j][i] {
                        report("hashmap_lookup", &[i, j], "lookup returned an entry for an unequal key".into());
                    } else if j != rep && eqm[rep][j] {
                        // equal values ended in different buckets => duplicates of one ==-class
                        report("hashmap_merges_equal_keys", &[rep, j], "two == keys are both present in a HashMap".into());
                    }
                }
            }
            coll_evals += 1;
        }
        // BTreeMap: every inserted key retrievable; keys in the set pairwise non-equal
        let r = std::panic::catch_unwind(|| {
            let mut bm: BTreeMap<Value, usize> = BTreeMap::new();
            for (i, v) in p.iter().enumerate() {
                bm.entry(v.clone()).or_insert(i);
            }
            bm
        });
        match r {
            Err(_) => report("btreemap_no_panic", &[], "BTreeMap insert panicked".into()),
            Ok(bm) => {
                for (i, v) in p.iter().enumerate() {
                    coll_evals += 1;
                    match bm.get(v) {
                        None => report("btreemap_lookup", &[i], "inserted key not found in BTreeMap".into()),
                        Some(&j) => {
                            if !eqm[j][i] {
                                report("btreemap_lookup", &[i, j], "BTreeMap lookup returned the entry of an unequal key".into());
                            }
                        }
                    }
                }
                let keys: Vec<usize> = bm.values().cloned().collect();
                let ks: BTreeSet<usize> = keys.iter().cloned().collect();
                for &a in &ks {
                    for &b in &ks {
                        if a < b && eqm[a][b] {
                            report("btreemap_merges_equal_keys", &[a, b], "two == keys are both present in a BTreeMap".into());
                        }
                    }
                }
            }
        }
    }
    ctx.add_leg(Leg {
        name: "collections".into(),
        engine: "E4-enum".into(),
        states: n as u64,
        transitions: coll_evals,
        evaluations: coll_evals,
        distinct_nontrivial: n as u64,
        rule: "sort / HashMap / BTreeMap over the whole pool; each key looked up".into(),
        samples: vec![json!("sort(pool); HashMap<Value,_> and BTreeMap<Value,_> insert+get of every pool value")],
        exhaustive: true,
        bounds: json!({"pool_size": n}),
        wall_s: t0.elapsed().as_secs_f64(),
    });

    // ---- the real drop_or_take of the map lanes / stores (take / drop of the first n keys)
    let t0 = Instant::now();
    {
        // one representative per ==-class of the boundary pool (a map cannot hold two equal keys)
        let base_n = if ctx.quick() { atoms().len() } else { pool(false).len() };
        let reps: Vec<usize> = (0..base_n).filter(|&i| (0..i).all(|j| !eqm[j][i])).collect();
        let m = reps.len();
        let counts: Vec<(u64, u64)> = vcommon::par_map(&reps, vcommon::ncpu(), |ri, &i| {
            let (mut sets, mut calls) = (0u64, 0u64);
            let mut run = |idx: &[usize]| {
                // as for the triples: a set is examined only if each of its pairs satisfies the
                // pair laws (otherwise the pair-level report is the canonical form of the defect)
                if idx.iter().any(|&a| idx.iter().any(|&b| !pair_ok[a][b])) {
                    return;
                }
                let vals: Vec<&Value> = idx.iter().map(|i| &p[*i]).collect();
                sets += 1;
                calls += (vals.len() as u64 + 2) * 4 * if vals.len() == 3 { 6 } else { vals.len() as u64 };
                for (law, e) in drop_take_laws(&vals) {
                    report(&law, idx, e);
                }
            };
            run(&[i]);
            for (rj, &j) in reps.iter().enumerate().skip(ri + 1) {
                run(&[i, j]);
                for &k in reps.iter().skip(rj + 1) {
                    run(&[i, j, k]);
                }
            }
            (sets, calls)
        });
        // the whole class-representative set at once (sort_by on a long slice is where std
        // detects an inconsistent order)
        // - restricted, greedily, to representatives whose pairs satisfy the pair laws
        let mut good: Vec<usize> = vec![];
        for &i in &reps {
            if pair_ok[i][i] && good.iter().all(|&g| pair_ok[g][i] && pair_ok[i][g]) {
                good.push(i);
            }
        }
        let all: Vec<&Value> = good.iter().map(|i| &p[*i]).collect();
        for (law, e) in drop_take_laws(&all) {
            report(&law, &good[..good.len().min(3)], format!("(all {} law-abiding representatives) {}", good.len(), e));
        }
        let sets: u64 = counts.iter().map(|c| c.0).sum::<u64>() + 1;
        let calls: u64 = counts.iter().map(|c| c.1).sum();
        ctx.add_leg(Leg {
            name: "drop_or_take".into(),
            engine: "E4-enum".into(),
            states: sets,
            transitions: calls,
            evaluations: calls,
            distinct_nontrivial: sets.saturating_sub(m as u64),
            rule: "every set of 1, 2 or 3 pairwise unequal keys (one representative per ==-class; sets containing a pair that already breaks a pair law are left to the pairs leg) and the largest greedy law-abiding representative set, in a HashMap (every insertion order for <= 3 keys) and a BTreeMap, through swimos_agent's drop_or_take for every n in 0..=len+1; non-trivial = sets with at least two keys".into(),
            samples: vec![json!(format!("{:?}", reps.iter().take(3).map(|i| &p[*i]).collect::<Vec<_>>()))],
            exhaustive: true,
            bounds: json!({"representatives": m, "law_abiding_representatives_in_whole_set_run": good.len(), "max_set": 3, "n": "0..=len+1"}),
            wall_s: t0.elapsed().as_secs_f64(),
        });
    }

    for (sig, d) in found.into_inner().unwrap() {
        ctx.violation("laws", &sig, d);
    }
    ctx.assume("SipHash-1-3 with zero keys (std DefaultHasher::new) stands for every Hasher");
    ctx.assume("pool of boundary values; other magnitudes are not enumerated");
    ctx.finish(
        "model_checking",
        "bounded-exhaustive enumeration of all pairs and triples of a boundary pool against the Eq/Ord/Hash laws, on the real Value impls",
    );
}

/// The laws of `drop_or_take` over a set of pairwise unequal keys: for every n, `Drop` names the
/// first n keys and `Take` the others, in the order of `Value::cmp`, whatever the backing map and
/// the order in which the keys were inserted.
fn drop_take_laws(keys: &[&Value]) -> Vec<(String, String)> {
    use swimos_agent::verif_hooks::{drop_or_take, DropOrTake};
    let mut out: Vec<(String, String)> = vec![];
    let mut add = |law: &str, e: String| {
        if !out.iter().any(|(l, _)| l == law) {
            out.push((law.to_string(), e));
        }
    };
    let len = keys.len();
    let orders: Vec<Vec<usize>> = match len {
        1 => vec![vec![0]],
        2 => vec![vec![0, 1], vec![1, 0]],
        3 => vec![vec![0, 1, 2], vec![0, 2, 1], vec![1, 0, 2], vec![1, 2, 0], vec![2, 0, 1], vec![2, 1, 0]],
        _ => vec![(0..len).collect(), (0..len).rev().collect()],
    };
    let r = std::panic::catch_unwind(|| {
        let mut results: Vec<(String, usize, Vec<Value>, Vec<Value>)> = vec![];
        for (oi, order) in orders.iter().enumerate() {
            let mut hm: HashMap<Value, ()> = HashMap::new();
            let mut bm: BTreeMap<Value, ()> = BTreeMap::new();
            for &i in order {
                hm.insert(keys[i].clone(), ());
                if oi == 0 {
                    bm.insert(keys[i].clone(), ());
                }
            }
            let ns: Vec<usize> = if len <= 3 { (0..=len + 1).collect() } else { vec![0, 1, len / 2, len - 1, len, len + 1] };
            for n in ns {
                let d: Vec<Value> = drop_or_take::<Value, (), _>(&hm, DropOrTake::Drop, n).into_iter().collect();
                let t: Vec<Value> = drop_or_take::<Value, (), _>(&hm, DropOrTake::Take, n).into_iter().collect();
                results.push((format!("hash#{}", oi), n, d, t));
                if oi == 0 {
                    let d: Vec<Value> = drop_or_take::<Value, (), _>(&bm, DropOrTake::Drop, n).into_iter().collect();
                    let t: Vec<Value> = drop_or_take::<Value, (), _>(&bm, DropOrTake::Take, n).into_iter().collect();
                    results.push(("btree".into(), n, d, t));
                }
            }
        }
        results
    });
    let results = match r {
        Err(_) => {
            add("drop_take_no_panic", "drop_or_take (or building the map) panicked".into());
            return out;
        }
        Ok(r) => r,
    };
    let mut reference: BTreeMap<usize, (Vec<Value>, Vec<Value>)> = BTreeMap::new();
    for (backing, n, d, t) in &results {
        if d.len() != (*n).min(len) || d.len() + t.len() != len {
            add("drop_take_partition", format!("{} n={}: drop names {} keys and take {} of {}", backing, n, d.len(), t.len(), len));
        }
        let all: Vec<&Value> = d.iter().chain(t.iter()).collect();
        for k in keys {
            if all.iter().filter(|x| **x == *k).count() != 1 {
                add("drop_take_partition", format!("{} n={}: key {:?} is named {} times by drop+take", backing, n, k, all.iter().filter(|x| **x == *k).count()));
            }
        }
        for w in all.windows(2) {
            if w[0].cmp(w[1]) != Ordering::Less {
                add("drop_take_sorted", format!("{} n={}: {:?} comes before {:?} although cmp is {:?}", backing, n, w[0], w[1], w[0].cmp(w[1])));
            }
        }
        match reference.get(n) {
            None => {
                reference.insert(*n, (d.clone(), t.clone()));
            }
            Some((d0, t0)) => {
                if d0 != d || t0 != t {
                    add("drop_take_same_for_every_backing_and_insertion_order", format!("n={}: {} gives drop {:?} take {:?} but the first run gave drop {:?} take {:?}", n, backing, d, t, d0, t0));
                }
            }
        }
    }
    out
}

fn eval_law(law: &str, v: &[&Value]) -> Option<String> {
    match law {
        "eq_reflexive" => (v[0] != v[0]).then(|| "a != a".to_string()),
        "cmp_reflexive" => (v[0].cmp(v[0]) != Ordering::Equal).then(|| "cmp(a,a) != Equal".to_string()),
        "eq_symmetric" => ((v[0] == v[1]) != (v[1] == v[0])).then(|| "asymmetric ==".to_string()),
        "eq_implies_hash_eq" => (v[0] == v[1] && h(v[0]) != h(v[1])).then(|| "a==b but hashes differ".to_string()),
        "cmp_antisymmetric" => (v[0].cmp(v[1]) != v[1].cmp(v[0]).reverse()).then(|| "cmp not antisymmetric".to_string()),
        "cmp_equal_iff_eq" => ((v[0].cmp(v[1]) == Ordering::Equal) != (v[0] == v[1])).then(|| "cmp Equal <=> == broken".to_string()),
        "eq_transitive" => (v[0] == v[1] && v[1] == v[2] && v[0] != v[2]).then(|| "== not transitive".to_string()),
        "cmp_transitive" => {
            let (ab, bc, ac) = (v[0].cmp(v[1]), v[1].cmp(v[2]), v[0].cmp(v[2]));
            if ab != Ordering::Greater && bc != Ordering::Greater {
                if ab == Ordering::Less || bc == Ordering::Less {
                    (ac != Ordering::Less).then(|| "cmp not transitive".to_string())
                } else {
                    (ac != Ordering::Equal).then(|| "cmp not transitive".to_string())
                }
            } else {
                None
            }
        }
        _ => None,
    }
}

#[allow(unused_imports)]
use swimos_runtime::verif_hooks::*;
#[allow(unused_imports)]
use swimos_agent::verif_hooks::*;
#[allow(unused_imports)]
use swimos_remote::verif_hooks::*;
#[allow(unused_imports)]
use swimos_server_app::verif_hooks::*;
fn main() {
    vcommon::machinery_failure("C17: engine not built yet");
}

fn main() {
    vcommon::machinery_failure("C17: engine not built yet");
}

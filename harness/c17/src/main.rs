//! C17 - Inactivity shutdown: unanimous, irrevocable, deadlock-free.
//!
//! Leg `seq` (E2): every sequence of {vote_i, rescind_i, drop_i, poll_receiver} up to a depth
//! bound for 2 and 3 parties on the real `timeout_coord` (through the cfg(swimos_verif)
//! re-export), against a reference model, checked after every operation.
//! Leg `loom` (E3): loom over the actual source text of `timeout_coord/mod.rs` (imports
//! redirected by build.rs): 2-3 voter threads x 1-3 operations, every interleaving and every
//! permitted reordering within the preemption bound.

mod ht;
mod wt;

mod loom_waker {
    use loom::sync::Mutex;
    use std::task::Waker;

    /// Stand-in for `futures::task::AtomicWaker` built on a loom mutex so that loom sees the
    /// register / wake synchronisation.
    #[derive(Debug, Default)]
    pub struct AtomicWaker {
        inner: Mutex<Option<Waker>>,
    }

    impl AtomicWaker {
        pub fn register(&self, waker: &Waker) {
            *self.inner.lock().unwrap() = Some(waker.clone());
        }
        pub fn wake(&self) {
            let w = self.inner.lock().unwrap().take();
            if let Some(w) = w {
                w.wake();
            }
        }
    }
}

#[allow(dead_code, unused_imports, clippy::all)]
mod tc {
    include!(concat!(env!("OUT_DIR"), "/timeout_coord_loom.rs"));
}

use serde_json::json;
use std::collections::BTreeMap;
use std::future::Future;
use std::pin::Pin;
use std::sync::atomic::{AtomicU64, Ordering as StdOrdering};
use std::sync::Mutex;
use std::task::{Context, Poll};
use std::time::Instant;
use swimos_runtime::verif_hooks as rt;
use vcommon::sched::WakeFlag;
use vcommon::{Ctx, Leg};

// ------------------------------------------------------------------------------------------
// Leg seq
// ------------------------------------------------------------------------------------------

#[derive(Clone, Copy, Debug, PartialEq, Eq, PartialOrd, Ord)]
enum Op {
    Vote(u8),
    Rescind(u8),
    Drop(u8),
    /// poll the receiver with the waker of the task that has held it so far
    Poll,
    /// poll the receiver with a fresh waker (the receiver moved to another task, or sits in a
    /// combinator that hands out a new waker per poll): only the most recent waker counts
    PollNew,
}

impl Op {
    fn name(&self) -> String {
        match self {
            Op::Vote(i) => format!("vote{}", i),
            Op::Rescind(i) => format!("rescind{}", i),
            Op::Drop(i) => format!("drop{}", i),
            Op::Poll => "poll".to_string(),
            Op::PollNew => "pollnew".to_string(),
        }
    }
    fn parse(s: &str) -> Option<Op> {
        if s == "poll" {
            return Some(Op::Poll);
        }
        if s == "pollnew" {
            return Some(Op::PollNew);
        }
        let (k, i) = s.split_at(s.len() - 1);
        let i: u8 = i.parse().ok()?;
        match k {
            "vote" => Some(Op::Vote(i)),
            "rescind" => Some(Op::Rescind(i)),
            "drop" => Some(Op::Drop(i)),
            _ => None,
        }
    }
}

fn alphabet(n: u8) -> Vec<Op> {
    let mut a = vec![];
    for i in 0..n {
        a.push(Op::Vote(i));
    }
    for i in 0..n {
        a.push(Op::Rescind(i));
    }
    for i in 0..n {
        a.push(Op::Drop(i));
    }
    a.push(Op::Poll);
    a.push(Op::PollNew);
    a
}

struct Real {
    voters: Vec<Option<rt::Voter>>,
    receiver: rt::Receiver,
}

fn make(n: u8) -> Real {
    if n == 2 {
        let (a, b, r) = rt::downlink_timeout_coordinator();
        Real { voters: vec![Some(a), Some(b)], receiver: r }
    } else {
        let (a, b, c, r) = rt::agent_timeout_coordinator();
        Real { voters: vec![Some(a), Some(b), Some(c)], receiver: r }
    }
}

/// Run one sequence against the real coordinator and the reference model.
/// Returns Err((law, step index, explanation)) for the first failing step.
fn run_seq(n: u8, ops: &[Op]) -> Result<(), (&'static str, usize, String)> {
    let mut real = make(n);
    let all: u8 = (1u8 << n) - 1;
    let mut v: u8 = 0; // parties with an outstanding vote (dropped-without-vote count as voted)
    let mut dropped: u8 = 0;
    let mut unanimous = false;
    let mut flag = WakeFlag::new(false);
    let mut waker = flag.waker();
    let mut registered = false;
    for (step, op) in ops.iter().enumerate() {
        if *op == Op::PollNew {
            flag = WakeFlag::new(false);
            waker = flag.waker();
        }
        match *op {
            Op::Vote(i) => {
                let r = real.voters[i as usize].as_ref().unwrap().vote();
                v |= 1 << i;
                let became = v == all && !unanimous;
                if became {
                    unanimous = true;
                    if r != rt::VoteResult::Unanimous {
                        return Err(("vote_completing_unanimity_returns_unanimous", step, "the vote that completed unanimity returned UnanimityPending".into()));
                    }
                } else if r == rt::VoteResult::Unanimous && !unanimous {
                    return Err(("vote_unanimous_implies_all_voted", step, "vote returned Unanimous although not every party has an outstanding vote".into()));
                }
            }
            Op::Rescind(i) => {
                let r = real.voters[i as usize].as_ref().unwrap().rescind();
                if unanimous {
                    if r != rt::VoteResult::Unanimous {
                        return Err(("unanimity_is_sticky", step, "rescind after unanimity returned UnanimityPending (unanimity undone)".into()));
                    }
                } else {
                    if r != rt::VoteResult::UnanimityPending {
                        return Err(("rescind_unanimous_implies_all_voted", step, "rescind returned Unanimous although unanimity was never reached".into()));
                    }
                    v &= !(1 << i);
                }
            }
            Op::Drop(i) => {
                real.voters[i as usize] = None;
                dropped |= 1 << i;
                if v & (1 << i) == 0 {
                    // a party that disappears without an outstanding vote counts as having voted
                    v |= 1 << i;
                }
                if v == all {
                    unanimous = true;
                }
            }
            Op::Poll | Op::PollNew => {
                let mut cx = Context::from_waker(&waker);
                let r = Pin::new(&mut real.receiver).poll(&mut cx);
                match (r, unanimous) {
                    (Poll::Ready(()), false) => {
                        return Err(("receiver_ready_implies_unanimous", step, "receiver completed although not every party has an outstanding vote".into()));
                    }
                    (Poll::Pending, true) => {
                        return Err(("unanimous_implies_receiver_ready", step, "every live party has voted (dropped parties count) but the receiver is pending: waiters would wait forever".into()));
                    }
                    (Poll::Pending, false) => {
                        registered = true;
                        flag.clear();
                    }
                    (Poll::Ready(()), true) => {
                        registered = false;
                    }
                }
            }
        }
        if unanimous && registered && !flag.is_set() {
            return Err(("unanimity_wakes_receiver", step, "unanimity was reached while the receiver was waiting but the waker of its most recent poll was not woken".into()));
        }
        let _ = dropped;
    }
    // closing observation: receiver readiness must agree with the model
    let f2 = WakeFlag::new(false);
    let w2 = f2.waker();
    let mut cx = Context::from_waker(&w2);
    let r = Pin::new(&mut real.receiver).poll(&mut cx);
    match (r, unanimous) {
        (Poll::Ready(()), false) => Err(("receiver_ready_implies_unanimous", ops.len(), "receiver completed although not every party has an outstanding vote".into())),
        (Poll::Pending, true) => Err(("unanimous_implies_receiver_ready", ops.len(), "every live party has voted (dropped parties count) but the receiver is pending: waiters would wait forever".into())),
        _ => Ok(()),
    }
}

fn valid_next(n: u8, dropped: u8, op: Op) -> bool {
    let _ = n;
    match op {
        Op::Vote(i) | Op::Rescind(i) | Op::Drop(i) => dropped & (1 << i) == 0,
        Op::Poll | Op::PollNew => true,
    }
}

struct SeqResult {
    sequences: u64,
    steps: u64,
    nontrivial: u64,
    // (law) -> minimal failing sequence (by length then lexicographic) and explanation
    failures: BTreeMap<String, (Vec<Op>, String)>,
}

/// Enumerate every valid sequence of length exactly `depth` (prefixes were covered by smaller
/// depths) below the given 2-op prefix.
fn enumerate(n: u8, depth: usize, alpha: &[Op], prefix: &[Op], res: &mut SeqResult) {
    let mut seq: Vec<Op> = prefix.to_vec();
    let mut dropped: u8 = 0;
    for op in prefix {
        if !valid_next(n, dropped, *op) {
            return;
        }
        if let Op::Drop(i) = op {
            dropped |= 1 << i;
        }
    }
    fn rec(n: u8, depth: usize, alpha: &[Op], seq: &mut Vec<Op>, dropped: u8, res: &mut SeqResult) {
        if seq.len() == depth {
            res.sequences += 1;
            res.steps += depth as u64;
            let has_rescind = seq.iter().any(|o| matches!(o, Op::Rescind(_)));
            let has_vote = seq.iter().any(|o| matches!(o, Op::Vote(_)));
            if has_rescind && has_vote {
                res.nontrivial += 1;
            }
            if let Err((law, step, expl)) = run_seq(n, seq) {
                let failing: Vec<Op> = seq[..(step + 1).min(seq.len())].to_vec();
                let e = res.failures.entry(law.to_string());
                match e {
                    std::collections::btree_map::Entry::Vacant(v) => {
                        v.insert((failing, expl));
                    }
                    std::collections::btree_map::Entry::Occupied(mut o) => {
                        let cur = &o.get().0;
                        if (failing.len(), &failing) < (cur.len(), cur) {
                            o.insert((failing, expl));
                        }
                    }
                }
            }
            return;
        }
        for &op in alpha {
            if !valid_next(n, dropped, op) {
                continue;
            }
            let d2 = if let Op::Drop(i) = op { dropped | (1 << i) } else { dropped };
            seq.push(op);
            rec(n, depth, alpha, seq, d2, res);
            seq.pop();
        }
    }
    if seq.len() > depth {
        return;
    }
    rec(n, depth, alpha, &mut seq, dropped, res);
}

fn seq_leg(ctx: &Ctx, n: u8, max_depth: usize) {
    if vcommon::sched::is_worker() {
        return;
    }
    let t0 = Instant::now();
    let alpha = alphabet(n);
    let mut total = SeqResult { sequences: 0, steps: 0, nontrivial: 0, failures: BTreeMap::new() };
    for depth in 1..=max_depth {
        // partition by the first two operations
        let mut prefixes: Vec<Vec<Op>> = vec![];
        if depth < 2 {
            prefixes.push(vec![]);
        } else {
            for &a in &alpha {
                for &b in &alpha {
                    prefixes.push(vec![a, b]);
                }
            }
        }
        let parts = vcommon::par_map(&prefixes, vcommon::ncpu(), |_, p| {
            let mut r = SeqResult { sequences: 0, steps: 0, nontrivial: 0, failures: BTreeMap::new() };
            enumerate(n, depth, &alpha, p, &mut r);
            r
        });
        for r in parts {
            total.sequences += r.sequences;
            total.steps += r.steps;
            total.nontrivial += r.nontrivial;
            for (law, (seq, expl)) in r.failures {
                match total.failures.get(&law) {
                    Some((cur, _)) if (cur.len(), cur) <= (seq.len(), &seq) => {}
                    _ => {
                        total.failures.insert(law, (seq, expl));
                    }
                }
            }
        }
    }
    for (law, (seq, expl)) in &total.failures {
        let names: Vec<String> = seq.iter().map(|o| o.name()).collect();
        let sig = format!("parties={} law={} minimal_history={}", n, law, names.join(","));
        ctx.violation(
            "seq",
            &sig,
            json!({"parties": n, "law": law, "ops": names, "explanation": expl,
                   "what": format!("{} parties: after [{}]: {}", n, names.join(", "), expl)}),
        );
    }
    ctx.add_leg(Leg {
        name: format!("seq-{}party", n),
        engine: "E2-space".into(),
        states: total.sequences,
        transitions: total.steps,
        evaluations: total.sequences,
        distinct_nontrivial: total.nontrivial,
        rule: "every valid operation sequence up to the depth bound (tree enumeration, no state merging); non-trivial = contains both a vote and a rescind".into(),
        samples: vec![json!(["vote0", "rescind0", "vote1", "poll", "vote0"]), json!(["vote0", "rescind0", "drop0", "vote1", "poll"])],
        exhaustive: true,
        bounds: json!({"parties": n, "max_depth": max_depth, "alphabet": alpha.iter().map(|o| o.name()).collect::<Vec<_>>()}),
        wall_s: t0.elapsed().as_secs_f64(),
    });
}

// ------------------------------------------------------------------------------------------
// Leg loom
// ------------------------------------------------------------------------------------------

#[derive(Clone, Copy, Debug, PartialEq, Eq)]
enum LOp {
    Vote,
    Rescind,
}

#[derive(Clone, Debug)]
struct Scenario {
    name: &'static str,
    parties: usize,
    /// per thread operation list
    threads: Vec<Vec<LOp>>,
    /// true: threads drop their voters when done and the main thread *waits* for the receiver
    /// (must terminate); false: voters are kept alive and the final receiver state is compared
    /// with what the results imply.
    wait_for_stop: bool,
}

fn scenarios(thorough: bool) -> Vec<Scenario> {
    use LOp::*;
    let mut s = vec![
        Scenario { name: "2p-vote|vote-keep", parties: 2, threads: vec![vec![Vote], vec![Vote]], wait_for_stop: false },
        Scenario { name: "2p-vote,rescind|vote-keep", parties: 2, threads: vec![vec![Vote, Rescind], vec![Vote]], wait_for_stop: false },
        Scenario { name: "2p-vote,rescind,vote|vote-keep", parties: 2, threads: vec![vec![Vote, Rescind, Vote], vec![Vote]], wait_for_stop: false },
        Scenario { name: "2p-vote,rescind|vote,rescind-keep", parties: 2, threads: vec![vec![Vote, Rescind], vec![Vote, Rescind]], wait_for_stop: false },
        Scenario { name: "2p-vote|vote-wait", parties: 2, threads: vec![vec![Vote], vec![Vote]], wait_for_stop: true },
        Scenario { name: "2p-vote,rescind|vote-wait", parties: 2, threads: vec![vec![Vote, Rescind], vec![Vote]], wait_for_stop: true },
        Scenario { name: "2p-none|vote,rescind-wait", parties: 2, threads: vec![vec![], vec![Vote, Rescind]], wait_for_stop: true },
        Scenario { name: "3p-vote|vote|vote-keep", parties: 3, threads: vec![vec![Vote], vec![Vote], vec![Vote]], wait_for_stop: false },
        Scenario { name: "3p-vote,rescind|vote|vote-keep", parties: 3, threads: vec![vec![Vote, Rescind], vec![Vote], vec![Vote]], wait_for_stop: false },
        Scenario { name: "3p-vote|vote|none-wait", parties: 3, threads: vec![vec![Vote], vec![Vote], vec![]], wait_for_stop: true },
        Scenario { name: "3p-vote,rescind|vote|vote-wait", parties: 3, threads: vec![vec![Vote, Rescind], vec![Vote], vec![Vote]], wait_for_stop: true },
    ];
    if thorough {
        s.push(Scenario { name: "3p-vote,rescind|vote,rescind|vote-keep", parties: 3, threads: vec![vec![Vote, Rescind], vec![Vote, Rescind], vec![Vote]], wait_for_stop: false });
        s.push(Scenario { name: "3p-vote,rescind,vote|vote|vote-keep", parties: 3, threads: vec![vec![Vote, Rescind, Vote], vec![Vote], vec![Vote]], wait_for_stop: false });
        s.push(Scenario { name: "2p-vote,rescind,vote|vote,rescind-keep", parties: 2, threads: vec![vec![Vote, Rescind, Vote], vec![Vote, Rescind]], wait_for_stop: false });
        s.push(Scenario { name: "3p-vote,rescind|vote,rescind|vote-wait", parties: 3, threads: vec![vec![Vote, Rescind], vec![Vote, Rescind], vec![Vote]], wait_for_stop: true });
    }
    s
}

static LOOM_EXECUTIONS: AtomicU64 = AtomicU64::new(0);

fn make_loom(parties: usize) -> (Vec<tc::Voter>, tc::Receiver) {
    if parties == 2 {
        let (v, r) = tc::multi_party_coordinator::<2>();
        (v.into_iter().collect(), r)
    } else {
        let (v, r) = tc::multi_party_coordinator::<3>();
        (v.into_iter().collect(), r)
    }
}

struct NotifyWaker(loom::sync::Arc<loom::sync::Notify>);
impl std::task::Wake for NotifyWaker {
    fn wake(self: std::sync::Arc<Self>) {
        self.0.notify();
    }
}

fn run_loom_scenario(sc: &Scenario, max_preemptions: Option<usize>) {
    let mut b = loom::model::Builder::new();
    b.preemption_bound = max_preemptions;
    b.max_branches = 100_000;
    let sc = sc.clone();
    b.check(move || {
        LOOM_EXECUTIONS.fetch_add(1, StdOrdering::Relaxed);
        let (voters, mut receiver) = make_loom(sc.parties);
        let unanimous_seen = loom::sync::Arc::new(loom::sync::atomic::AtomicBool::new(false));
        let mut handles = vec![];
        for (voter, ops) in voters.into_iter().zip(sc.threads.clone()) {
            let seen = unanimous_seen.clone();
            let keep = !sc.wait_for_stop;
            handles.push(loom::thread::spawn(move || {
                let mut results = vec![];
                for (k, op) in ops.iter().enumerate() {
                    let r = match op {
                        LOp::Vote => voter.vote(),
                        LOp::Rescind => voter.rescind(),
                    };
                    if r == tc::VoteResult::Unanimous {
                        seen.store(true, loom::sync::atomic::Ordering::SeqCst);
                    }
                    if *op == LOp::Rescind && r == tc::VoteResult::UnanimityPending {
                        // "told the stop is still pending": it has not begun and must not begin
                        // before this party votes again; nobody can have been told Unanimous yet.
                        if seen.load(loom::sync::atomic::Ordering::SeqCst) {
                            panic!("LAW rescind_pending_means_not_stopping: thread op {} rescind returned UnanimityPending after another party was told Unanimous", k);
                        }
                    }
                    results.push((*op, r));
                }
                if keep {
                    (Some(voter), results)
                } else {
                    drop(voter);
                    (None, results)
                }
            }));
        }
        if sc.wait_for_stop {
            // every voter is eventually dropped, so the stop must be observed: a lost wake-up or
            // a party that disappears without counting as voted shows up as a loom deadlock.
            let notify = loom::sync::Arc::new(loom::sync::Notify::new());
            let waker = std::task::Waker::from(std::sync::Arc::new(NotifyWaker(notify.clone())));
            let mut cx = Context::from_waker(&waker);
            loop {
                match Pin::new(&mut receiver).poll(&mut cx) {
                    Poll::Ready(()) => break,
                    Poll::Pending => notify.wait(),
                }
            }
            for h in handles {
                let _ = h.join().unwrap();
            }
        } else {
            let mut all_results = vec![];
            let mut kept = vec![];
            for h in handles {
                let (v, r) = h.join().unwrap();
                kept.push(v);
                all_results.push(r);
            }
            let waker = std::task::Waker::from(std::sync::Arc::new(NotifyWaker(loom::sync::Arc::new(loom::sync::Notify::new()))));
            let mut cx = Context::from_waker(&waker);
            let ready = matches!(Pin::new(&mut receiver).poll(&mut cx), Poll::Ready(()));
            let any_unanimous = all_results.iter().flatten().any(|(_, r)| *r == tc::VoteResult::Unanimous);
            let some_withdrawn = all_results.iter().any(|r| matches!(r.last(), Some((LOp::Rescind, tc::VoteResult::UnanimityPending))));
            let all_final_votes = all_results.iter().all(|r| match r.last() {
                Some((LOp::Vote, _)) => true,
                Some((LOp::Rescind, tc::VoteResult::Unanimous)) => true,
                _ => false,
            });
            if any_unanimous && !ready {
                panic!("LAW told_unanimous_implies_stop: a party was told Unanimous but the receiver is pending; results {:?}", all_results);
            }
            if some_withdrawn && ready {
                panic!("LAW withdrawn_vote_blocks_stop: a party's last action was a rescind answered UnanimityPending but the receiver completed; results {:?}", all_results);
            }
            if all_final_votes && !ready {
                panic!("LAW all_voted_implies_stop: every party ended with an outstanding vote but the receiver is pending; results {:?}", all_results);
            }
            let votes_unanimous = all_results.iter().flatten().filter(|(o, r)| *o == LOp::Vote && *r == tc::VoteResult::Unanimous).count();
            if ready && votes_unanimous != 1 {
                panic!("LAW exactly_one_vote_completes: receiver completed but {} vote calls returned Unanimous; results {:?}", votes_unanimous, all_results);
            }
            drop(kept);
        }
    });
}

fn loom_child(name: &str, thorough: bool) -> ! {
    let sc = scenarios(true).into_iter().find(|s| s.name == name).unwrap_or_else(|| vcommon::machinery_failure("unknown loom scenario"));
    let _ = thorough;
    let bound: Option<usize> = std::env::var("VERIF_LOOM_BOUND").ok().and_then(|s| s.parse().ok()).or(Some(3));
    run_loom_scenario(&sc, bound);
    println!("LOOM-EXECUTIONS {}", LOOM_EXECUTIONS.load(StdOrdering::Relaxed));
    std::process::exit(0)
}

fn loom_leg(ctx: &Ctx) {
    if vcommon::sched::is_worker() {
        return;
    }
    let t0 = Instant::now();
    let thorough = !ctx.quick();
    let exe = std::env::current_exe().unwrap();
    let scs = scenarios(thorough);
    // Each scenario runs in a child process under a wall-clock limit; if the preemption bound
    // cannot be completed within the limit the next lower bound is tried, and the bound that was
    // completed is reported per scenario (never a capped run called complete).
    let bounds: Vec<usize> = if thorough { vec![5, 4, 3] } else { vec![3, 2] };
    let limit = std::time::Duration::from_secs(if thorough { 240 } else { 40 });
    let results = vcommon::par_map(&scs, vcommon::ncpu(), |_, sc| {
        let mut last = (None, None, String::from("no bound completed within the time limit"), 0usize);
        for &b in &bounds {
            let child = std::process::Command::new(&exe)
                .arg("--loom-scenario")
                .arg(sc.name)
                .env("VERIF_TIER", if thorough { "thorough" } else { "quick" })
                .env("VERIF_LOOM_BOUND", b.to_string())
                .env_remove("LD_PRELOAD")
                .stdout(std::process::Stdio::piped())
                .stderr(std::process::Stdio::piped())
                .spawn();
            let mut child = match child {
                Ok(c) => c,
                Err(e) => return (None, None, format!("spawn failed: {}", e), b),
            };
            let t0 = Instant::now();
            let mut timed_out = false;
            loop {
                match child.try_wait() {
                    Ok(Some(_)) => break,
                    Ok(None) => {
                        if t0.elapsed() > limit {
                            let _ = child.kill();
                            timed_out = true;
                            break;
                        }
                        std::thread::sleep(std::time::Duration::from_millis(50));
                    }
                    Err(_) => break,
                }
            }
            if timed_out {
                let _ = child.wait();
                continue;
            }
            match child.wait_with_output() {
                Ok(o) => {
                    let stdout = String::from_utf8_lossy(&o.stdout).to_string();
                    let stderr = String::from_utf8_lossy(&o.stderr).to_string();
                    let execs = stdout.lines().find_map(|l| l.strip_prefix("LOOM-EXECUTIONS ").and_then(|n| n.trim().parse::<u64>().ok()));
                    last = (o.status.code(), execs, stderr, b);
                    break;
                }
                Err(e) => {
                    last = (None, None, format!("wait failed: {}", e), b);
                    break;
                }
            }
        }
        last
    });
    let mut total_exec = 0u64;
    let mut samples = vec![];
    let mut all_top = true;
    for (sc, (code, execs, stderr, bound)) in scs.iter().zip(results) {
        if bound != bounds[0] {
            all_top = false;
        }
        match (code, execs) {
            (Some(0), Some(n)) => {
                total_exec += n;
                samples.push(json!({"scenario": sc.name, "executions": n, "preemption_bound_completed": bound}));
            }
            (None, None) if stderr.starts_with("no bound completed") => {
                samples.push(json!({"scenario": sc.name, "executions": 0, "preemption_bound_completed": null, "note": stderr}));
            }
            _ => {
                // a loom failure: classify by the LAW marker, or deadlock
                let law = if let Some(p) = stderr.find("LAW ") {
                    stderr[p + 4..].split(':').next().unwrap_or("unknown").to_string()
                } else if stderr.to_lowercase().contains("deadlock") {
                    "no_deadlock_waiting_for_stop".to_string()
                } else if stderr.contains("exceeded maximum number of branches") {
                    "terminates".to_string()
                } else {
                    // not a recognisable verdict: machinery
                    eprintln!("loom scenario {} failed without a verdict:\n{}", sc.name, &stderr[stderr.len().saturating_sub(1500)..]);
                    vcommon::machinery_failure("loom child crashed");
                };
                let tail: String = stderr.lines().rev().take(12).collect::<Vec<_>>().into_iter().rev().collect::<Vec<_>>().join("\n");
                ctx.violation(
                    "loom",
                    &format!("loom scenario={} law={}", sc.name, law),
                    json!({"scenario": sc.name, "law": law, "explanation": tail,
                           "what": format!("loom scenario {}: {}", sc.name, law)}),
                );
            }
        }
    }
    ctx.add_leg(Leg {
        name: "loom-timeout_coord".into(),
        engine: "E3-loom".into(),
        states: total_exec,
        transitions: total_exec,
        evaluations: total_exec,
        distinct_nontrivial: scs.iter().filter(|s| s.threads.iter().any(|t| t.contains(&LOp::Rescind))).count() as u64,
        rule: "loom executions (interleavings x permitted reorderings) over the listed scenarios; non-trivial = scenarios containing a concurrent rescind".into(),
        samples,
        exhaustive: all_top,
        bounds: json!({"preemption_bounds_tried": bounds, "per_scenario_wall_limit_s": limit.as_secs(), "scenarios": scs.iter().map(|s| s.name).collect::<Vec<_>>(), "note": "the bound completed per scenario is in samples"}),
        wall_s: t0.elapsed().as_secs_f64(),
    });
}

// ------------------------------------------------------------------------------------------
// Leg as-timeouts (E1): how the agent runtime uses the coordinator
// ------------------------------------------------------------------------------------------

/// The real agent + runtime under the schedule explorer with scripts in which the (paused) clock
/// advances by fractions of the inactivity timeout, so that the read, write and HTTP tasks vote,
/// rescind and reach unanimity at different moments.
fn as_timeouts_leg(ctx: &Ctx) {
    use asys::grid::{run_grid, GridSpec};
    use asys::scripts::*;
    use asys::world::{Cfg, Mode, Step};
    let quick = ctx.quick();
    let w = Step::Wait;
    // a command for a lane that does not exist: the read task is busy, nothing reaches the write task
    let noop = || cmd("zz", "0");
    let mut scripts: Vec<(Vec<(usize, Step)>, usize)> = vec![];
    let one = |v: Vec<Step>| (sequential(&[v]), 1usize);
    // the write task votes alone, a later lane event rescinds
    scripts.push(one(vec![link("v"), cmd("v", "1"), w(6), noop(), w(6), cmd("v", "2")]));
    scripts.push(one(vec![link("v"), w(6), noop(), w(6), noop(), w(6), cmd("v", "1"), w(6), noop()]));
    // everybody idle for more than the timeout in the middle of the script
    scripts.push(one(vec![link("v"), cmd("v", "1"), w(11), cmd("v", "2")]));
    // votes just before / just after the boundary
    scripts.push(one(vec![link("v"), cmd("v", "1"), w(9), noop(), w(2), cmd("v", "2"), w(9), noop(), w(2)]));
    scripts.push(one(vec![sync("m"), act(&["@upd{k:1,v:1}"]), w(5), act(&["@upd{k:2,v:2}"]), w(5), noop(), w(5), act(&["@rem(1)"]), w(5), noop(), w(5)]));
    // no lane activity at all: only the read task is ever busy
    scripts.push(one(vec![noop(), w(6), noop(), w(6), noop(), w(6), noop()]));
    // nothing but a link, then silence
    scripts.push(one(vec![link("v"), w(6), w(6)]));
    // the agent's own timers keep the write task busy while the read task is idle
    scripts.push(one(vec![link("v"), act(&["@laterv{d:6,v:1}"]), w(6), w(5), noop(), w(6), w(6)]));
    scripts.push(one(vec![link("v"), cmd("v", "1"), act(&["@laterv{d:13,v:2}"]), w(6), noop(), w(6), w(2), w(3), w(6)]));
    scripts.push(one(vec![link("v"), act(&["@laterv{d:4,v:1}", "@laterv{d:8,v:2}", "@laterv{d:12,v:3}"]), w(5), w(5), w(5), w(5), w(5)]));
    scripts.push(one(vec![link("v"), act(&["@laterv{d:9,v:1}"]), w(5), noop(), w(5), w(5), noop(), w(5)]));
    // HTTP requests (for a lane that does not exist: answered by the HTTP task itself) keep only the
    // HTTP task busy
    let http = || Step::Http("zz".into());
    scripts.push(one(vec![link("v"), cmd("v", "1"), w(6), http(), w(6), http(), w(6), http(), w(6)]));
    scripts.push(one(vec![link("v"), w(11), http(), w(5), cmd("v", "1"), w(6), http(), w(6)]));
    scripts.push(one(vec![http(), w(6), http(), w(6), http(), w(6), http()]));
    // two remotes: one keeps the read task busy, the other makes lane events
    let every = if quick { 3 } else { 1 };
    for (i, s) in interleavings(&[vec![link("v"), w(6), cmd("v", "1")], vec![noop(), w(6), noop()]]).into_iter().enumerate() {
        if i % every == 0 {
            scripts.push((s, 2));
        }
    }
    for (i, s) in interleavings(&[vec![link("v"), cmd("v", "1"), w(7)], vec![w(7), sync("v"), cmd("v", "2")]]).into_iter().enumerate() {
        if i % every == 0 {
            scripts.push((s, 2));
        }
    }
    let mut cfgs = vec![];
    for (script, remotes) in &scripts {
        for (cap, lane_buf) in [(4096usize, 4096usize), (8, 4096), (4096, 8)] {
            for budget in [2usize, 64] {
                for mode in [Mode::Eager, Mode::Burst, Mode::SlowRead] {
                    let mut c = Cfg::basic(script.clone(), *remotes);
                    c.cap = cap;
                    c.lane_buf = lane_buf;
                    c.budget = budget;
                    c.mode = mode;
                    c.ticks = 2;
                    c.final_stop = false;
                    cfgs.push(c);
                }
            }
        }
    }
    run_grid(ctx, GridSpec { name: "as-timeouts-d1".into(), cfgs, bound: if quick { 1 } else { 2 }, max_exec_per_cfg: if quick { 20_000 } else { 500_000 }, wall_cap_s: if quick { 15.0 } else { 900.0 } });
}

fn main() {
    let args: Vec<String> = std::env::args().collect();
    if args.len() >= 3 && args[1] == "--loom-scenario" {
        let thorough = std::env::var("VERIF_TIER").as_deref() == Ok("thorough");
        loom_child(&args[2], thorough);
    }
    let ctx = Ctx::from_env("C17");
    asys::world::set_checker(asys::oracle::check_c17_system);
    if let Some(r) = ctx.replay_request() {
        let d = &r["detail"];
        if r["leg"].as_str() == Some("ht-votes") {
            for (sig, det) in ht::replay(d) {
                ctx.violation("replay", &sig, det);
            }
        } else if r["leg"].as_str().unwrap_or("").starts_with("wt-") {
            wt::replay(&ctx, &r);
        } else if r["leg"].as_str().unwrap_or("").starts_with("dl-") {
            c07::timeouts_replay(&ctx, &r);
        } else if r["leg"].as_str().unwrap_or("").starts_with("as-") {
            asys::grid::replay(&ctx, &r);
        } else if r["leg"] == "seq" {
            let n = d["parties"].as_u64().unwrap() as u8;
            let ops: Vec<Op> = d["ops"].as_array().unwrap().iter().map(|s| Op::parse(s.as_str().unwrap()).unwrap()).collect();
            if let Err((law, _, expl)) = run_seq(n, &ops) {
                println!("replay: {} -> {}", law, expl);
                ctx.violation("seq", r["signature"].as_str().unwrap(), d.clone());
            }
        } else {
            let name = d["scenario"].as_str().unwrap().to_string();
            let exe = std::env::current_exe().unwrap();
            let o = std::process::Command::new(exe).arg("--loom-scenario").arg(&name).env("VERIF_TIER", "thorough").output().unwrap();
            if !o.status.success() {
                ctx.violation("loom", r["signature"].as_str().unwrap(), d.clone());
            }
        }
        ctx.finish("model_checking", "replay");
    }
    let (d2, d3) = if ctx.quick() { (9, 7) } else { (11, 9) };
    seq_leg(&ctx, 2, d2);
    seq_leg(&ctx, 3, d3);
    loom_leg(&ctx);
    as_timeouts_leg(&ctx);
    c07::run_timeouts_leg(&ctx);
    wt::run_leg(&ctx);
    ht::run(&ctx);
    ctx.assume("system legs: the clock moves by scripted partial advances (agent runtime: also while the runtime has work pending, i.e. it was not scheduled for a while; downlink runtime: only while it has nothing to do) and by full ticks at quiescence");
    ctx.assume("loom models the C11 memory orderings of the AtomicU8; the AtomicWaker of the futures crate is replaced by a mutex-protected waker cell (its register/wake contract, not its implementation)");
    ctx.assume("Voter is !Sync: each voter is used by one thread (Cell<bool> stays a plain cell)");
    ctx.finish(
        "model_checking",
        "exhaustive enumeration of all operation sequences up to a depth bound on the real coordinator against a reference model, plus loom exploration of every interleaving of 2-3 voter threads over the real source text",
    );
    #[allow(unreachable_code)]
    {
        let _ = Mutex::new(());
    }
}

//! Leg `ht-votes` (E4): the agent runtime's HTTP task on its own (through the cfg(swimos_verif)
//! constructor `http_task_for_verif`). The harness plays the server (incoming requests), the agent
//! (the receiving end of an HTTP lane whose request channel holds ONE request, so that the task can
//! be made to wait with a request in its hands), the two other voters and the clock.
//!
//! Law (C17 at the level of one constituent task): when the stop becomes unanimous the HTTP task
//! is idle - it holds no request that it has taken from the server and not yet handed to a lane or
//! answered - and has been for at least the inactivity timeout.
//!
//! Every script over {request for the lane, request for a lane that does not exist, the agent
//! takes one request, the clock advances by 0.4 / 0.7 timeouts, the other two tasks vote, the
//! other two tasks withdraw} up to a length bound. The task runs on a paused Tokio runtime of its
//! own; after every step it runs until it has nothing more to do.

use bytes::Bytes;
use futures::FutureExt;
use serde_json::json;
use std::num::NonZeroUsize;
use std::time::{Duration, Instant};
use swimos_api::agent::{HttpLaneRequest, HttpResponseReceiver};
use swimos_runtime::agent::AgentRuntimeConfig;
use swimos_runtime::verif_hooks::{http_task_for_verif, HttpTaskHandles, VoteResult};
use vcommon::{Ctx, Leg};

const TIMEOUT: Duration = Duration::from_secs(30);
const QUEUE: usize = 8;

#[derive(Clone, Copy, Debug, PartialEq, Eq)]
pub enum HStep {
    Req,
    ReqUnknown,
    Take,
    Wait(u32),
    VoteOthers,
    RescindOthers,
}

impl HStep {
    fn name(&self) -> String {
        match self {
            HStep::Req => "request(h)".into(),
            HStep::ReqUnknown => "request(zz)".into(),
            HStep::Take => "agent-takes-one".into(),
            HStep::Wait(n) => format!("wait({}/10)", n),
            HStep::VoteOthers => "others-vote".into(),
            HStep::RescindOthers => "others-rescind".into(),
        }
    }
}

fn alphabet() -> Vec<HStep> {
    vec![HStep::Req, HStep::ReqUnknown, HStep::Take, HStep::Wait(4), HStep::Wait(7), HStep::VoteOthers, HStep::RescindOthers]
}

fn request(lane: &str) -> (HttpLaneRequest, HttpResponseReceiver) {
    let uri: swimos_api::http::Uri = format!("/node?lane={}", lane).parse().expect("uri");
    let req = swimos_api::http::HttpRequest::get(uri).map(|_| Bytes::new());
    HttpLaneRequest::new(req)
}

pub struct CaseResult {
    pub log: Vec<String>,
    pub violations: Vec<(String, String)>,
    pub unanimous: bool,
    pub held_at_some_point: bool,
}

async fn settle() {
    // paused clock: this returns once every task is idle (and moves the clock by a millisecond)
    tokio::time::sleep(Duration::from_millis(1)).await;
}

async fn run_case(script: &[HStep]) -> CaseResult {
    let config = AgentRuntimeConfig { inactive_timeout: TIMEOUT, lane_http_request_channel_size: NonZeroUsize::new(1).unwrap(), ..Default::default() };
    let (task, handles) = http_task_for_verif(config, vec!["h"], QUEUE);
    let HttpTaskHandles { read_voter, write_voter, mut vote_rx, stop, requests_tx, mut lanes, registrations_tx } = handles;
    let _keep = (stop, registrations_tx);
    let task = tokio::spawn(task);
    let start = tokio::time::Instant::now();
    let now_ms = || tokio::time::Instant::now().duration_since(start).as_millis() as u64;
    let mut log = vec![];
    let mut violations: Vec<(String, String)> = vec![];
    let (mut sent, mut taken, mut answered) = (0usize, 0usize, 0usize);
    let mut pending_404: Vec<HttpResponseReceiver> = vec![];
    let mut keep_responses = vec![];
    let mut others_voted = false;
    let mut last_activity_ms = 0u64;
    let mut last_accounted = 0usize; // pulled + delivered, to notice activity
    let mut unanimous = false;
    let mut held_at_some_point = false;
    settle().await;
    for st in script {
        let mut answer: Option<VoteResult> = None;
        match st {
            HStep::Req | HStep::ReqUnknown => {
                let (req, rx) = request(if *st == HStep::Req { "h" } else { "zz" });
                if requests_tx.try_send(req).is_ok() {
                    sent += 1;
                    if *st == HStep::Req {
                        keep_responses.push(rx);
                    } else {
                        pending_404.push(rx);
                    }
                }
            }
            HStep::Take => {
                if let Ok(r) = lanes[0].1.try_recv() {
                    taken += 1;
                    drop(r);
                }
            }
            HStep::Wait(n) => tokio::time::advance(Duration::from_secs(3) * *n).await,
            HStep::VoteOthers => {
                if !others_voted {
                    others_voted = true;
                    let a = read_voter.vote();
                    let b = write_voter.vote();
                    answer = Some(if a == VoteResult::Unanimous || b == VoteResult::Unanimous { VoteResult::Unanimous } else { VoteResult::UnanimityPending });
                }
            }
            HStep::RescindOthers => {
                if others_voted {
                    let a = read_voter.rescind();
                    let b = write_voter.rescind();
                    if a == VoteResult::Unanimous || b == VoteResult::Unanimous {
                        answer = Some(VoteResult::Unanimous);
                    } else {
                        others_voted = false;
                    }
                }
            }
        }
        // what the task holds *before* it runs again: a vote that completes now is judged on this
        let account = |sent: usize, taken: usize, answered: usize, lanes: &Vec<(swimos_model::Text, tokio::sync::mpsc::Receiver<HttpLaneRequest>)>| {
            let queued = QUEUE - requests_tx.capacity();
            let pulled = sent - queued;
            let delivered = taken + lanes[0].1.len() + answered;
            (pulled, delivered)
        };
        let (pulled0, delivered0) = account(sent, taken, answered, &lanes);
        let told_unanimous = answer == Some(VoteResult::Unanimous);
        settle().await;
        pending_404.retain_mut(|rx| {
            if rx.try_recv().is_ok() {
                answered += 1;
                false
            } else {
                true
            }
        });
        let (pulled, delivered) = account(sent, taken, answered, &lanes);
        if pulled + delivered != last_accounted {
            last_accounted = pulled + delivered;
            last_activity_ms = now_ms();
        }
        if pulled > delivered {
            held_at_some_point = true;
        }
        log.push(format!("[{} ms] {} -> pulled {} delivered {} others_voted {} answer {:?}", now_ms(), st.name(), pulled, delivered, others_voted, answer));
        let ready = (&mut vote_rx).now_or_never().is_some();
        if told_unanimous || ready || task.is_finished() {
            unanimous = told_unanimous || ready;
            if unanimous {
                // the task's state when unanimity was reached: before the settle if a harness vote completed it
                let (p, d) = if told_unanimous { (pulled0, delivered0) } else { (pulled, delivered) };
                if p > d {
                    violations.push((
                        "law=no_unanimity_while_the_http_task_holds_a_request".into(),
                        format!("the stop became unanimous at {} ms while the HTTP task held {} request(s) it had taken and neither handed to the lane nor answered; log {:?}", now_ms(), p - d, log),
                    ));
                }
                let idle_for = now_ms().saturating_sub(last_activity_ms);
                if idle_for + 50 < TIMEOUT.as_millis() as u64 && !told_unanimous {
                    violations.push((
                        "law=http_task_votes_only_after_the_timeout".into(),
                        format!("the HTTP task's vote completed the stop {} ms after it last took or delivered a request (timeout {} ms); log {:?}", idle_for, TIMEOUT.as_millis(), log),
                    ));
                }
            }
            break;
        }
    }
    task.abort();
    CaseResult { log, violations, unanimous, held_at_some_point }
}

pub fn run_one(script: &[HStep]) -> Result<CaseResult, String> {
    let script = script.to_vec();
    std::thread::spawn(move || {
        let rt = tokio::runtime::Builder::new_current_thread().enable_all().start_paused(true).build().map_err(|e| e.to_string())?;
        Ok(rt.block_on(run_case(&script)))
    })
    .join()
    .unwrap_or_else(|_| Err("panic: the HTTP task or the harness panicked".into()))
}

fn scripts(max_len: usize) -> Vec<Vec<HStep>> {
    let al = alphabet();
    let mut out: Vec<Vec<HStep>> = vec![];
    let mut layer: Vec<Vec<HStep>> = vec![vec![]];
    for _ in 0..max_len {
        let mut next = vec![];
        for s in &layer {
            for a in &al {
                let mut t = s.clone();
                t.push(*a);
                next.push(t);
            }
        }
        out.extend(next.iter().cloned());
        layer = next;
    }
    out
}

pub fn run(ctx: &Ctx) {
    if vcommon::sched::is_worker() {
        return;
    }
    let t0 = Instant::now();
    let sc = scripts(if ctx.quick() { 5 } else { 7 });
    let results = vcommon::par_map(&sc, vcommon::ncpu(), |_, s| run_one(s));
    let mut seen = std::collections::BTreeSet::new();
    let (mut unanimous, mut held) = (0u64, 0u64);
    for (s, r) in sc.iter().zip(results.iter()) {
        match r {
            Err(e) => {
                if seen.insert("law=no_panic".to_string()) {
                    ctx.violation("ht-votes", "law=no_panic", json!({"leg": "ht-votes", "script": s.iter().map(|a| a.name()).collect::<Vec<_>>(), "explanation": e, "what": e}));
                }
            }
            Ok(c) => {
                if c.unanimous {
                    unanimous += 1;
                }
                if c.held_at_some_point {
                    held += 1;
                }
                for (sig, expl) in &c.violations {
                    if seen.insert(sig.clone()) {
                        ctx.violation("ht-votes", sig, json!({"leg": "ht-votes", "script": s.iter().map(|a| a.name()).collect::<Vec<_>>(), "log": c.log, "explanation": expl, "what": expl}));
                    }
                }
            }
        }
    }
    let n = sc.len() as u64;
    ctx.add_leg(Leg {
        name: "ht-votes".into(),
        engine: "E4-enum".into(),
        states: n,
        transitions: sc.iter().map(|s| s.len() as u64).sum(),
        evaluations: n,
        distinct_nontrivial: held,
        rule: "every script over {request(h), request(zz), the agent takes one request, wait 0.4 / 0.7 timeouts, the other two tasks vote, the other two tasks withdraw} up to the length bound, on the real HTTP task with a lane channel of capacity 1; non-trivial = at some point the task held a request it could not yet hand over".into(),
        samples: vec![json!(["wait(7/10)", "wait(4/10)", "request(h)", "request(h)", "others-vote"])],
        exhaustive: true,
        bounds: json!({"script_length": if ctx.quick() { 5 } else { 7 }, "lane_channel": 1, "runs_reaching_unanimity": unanimous}),
        wall_s: t0.elapsed().as_secs_f64(),
    });
}

pub fn replay(d: &serde_json::Value) -> Vec<(String, serde_json::Value)> {
    let al = alphabet();
    let script: Vec<HStep> = d["script"].as_array().map(|a| a.iter().filter_map(|x| x.as_str().and_then(|n| al.iter().find(|s| s.name() == n).copied())).collect()).unwrap_or_default();
    match run_one(&script) {
        Ok(c) => {
            for l in &c.log {
                println!("{}", l);
            }
            c.violations.into_iter().map(|(s, e)| (s, json!({"leg": "ht-votes", "script": d["script"], "explanation": e}))).collect()
        }
        Err(e) => vec![("law=no_panic".into(), json!({"leg": "ht-votes", "script": d["script"], "explanation": e}))],
    }
}

//! Leg `wt-votes` (E1): the agent runtime's write task on its own (through the cfg(swimos_verif)
//! constructor `write_task_for_verif`). The harness plays everything around it - the agent's
//! lanes, the read task's coordination messages, the two other voters, one remote and the clock -
//! so it knows exactly which activity the write task can have seen at every poll.
//!
//! Law: unanimity is never reached less than the inactivity timeout after the write task
//! *consumed* a lane event or coordination message (a lower bound of the consumption time is the
//! first poll after the item was written at which the task was certainly inside its event loop;
//! the task takes ready items before it looks at its timer, and re-arms the timer for each).

use bytes::BytesMut;
use serde_json::json;
use std::future::Future;
use std::num::NonZeroUsize;
use std::pin::Pin;
use std::sync::Arc;
use std::task::{Context, Poll};
use std::time::{Duration, Instant};
use swimos_agent_protocol::encoding::lane::RawValueLaneResponseEncoder;
use swimos_agent_protocol::LaneResponse;
use swimos_api::agent::{UplinkKind, WarpLaneKind};
use swimos_runtime::agent::AgentRuntimeConfig;
use swimos_runtime::verif_hooks::{write_task_for_verif, WriteTaskHandles};
use swimos_utilities::byte_channel::{byte_channel, BudgetedFutureExt, ByteReader, ByteWriter};
use tokio::io::{AsyncRead, AsyncWrite, ReadBuf};
use tokio_util::codec::Encoder;
use uuid::Uuid;
use vcommon::sched::{ExploreStats, Outcome, Subject, WakeFlag, World};
use vcommon::{Ctx, Leg};

const TIMEOUT: Duration = Duration::from_secs(30);
const RID: Uuid = Uuid::from_u128(1000);

#[derive(Clone, Debug, PartialEq, Eq, serde::Serialize, serde::Deserialize)]
pub enum WStep {
    Attach,
    Link,
    Unlink,
    /// the agent's value lane `v` produces an event
    Ev(i32),
    /// the clock advances by n tenths of the inactivity timeout
    Wait(u32),
    ReadVote,
    ReadRescind,
    HttpVote,
    HttpRescind,
    /// the agent registers a new non-transient lane: the write task leaves its event loop until
    /// the agent acknowledges the initialisation
    RegLane,
    InitAck,
}

#[derive(Clone, Debug, serde::Serialize, serde::Deserialize)]
pub struct WCfg {
    pub script: Vec<WStep>,
    pub budget: usize,
    pub lane_buf: usize,
}

struct Activity {
    step: u64,
    what: String,
    /// lower bound of the time at which the write task consumed it
    consumed_lb: Option<u64>,
}

pub struct WtWorld {
    cfg: WCfg,
    subject: Subject<()>,
    h: WriteTaskHandles,
    pos: usize,
    step: u64,
    start: Option<tokio::time::Instant>,
    remote_rx: Option<ByteReader>,
    remote_flag: Arc<WakeFlag>,
    remote_bytes: usize,
    lane_promise: Option<tokio::sync::oneshot::Receiver<Result<(ByteWriter, ByteReader), swimos_api::error::AgentRuntimeError>>>,
    new_lane: Option<(ByteWriter, ByteReader)>,
    /// a registration has been requested and not yet acknowledged
    registration_open: bool,
    activities: Vec<Activity>,
    read_voted: bool,
    http_voted: bool,
    unanimous_at: Option<(u64, u64, String)>, // (step, time, how)
    stop_fired: bool,
    completed_at: Option<u64>,
    violations: Vec<(String, String)>,
    trace_on: bool,
    trace: Vec<String>,
}

const EV_POLL: u32 = 0;
const EV_RECV: u32 = 1;
const EV_SCRIPT: u32 = 2;
const EV_STOP: u32 = 3;

impl WtWorld {
    fn now_ms(&self) -> u64 {
        self.start.map(|s| tokio::time::Instant::now().duration_since(s).as_millis() as u64).unwrap_or(0)
    }

    fn log(&mut self, s: String) {
        if self.trace_on {
            let t = self.now_ms();
            self.trace.push(format!("[{} @{}ms] {}", self.step, t, s));
        }
    }

    fn check_unanimity(&mut self, how: &str) {
        if self.unanimous_at.is_some() {
            return;
        }
        let flag = WakeFlag::new(false);
        let waker = flag.waker();
        let mut cx = Context::from_waker(&waker);
        if let Poll::Ready(_) = Pin::new(&mut self.h.vote_rx).poll(&mut cx) {
            let now = self.now_ms();
            self.unanimous_at = Some((self.step, now, how.to_string()));
            self.log(format!("unanimity reached ({})", how));
            let timeout_ms = TIMEOUT.as_millis() as u64;
            let late: Vec<String> = self
                .activities
                .iter()
                .filter(|a| a.consumed_lb.map(|l| now < l + timeout_ms).unwrap_or(false))
                .map(|a| format!("{} written at step {} and consumed no earlier than t={} ms", a.what, a.step, a.consumed_lb.unwrap()))
                .collect();
            if !late.is_empty() && !self.stop_fired {
                self.violations.push((
                    "wt: unanimity reached less than the inactivity timeout after the write task consumed a lane event or coordination message".into(),
                    format!("unanimity at step {} (t={} ms, {}); {}", self.step, now, how, late.join("; ")),
                ));
            }
        }
    }
}

impl World for WtWorld {
    type Cfg = WCfg;

    fn new(cfg: &WCfg, trace: bool) -> Self {
        let config = AgentRuntimeConfig { inactive_timeout: TIMEOUT, prune_remote_delay: Duration::from_secs(100_000), shutdown_timeout: Duration::from_secs(10), ..Default::default() };
        let (task, h) = write_task_for_verif(Uuid::from_u128(7), "/node", config, vec![("v", UplinkKind::Value, true), ("m", UplinkKind::Map, true)], NonZeroUsize::new(cfg.lane_buf.max(64)).unwrap());
        let budget = NonZeroUsize::new(cfg.budget.max(2)).unwrap();
        let subject: Subject<()> = Subject::new(tokio::task::unconstrained(
            async move {
                let _ = task.await;
            }
            .with_budget(budget),
        ));
        WtWorld {
            cfg: cfg.clone(),
            subject,
            h,
            pos: 0,
            step: 0,
            start: None,
            remote_rx: None,
            remote_flag: WakeFlag::new(true),
            remote_bytes: 0,
            lane_promise: None,
            new_lane: None,
            registration_open: false,
            activities: vec![],
            read_voted: false,
            http_voted: false,
            unanimous_at: None,
            stop_fired: false,
            completed_at: None,
            violations: vec![],
            trace_on: trace,
            trace: vec![],
        }
    }

    fn enabled(&mut self) -> Vec<u32> {
        let mut out = vec![];
        if self.subject.runnable() {
            out.push(EV_POLL);
        }
        if self.remote_rx.is_some() && self.remote_flag.is_set() {
            out.push(EV_RECV);
        }
        if self.pos < self.cfg.script.len() && !self.stop_fired {
            out.push(EV_SCRIPT);
        }
        if out.is_empty() && self.subject.alive() && !self.stop_fired {
            return vec![EV_STOP];
        }
        out
    }

    fn label(&self, code: u32) -> String {
        match code {
            EV_POLL => "poll".into(),
            EV_RECV => "remote-recv".into(),
            EV_STOP => "stop".into(),
            _ => format!("script({:?})", self.cfg.script.get(self.pos)),
        }
    }

    async fn fire(&mut self, code: u32) {
        self.step += 1;
        self.start.get_or_insert_with(tokio::time::Instant::now);
        match code {
            EV_POLL => {
                // which pending items can the task certainly take in this poll?
                let certainly_in_loop = !self.registration_open;
                let now = self.now_ms();
                if certainly_in_loop {
                    for a in self.activities.iter_mut().filter(|a| a.consumed_lb.is_none()) {
                        a.consumed_lb = Some(now);
                    }
                }
                if self.subject.poll() {
                    self.completed_at = Some(self.step);
                    self.log("write task completed".into());
                }
                // has the lane registration been picked up?
                if let Some(p) = self.lane_promise.as_mut() {
                    if let Ok(r) = p.try_recv() {
                        self.lane_promise = None;
                        if let Ok(io) = r {
                            self.new_lane = Some(io);
                            self.log("the new lane's channels were handed out: the write task waits for the agent's acknowledgement".into());
                        }
                    }
                }
                self.h.drain_read_messages();
                self.check_unanimity("during a poll of the write task");
            }
            EV_RECV => {
                if let Some(rx) = self.remote_rx.as_mut() {
                    let waker = self.remote_flag.waker();
                    let mut cx = Context::from_waker(&waker);
                    let mut tmp = [0u8; 4096];
                    loop {
                        let mut rb = ReadBuf::new(&mut tmp);
                        self.remote_flag.clear();
                        match Pin::new(&mut *rx).poll_read(&mut cx, &mut rb) {
                            Poll::Ready(Ok(())) => {
                                let n = rb.filled().len();
                                if n == 0 {
                                    self.remote_rx = None;
                                    break;
                                }
                                self.remote_bytes += n;
                            }
                            Poll::Ready(Err(_)) => {
                                self.remote_rx = None;
                                break;
                            }
                            Poll::Pending => {
                                if self.remote_flag.is_set() {
                                    continue;
                                }
                                break;
                            }
                        }
                    }
                }
            }
            EV_STOP => {
                self.stop_fired = true;
                if let Some(s) = self.h.stop.take() {
                    s.trigger();
                }
            }
            _ => {
                let st = self.cfg.script[self.pos].clone();
                self.pos += 1;
                let step = self.step;
                match &st {
                    WStep::Attach => {
                        let (tx, rx) = byte_channel(NonZeroUsize::new(4096).unwrap());
                        let _ = self.h.attach_remote(RID, tx);
                        self.remote_rx = Some(rx);
                    }
                    WStep::Link => {
                        if self.h.link(RID, "v") {
                            self.activities.push(Activity { step, what: "link request".into(), consumed_lb: None });
                        }
                    }
                    WStep::Unlink => {
                        if self.h.unlink(RID, "v") {
                            self.activities.push(Activity { step, what: "unlink request".into(), consumed_lb: None });
                        }
                    }
                    WStep::Ev(x) => {
                        let body = x.to_string();
                        let mut buf = BytesMut::new();
                        RawValueLaneResponseEncoder::default().encode(LaneResponse::StandardEvent(body.as_bytes()), &mut buf).expect("encode");
                        let w = &mut self.h.lanes[0].2;
                        let flag = WakeFlag::new(false);
                        let waker = flag.waker();
                        let mut cx = Context::from_waker(&waker);
                        let mut data: &[u8] = &buf;
                        let mut ok = true;
                        while !data.is_empty() {
                            match Pin::new(&mut *w).poll_write(&mut cx, data) {
                                Poll::Ready(Ok(n)) => data = &data[n..],
                                Poll::Ready(Err(_)) => {
                                    ok = false;
                                    break;
                                }
                                Poll::Pending => {
                                    if flag.is_set() {
                                        flag.clear();
                                        continue;
                                    }
                                    ok = false;
                                    break;
                                }
                            }
                        }
                        if ok {
                            self.activities.push(Activity { step, what: format!("lane event {}", x), consumed_lb: None });
                        }
                    }
                    WStep::Wait(n) => {
                        tokio::time::advance(TIMEOUT * *n / 10 + Duration::from_millis(1)).await;
                    }
                    WStep::ReadVote => {
                        let r = self.h.read_voter.vote();
                        self.read_voted = true;
                        self.log(format!("read voter votes: {:?}", r));
                        self.check_unanimity("when the read task's vote was cast");
                    }
                    WStep::ReadRescind => {
                        if self.read_voted {
                            let r = self.h.read_voter.rescind();
                            self.read_voted = false;
                            self.log(format!("read voter rescinds: {:?}", r));
                        }
                    }
                    WStep::HttpVote => {
                        let r = self.h.http_voter.vote();
                        self.http_voted = true;
                        self.log(format!("http voter votes: {:?}", r));
                        self.check_unanimity("when the HTTP task's vote was cast");
                    }
                    WStep::HttpRescind => {
                        if self.http_voted {
                            let r = self.h.http_voter.rescind();
                            self.http_voted = false;
                            self.log(format!("http voter rescinds: {:?}", r));
                        }
                    }
                    WStep::RegLane => {
                        if self.lane_promise.is_none() && self.new_lane.is_none() {
                            self.lane_promise = self.h.register_lane("extra", WarpLaneKind::Value, false);
                            self.registration_open = self.lane_promise.is_some();
                        }
                    }
                    WStep::InitAck => {
                        if let Some((w, _r)) = self.new_lane.as_mut() {
                            let mut buf = BytesMut::new();
                            RawValueLaneResponseEncoder::default().encode(LaneResponse::<&[u8]>::Initialized, &mut buf).expect("encode");
                            let flag = WakeFlag::new(false);
                            let waker = flag.waker();
                            let mut cx = Context::from_waker(&waker);
                            let _ = Pin::new(&mut *w).poll_write(&mut cx, &buf);
                            self.registration_open = false;
                        }
                    }
                }
                self.log(format!("{:?}", st));
            }
        }
    }

    fn finish(self) -> Outcome {
        let mut h: u64 = 0xcbf29ce484222325;
        let mut feed = |s: &str| {
            for b in s.as_bytes() {
                h ^= *b as u64;
                h = h.wrapping_mul(0x100000001b3);
            }
        };
        feed(&format!("{:?}|{}|{:?}|{}", self.unanimous_at.as_ref().map(|u| (u.1, u.2.clone())), self.remote_bytes, self.completed_at.is_some(), self.stop_fired));
        Outcome { digest: h, violations: self.violations, log: self.trace }
    }
}

fn scripts() -> Vec<Vec<WStep>> {
    use WStep::*;
    vec![
        // the write task is away from its loop while an event arrives and the timeout passes
        vec![Attach, Link, ReadVote, HttpVote, RegLane, Ev(1), Wait(20), InitAck, Wait(5)],
        vec![Attach, Link, RegLane, Ev(1), Wait(11), ReadVote, HttpVote, InitAck, Wait(5), Ev(2), Wait(11)],
        // everybody idle: unanimity is legitimate
        vec![Attach, Link, Ev(1), Wait(6), ReadVote, HttpVote, Wait(6)],
        // the write task votes alone, an event makes it rescind, then the others vote
        vec![Attach, Link, Wait(11), Ev(1), ReadVote, HttpVote, Wait(5), Ev(2), Wait(6), Wait(6)],
        // events exactly at and around the deadline
        vec![Attach, Link, ReadVote, HttpVote, Ev(1), Wait(10), Ev(2), Wait(10), Ev(3), Wait(9), Ev(4), Wait(2)],
        // coordination messages are activity too
        vec![Attach, ReadVote, HttpVote, Link, Wait(6), Unlink, Wait(6), Link, Wait(6), Wait(6)],
        // the other voters come and go
        vec![Attach, Link, ReadVote, Wait(6), ReadRescind, HttpVote, Wait(6), ReadVote, Ev(1), Wait(6), HttpRescind, Wait(6), HttpVote, Wait(6)],
    ]
}

pub fn run_leg(ctx: &Ctx) {
    let quick = ctx.quick();
    let t0 = Instant::now();
    let mut cfgs = vec![];
    for s in scripts() {
        for budget in [64usize, 2] {
            for lane_buf in [4096usize, 64] {
                cfgs.push(WCfg { script: s.clone(), budget, lane_buf });
            }
        }
    }
    let name = "wt-votes";
    let bound = if quick { 2 } else { 3 };
    let results: Vec<Option<ExploreStats>> = match vcommon::sched::grid_explore::<WtWorld>(name, &cfgs, bound, if quick { 50_000 } else { 2_000_000 }, if quick { 15.0 } else { 600.0 }) {
        vcommon::sched::GridOutcome::NotMine => return,
        vcommon::sched::GridOutcome::Done(r) => r,
    };
    let mut total = ExploreStats::default();
    let mut skipped = 0;
    for (cfg, r) in cfgs.iter().zip(results) {
        match r {
            None => skipped += 1,
            Some(st) => {
                if !st.machinery_errors.is_empty() {
                    eprintln!("machinery errors: {:?}", &st.machinery_errors[..st.machinery_errors.len().min(3)]);
                    vcommon::machinery_failure("schedule explorer: nondeterminism or crash");
                }
                for (sig, expl, choices) in &st.violations {
                    ctx.violation(name, sig, json!({"cfg": serde_json::to_value(cfg).unwrap(), "choices": choices, "explanation": expl, "what": expl}));
                }
                total.executions += st.executions;
                total.steps += st.steps;
                total.distinct_digests += st.distinct_digests;
                total.nontrivial += st.nontrivial;
                total.capped |= st.capped;
                total.max_len = total.max_len.max(st.max_len);
            }
        }
    }
    ctx.add_leg(Leg {
        name: name.into(),
        engine: "E1-sched".into(),
        states: total.distinct_digests,
        transitions: total.steps,
        evaluations: total.executions,
        distinct_nontrivial: total.nontrivial,
        rule: "all schedules with at most `bound` deviations from the canonical schedule (write task polled to idle between harness steps) of every script; a deviation lets harness steps - including clock advances - happen while the write task has work pending".into(),
        samples: vec![],
        exhaustive: skipped == 0 && !total.capped,
        bounds: json!({"configurations": cfgs.len(), "skipped_by_wall_cap": skipped, "deviation_bound": bound, "longest_execution_steps": total.max_len}),
        wall_s: t0.elapsed().as_secs_f64(),
    });
}

pub fn replay(ctx: &Ctx, r: &serde_json::Value) {
    let d = &r["detail"];
    let cfg: WCfg = serde_json::from_value(d["cfg"].clone()).unwrap_or_else(|e| vcommon::machinery_failure(&format!("bad cfg: {}", e)));
    let choices: Vec<u8> = d["choices"].as_array().map(|a| a.iter().map(|x| x.as_u64().unwrap() as u8).collect()).unwrap_or_default();
    let sig = r["signature"].as_str().unwrap_or("");
    let mut hits = 0;
    for round in 0..2 {
        let rec = vcommon::sched::run_one::<WtWorld>(&cfg, &choices, true).unwrap_or_else(|e| vcommon::machinery_failure(&e));
        if round == 0 {
            println!("schedule: {}", rec.labels.join(" "));
            for l in &rec.outcome.log {
                println!("{}", l);
            }
        }
        if rec.outcome.violations.iter().any(|(s, _)| s == sig) {
            hits += 1;
        }
    }
    if hits == 1 {
        vcommon::machinery_failure("nondeterminism in replay");
    }
    if hits == 2 {
        println!("REPRODUCED: {}", sig);
        ctx.violation(r["leg"].as_str().unwrap_or("replay"), sig, d.clone());
    }
}

#[allow(dead_code)]
fn _unused(_: &dyn Future<Output = ()>, _: &dyn AsyncWrite, _: &dyn AsyncRead) {}

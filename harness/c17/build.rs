//! Engine E3 source binding: the loom leg checks the *actual source text* of
//! runtime/swimos_runtime/src/timeout_coord/mod.rs. Only the `use` lines are redirected
//! (std atomics/Arc -> loom, futures AtomicWaker -> a loom-mutex waker cell); the function bodies
//! are byte-for-byte the repository's. A rewrite that finds no line to rewrite fails the build
//! (machinery failure, never a verdict).
use std::{env, fs, path::PathBuf};

fn main() {
    let manifest = PathBuf::from(env::var("CARGO_MANIFEST_DIR").unwrap());
    let src = manifest.join("../../subject/runtime/swimos_runtime/src/timeout_coord/mod.rs");
    println!("cargo:rerun-if-changed={}", src.display());
    let text = fs::read_to_string(&src).expect("cannot read timeout_coord/mod.rs");
    let mut out = String::new();
    let mut rewrote = 0;
    let mut in_std_use = false;
    for line in text.lines() {
        let t = line.trim();
        if t.starts_with("use std::{") && !t.ends_with("};") {
            in_std_use = true;
            continue;
        }
        if in_std_use {
            if t == "};" {
                in_std_use = false;
                out.push_str(
                    "use std::{cell::Cell, pin::Pin, task::{Context, Poll}};\nuse loom::sync::{atomic::{AtomicU8, Ordering}, Arc};\n",
                );
                rewrote += 1;
            }
            continue;
        }
        if t == "use futures::{task::AtomicWaker, Future};" {
            out.push_str("use std::future::Future;\nuse crate::loom_waker::AtomicWaker;\n");
            rewrote += 1;
            continue;
        }
        if t == "#[cfg(test)]" {
            // drops the `mod tests;` declaration that follows
            continue;
        }
        if t == "mod tests;" {
            rewrote += 1;
            continue;
        }
        if t.starts_with("//") && !t.starts_with("///") {
            continue;
        }
        out.push_str(line);
        out.push('\n');
    }
    assert!(rewrote == 3, "timeout_coord/mod.rs: expected 3 rewritten import sites, found {}", rewrote);
    for needle in ["pub fn vote(&self)", "pub fn rescind(&self)", "impl Drop for Voter", "impl Future for Receiver"] {
        assert!(out.contains(needle), "timeout_coord/mod.rs no longer contains `{}`", needle);
    }
    let dst = PathBuf::from(env::var("OUT_DIR").unwrap()).join("timeout_coord_loom.rs");
    fs::write(dst, out).unwrap();
}

//! Minimal stand-alone reproductions (public API only) of the defects the C10 check reports on the
//! unchanged tree. Run: cargo run --release --offline -p c10 --example repro
use bytes::{BufMut, BytesMut};
use swimos_agent_protocol::encoding::{command::*, downlink::*, lane::*, map::*};
use swimos_agent_protocol::{CommandMessage, DownlinkNotification, LaneRequest, LaneResponse, MapMessage, MapOperation};
use swimos_api::address::{Address, RelativeAddress};
use swimos_encoding::BytesStr;
use swimos_form::read::RecognizerReadable;
use swimos_messages::protocol::*;
use swimos_model::Value;
use swimos_recon::parser::RecognizerDecoder;
use tokio_util::codec::{Decoder, Encoder};
use uuid::Uuid;

fn feed<D: Decoder>(dec: &mut D, chunks: &[&[u8]]) -> Vec<String>
where
    D::Item: std::fmt::Debug,
    D::Error: std::fmt::Debug,
{
    let mut buf = BytesMut::new();
    let mut out = vec![];
    for c in chunks {
        buf.extend_from_slice(c);
        loop {
            match dec.decode(&mut buf) {
                Ok(Some(m)) => out.push(format!("{:?}", m)),
                Ok(None) => {
                    out.push(format!("None(buffered={})", buf.len()));
                    break;
                }
                Err(e) => {
                    out.push(format!("Err({:?})", e));
                    break;
                }
            }
        }
    }
    out
}

fn main() {
    // A. a number split across two reads is decoded from its first part
    let mut d = RecognizerDecoder::new(Value::make_recognizer());
    let mut b = BytesMut::from(&b"1"[..]);
    println!("A0 RecognizerDecoder.decode(\"1\") [more input may follow] -> {:?}", d.decode(&mut b));
    let mut enc = BytesMut::new();
    ValueLaneRequestEncoder::default().encode(LaneRequest::Command(123i32), &mut enc).unwrap();
    let mut dec = ValueLaneRequestDecoder::<i32>::default();
    println!("A1 Command(123) split after the first digit -> {:?}", feed(&mut dec, &[&enc[..10], &enc[10..]]));
    let mut dec = ValueLaneRequestDecoder::<i32>::default();
    println!("A1' same bytes in one read              -> {:?}", feed(&mut dec, &[&enc[..]]));

    // B. typed map message: the tail of a frame shorter than 9 bytes is never decoded
    let mut enc = BytesMut::new();
    MapMessageEncoder::default().encode(MapMessage::Update { key: 1i32, value: 2i32 }, &mut enc).unwrap();
    let mut dec = MapMessageDecoder::<i32, i32>::default();
    println!("B1 Update{{1,2}} split after the header -> {:?}", feed(&mut dec, &[&enc[..17], &enc[17..]]));
    let mut ev = BytesMut::new();
    DownlinkNotificationEncoder.encode(DownlinkNotification::Event { body: &enc[..] }, &mut ev).unwrap();
    let mut dec = MapNotificationDecoder::<i32, i32>::default();
    println!("B2 map downlink event, same split        -> {:?}", feed(&mut dec, &[&ev[..26], &ev[26..]]));

    // C. Register frame split anywhere after the flags byte
    let mut enc = BytesMut::new();
    RawCommandMessageEncoder::default()
        .encode(CommandMessage::<&str, &[u8]>::register(Address::new(None, "/n", "ln"), 7), &mut enc)
        .unwrap();
    let mut dec = RawCommandMessageDecoder::<BytesStr>::default();
    println!("C1 Register split after 5 bytes -> {:?}", feed(&mut dec, &[&enc[..5], &enc[5..]]));
    let mut dec = RawCommandMessageDecoder::<BytesStr>::default();
    println!("C1' in one read                 -> {:?}", feed(&mut dec, &[&enc[..]]));

    // D. typed map operation: invalid key, the value is not skipped
    let mut enc = BytesMut::new();
    RawMapOperationEncoder.encode(MapOperation::Update { key: b")".as_slice(), value: b"7".as_slice() }, &mut enc).unwrap();
    RawMapOperationEncoder.encode(MapOperation::<&[u8], &[u8]>::Clear, &mut enc).unwrap();
    let mut dec = MapOperationDecoder::<i32, i32>::default();
    let mut buf = BytesMut::from(&enc[..]);
    let r1 = dec.decode(&mut buf).map_err(|e| e.to_string());
    let r2 = dec.decode(&mut buf).map_err(|e| e.to_string());
    println!("D1 [Update{{bad key}}, Clear] -> first {:?}; then {:?} (buffered {})", r1, r2, buf.len());

    // G. length + 8 overflows
    let mut b = BytesMut::new();
    b.put_u8(0);
    b.put_u64(u64::MAX);
    let r = std::panic::catch_unwind(move || RawValueLaneRequestDecoder::default().decode(&mut b).map(|_| ()).map_err(|e| e.to_string()));
    println!("G1 Command frame with length u64::MAX -> {:?}", r.map_err(|_| "PANIC"));

    // H. Unlinked(Some(empty)) comes back as Unlinked(None)
    let mut enc = BytesMut::new();
    RawResponseMessageEncoder
        .encode(ResponseMessage::<&str, &[u8], &[u8]>::unlinked(Uuid::nil(), RelativeAddress::new("/n", "l"), Some(b"")), &mut enc)
        .unwrap();
    println!("H1 -> {:?}", RawResponseMessageDecoder.decode(&mut enc).map(|m| m.map(|m| m.envelope)));

    // E. unknown tag is a command
    let mut enc = BytesMut::new();
    RawRequestMessageEncoder.encode(RequestMessage::<&str, &[u8]>::link(Uuid::nil(), RelativeAddress::new("/n", "l")), &mut enc).unwrap();
    enc[24] = 0b1000_0000; // tag LINKED (a response tag) in a request
    println!("E1 -> {:?}", RawRequestMessageDecoder.decode(&mut enc).map(|m| m.map(|m| m.envelope)));
    let _ = LaneResponse::<i32>::Initialized;

    // I. RequestMessageDecoder: a body that is rejected at its end (unterminated string) drops the
    //    buffered bytes of the following frames and leaves the decoder inside the body
    let mut enc = BytesMut::new();
    RawRequestMessageEncoder
        .encode(RequestMessage::<&str, &[u8]>::command(Uuid::nil(), RelativeAddress::new("/n", "l"), b"\"abc"), &mut enc)
        .unwrap();
    RawRequestMessageEncoder.encode(RequestMessage::<&str, &[u8]>::link(Uuid::nil(), RelativeAddress::new("/n", "l")), &mut enc).unwrap();
    let total = enc.len();
    let mut dec = RequestMessageDecoder::new(Value::make_recognizer());
    let r1 = dec.decode(&mut enc).map(|m| m.map(|m| m.envelope)).map_err(|e| e.to_string());
    let left = enc.len();
    let r2 = dec.decode(&mut enc).map(|m| m.map(|m| m.envelope)).map_err(|e| e.to_string());
    println!("I1 [Command(\"abc), Link] {} bytes -> first {:?} (buffer now {} bytes); then {:?}", total, r1, left, r2);

    // F. reserve(length from the wire): aborts the process (memory allocation of 1099511627792 bytes failed)
    let mut b = BytesMut::new();
    b.put_u64(1 << 40);
    let _ = swimos_agent_protocol::encoding::downlink::DownlinkOperationDecoder.decode(&mut b);
    println!("F1 DownlinkOperationDecoder, length 2^40, 8 bytes received: buffer capacity now {}", b.capacity());

}

//! Reference walkers over ONE valid encoded frame: they locate the tag bytes and the length fields
//! (the bytes the corruption leg substitutes). They are plain, non-resumable, bounds-checked
//! readers written from the wire format, independent of the decoders under test. A walker that
//! does not end exactly at the end of the frame returns `None` (the engine reports that as
//! `law=frame_shape`: the encoder produced something that is not the documented layout).

#[derive(Clone, Copy, Debug, PartialEq, Eq)]
pub enum Kind {
    Tag,
    Len,
}

#[derive(Clone, Copy, Debug)]
pub struct Field {
    pub off: usize,
    pub width: usize,
    pub kind: Kind,
    pub name: &'static str,
}

pub struct W<'a> {
    b: &'a [u8],
    off: usize,
    pub fields: Vec<Field>,
}

impl<'a> W<'a> {
    pub fn new(b: &'a [u8]) -> Self {
        W { b, off: 0, fields: vec![] }
    }
    fn take(&mut self, n: usize) -> Option<&'a [u8]> {
        let end = self.off.checked_add(n)?;
        if end > self.b.len() {
            return None;
        }
        let s = &self.b[self.off..end];
        self.off = end;
        Some(s)
    }
    pub fn tag(&mut self, name: &'static str) -> Option<u8> {
        let off = self.off;
        let s = self.take(1)?;
        self.fields.push(Field { off, width: 1, kind: Kind::Tag, name });
        Some(s[0])
    }
    pub fn len64(&mut self, name: &'static str) -> Option<usize> {
        let off = self.off;
        let s = self.take(8)?;
        self.fields.push(Field { off, width: 8, kind: Kind::Len, name });
        usize::try_from(u64::from_be_bytes(s.try_into().ok()?)).ok()
    }
    pub fn len32(&mut self, name: &'static str) -> Option<usize> {
        let off = self.off;
        let s = self.take(4)?;
        self.fields.push(Field { off, width: 4, kind: Kind::Len, name });
        Some(u32::from_be_bytes(s.try_into().ok()?) as usize)
    }
    pub fn skip(&mut self, n: usize) -> Option<()> {
        self.take(n).map(|_| ())
    }
    pub fn finish(self) -> Option<Vec<Field>> {
        if self.off == self.b.len() {
            Some(self.fields)
        } else {
            None
        }
    }
}

pub type Inner = fn(&mut W) -> Option<()>;

/// `[len:u64][body]`
pub fn with_len(w: &mut W) -> Option<()> {
    let n = w.len64("body_len")?;
    w.skip(n)
}

/// `[total_len:u64][tag:u8]` then `Update: [key_len:u64][key][value]`, `Remove: [key]`, `Clear`,
/// `Take|Drop: [n:u64]`.
pub fn map_frame(w: &mut W) -> Option<()> {
    let total = w.len64("total_len")?;
    let tag = w.tag("map_tag")?;
    match tag {
        0 => {
            let _k = w.len64("key_len")?;
            w.skip(total.checked_sub(9)?)
        }
        1 => w.skip(total.checked_sub(1)?),
        2 => Some(()),
        3 | 4 => w.skip(8),
        _ => None,
    }
}

fn lane_request(w: &mut W, inner: Inner) -> Option<()> {
    match w.tag("tag")? {
        0 => inner(w),
        1 => w.skip(16),
        4 => Some(()),
        _ => None,
    }
}

fn lane_response(w: &mut W, inner: Inner) -> Option<()> {
    match w.tag("tag")? {
        3 => inner(w),
        5 => Some(()),
        1 => {
            w.skip(16)?;
            inner(w)
        }
        2 => w.skip(16),
        _ => None,
    }
}

fn store_init(w: &mut W, inner: Inner) -> Option<()> {
    match w.tag("tag")? {
        0 => inner(w),
        4 => Some(()),
        _ => None,
    }
}

fn store_response(w: &mut W, inner: Inner) -> Option<()> {
    match w.tag("tag")? {
        3 => inner(w),
        _ => None,
    }
}

fn notification(w: &mut W, map: bool) -> Option<()> {
    match w.tag("tag")? {
        1 | 2 | 4 => Some(()),
        3 => {
            if map {
                let n = w.len64("body_len")?;
                let start = w.off;
                map_frame(w)?;
                if w.off - start == n {
                    Some(())
                } else {
                    None
                }
            } else {
                with_len(w)
            }
        }
        _ => None,
    }
}

fn command(w: &mut W) -> Option<()> {
    let flags = w.tag("flags")?;
    let address = |w: &mut W| -> Option<()> {
        let h = if flags & 0b0100 != 0 { w.len64("host_len")? } else { 0 };
        let n = w.len64("node_len")?;
        let l = w.len64("lane_len")?;
        w.skip(h)?;
        w.skip(n)?;
        w.skip(l)
    };
    if flags & 0b0001 != 0 {
        address(w)?;
        w.skip(2)
    } else if flags & 0b0010 != 0 {
        w.skip(2)?;
        with_len(w)
    } else {
        address(w)?;
        with_len(w)
    }
}

/// `[uuid:16][node_len:u32][lane_len:u32][tag:3 bits | body_len:61 bits][node][lane][body]`
fn routed(w: &mut W) -> Option<()> {
    w.skip(16)?;
    let n = w.len32("node_len")?;
    let l = w.len32("lane_len")?;
    let off = w.off;
    let t = w.tag("tag")?;
    let rest = {
        let s = w.take(7)?;
        w.fields.push(Field { off: off + 1, width: 7, kind: Kind::Len, name: "body_len" });
        let mut x = [0u8; 8];
        x[0] = t & 0x1F;
        x[1..].copy_from_slice(s);
        usize::try_from(u64::from_be_bytes(x)).ok()?
    };
    w.skip(n)?;
    w.skip(l)?;
    w.skip(rest)
}

fn run(b: &[u8], f: impl FnOnce(&mut W) -> Option<()>) -> Option<Vec<Field>> {
    let mut w = W::new(b);
    f(&mut w)?;
    w.finish()
}

pub fn l_with_len(b: &[u8]) -> Option<Vec<Field>> {
    run(b, with_len)
}
pub fn l_map_frame(b: &[u8]) -> Option<Vec<Field>> {
    run(b, map_frame)
}
pub fn l_lane_request_value(b: &[u8]) -> Option<Vec<Field>> {
    run(b, |w| lane_request(w, with_len))
}
pub fn l_lane_request_map(b: &[u8]) -> Option<Vec<Field>> {
    run(b, |w| lane_request(w, map_frame))
}
pub fn l_lane_response_value(b: &[u8]) -> Option<Vec<Field>> {
    run(b, |w| lane_response(w, with_len))
}
pub fn l_lane_response_map(b: &[u8]) -> Option<Vec<Field>> {
    run(b, |w| lane_response(w, map_frame))
}
pub fn l_store_init_value(b: &[u8]) -> Option<Vec<Field>> {
    run(b, |w| store_init(w, with_len))
}
pub fn l_store_init_map(b: &[u8]) -> Option<Vec<Field>> {
    run(b, |w| store_init(w, map_frame))
}
pub fn l_store_response_value(b: &[u8]) -> Option<Vec<Field>> {
    run(b, |w| store_response(w, with_len))
}
pub fn l_store_response_map(b: &[u8]) -> Option<Vec<Field>> {
    run(b, |w| store_response(w, map_frame))
}
pub fn l_store_initialized(b: &[u8]) -> Option<Vec<Field>> {
    run(b, |w| w.tag("tag").map(|_| ()))
}
pub fn l_notification_value(b: &[u8]) -> Option<Vec<Field>> {
    run(b, |w| notification(w, false))
}
pub fn l_notification_map(b: &[u8]) -> Option<Vec<Field>> {
    run(b, |w| notification(w, true))
}
pub fn l_command(b: &[u8]) -> Option<Vec<Field>> {
    run(b, command)
}
pub fn l_routed(b: &[u8]) -> Option<Vec<Field>> {
    run(b, routed)
}

//! C10 - Binary frames decode to what was encoded under any fragmentation.
//!
//! Engine E4 (bounded exhaustive enumeration). For every codec pair of
//! `swimos_agent_protocol::encoding` and `swimos_messages::protocol`:
//!
//! * **fragmentation**: every message variant (payloads from a small boundary pool), every sequence
//!   up to the stated length, encoded by the real encoder into one buffer, decoded by a fresh real
//!   decoder under every chunking with <= 2 cuts (3 in the thorough tier for short streams) and
//!   byte-by-byte, through the `tokio_util` contract (append a chunk, `decode` until `None`, at the
//!   end `decode_eof` until `None`). Oracles: decoded list == encoded list; after frame k exactly
//!   the bytes of frames 0..=k are consumed; a frame is delivered as soon as its last byte is in
//!   the buffer; no error, panic, unbounded stepping or huge allocation.
//! * **truncation**: every proper prefix that ends inside a frame, whole and byte-by-byte, then
//!   `decode_eof`: exactly the complete frames, never a message made from a truncated frame.
//! * **corruption**: every tag byte replaced by all other 255 values, every byte of every length
//!   field by {0, b-1, b+1, 0xFF}; whole and byte-by-byte. Verdict must be: an error; or the same
//!   messages as without the corruption (the field was redundant); or messages that re-encode to
//!   the received bytes (the corrupted stream is itself a valid stream). Anything else is a
//!   silently wrong message. Never a panic, unbounded stepping, or an allocation request > 64 MiB.
//! * **recovery**: one frame with an intact header and a body the (Recon) decoder must reject
//!   among valid frames, all chunkings: exactly one error, then the remaining frames, aligned.

mod alloc;
mod engine;
mod entries;
mod layout;
mod model;

use engine::{replay_entry, run_entry, Acc, Entry, LegAcc, Params, INFLIGHT, TICKS};
use entries::{for_each_entry, Visitor};
use serde_json::{json, Value as J};
use std::fmt::Debug;
use std::sync::atomic::Ordering;
use tokio_util::codec::Decoder;
use vcommon::{Ctx, Leg, Tier};

#[global_allocator]
static GLOBAL: alloc::Guarded = alloc::Guarded;

struct Runner<'a> {
    p: &'a Params,
    acc: Acc,
    only: Option<String>,
    count: usize,
}

impl<'a> Visitor for Runner<'a> {
    fn visit<M, D>(&mut self, e: Entry<M, D>)
    where
        M: Clone + Debug + PartialEq + Send + Sync + 'static,
        D: Decoder,
        D::Error: Debug,
    {
        if let Some(o) = &self.only {
            if !e.name.contains(o.as_str()) {
                return;
            }
        }
        self.count += 1;
        run_entry(&e, self.p, &mut self.acc);
    }
}

struct Replayer<'a> {
    detail: &'a J,
    result: Option<Option<String>>,
}

impl<'a> Visitor for Replayer<'a> {
    fn visit<M, D>(&mut self, e: Entry<M, D>)
    where
        M: Clone + Debug + PartialEq + Send + Sync + 'static,
        D: Decoder,
        D::Error: Debug,
    {
        if self.detail["codec"].as_str() == Some(e.name) {
            self.result = Some(replay_entry(&e, self.detail));
        }
    }
}

fn watchdog(root: std::path::PathBuf) {
    std::thread::spawn(move || {
        let mut last = TICKS.load(Ordering::Relaxed);
        let mut idle = 0u32;
        loop {
            std::thread::sleep(std::time::Duration::from_secs(1));
            let now = TICKS.load(Ordering::Relaxed);
            let busy = !INFLIGHT.lock().map(|g| g.is_empty()).unwrap_or(true);
            if now != last || !busy {
                last = now;
                idle = 0;
                continue;
            }
            idle += 1;
            if idle >= 90 {
                let inflight: Vec<String> = INFLIGHT.lock().map(|g| g.values().cloned().collect()).unwrap_or_default();
                let first = inflight.first().cloned().unwrap_or_default();
                let sig = format!("law=terminates (no case finished for 90 s) {}", first);
                let v = json!({"property": "C10", "leg": "watchdog", "signature": sig,
                    "detail": {"what": "a call into a decoder did not return", "in_flight": inflight}});
                let dir = root.join("replays");
                let _ = std::fs::create_dir_all(&dir);
                let p = dir.join(format!("C10-{:016x}.json", vcommon::fnv(sig.as_bytes())));
                let _ = std::fs::write(&p, serde_json::to_string_pretty(&v).unwrap_or_default());
                eprintln!("violation signature: {}", sig);
                println!("VIOLATION property=C10 replay={}", p.display());
                std::process::exit(1);
            }
        }
    });
}

fn leg(ctx: &Ctx, name: &str, a: &LegAcc, rule: &str, bounds: J) {
    let mut b = bounds;
    b["per_codec"] = J::Array(a.per_codec.clone());
    b["skipped_supersequences_of_failing_streams"] = json!(a.stats.skipped_nonminimal);
    b["streams_not_run_because_of_wall_cap"] = json!(a.stats.capped);
    ctx.add_leg(Leg {
        name: name.into(),
        engine: "E4-enum".into(),
        states: a.stats.streams,
        transitions: a.stats.calls,
        evaluations: a.stats.cases,
        distinct_nontrivial: a.stats.nontrivial,
        rule: rule.into(),
        samples: a.samples.clone(),
        exhaustive: !a.capped,
        bounds: b,
        wall_s: a.wall_s,
    });
}

fn main() {
    std::panic::set_hook(Box::new(|_| {}));
    let ctx = Ctx::from_env("C10");
    let threads = vcommon::ncpu();
    let p = match ctx.tier {
        Tier::Quick => Params {
            tier: "quick",
            seq_narrow: 3,
            seq_wide: 2,
            extra_level: false,
            two_cut_limit: 96,
            three_cut_limit: 0,
            corrupt_seq: 2,
            corrupt_one_cuts: false,
            trunc_seq: 2,
            recover_seq_narrow: 3,
            recover_seq_wide: 2,
            threads,
            cap_s: 240.0,
        },
        Tier::Thorough => Params {
            tier: "thorough",
            seq_narrow: 3,
            seq_wide: 2,
            extra_level: true,
            two_cut_limit: 256,
            three_cut_limit: 80,
            corrupt_seq: 2,
            corrupt_one_cuts: true,
            trunc_seq: 3,
            recover_seq_narrow: 3,
            recover_seq_wide: 2,
            threads,
            cap_s: 1500.0,
        },
    };

    if let Some(r) = ctx.replay_request() {
        let d = r["detail"].clone();
        let sig = r["signature"].as_str().unwrap_or("").to_string();
        crate::model::POOL_MODE.store(d["pool_mode"].as_u64().unwrap_or(0) as u8, std::sync::atomic::Ordering::Relaxed);
        let mut rp = Replayer { detail: &d, result: None };
        for_each_entry(&mut rp);
        match rp.result {
            None => vcommon::machinery_failure("replay: unknown codec in the replay file"),
            Some(None) => {}
            Some(Some(expl)) => {
                let mut dd = d.clone();
                dd["replayed_explanation"] = json!(expl);
                ctx.violation("replay", &sig, dd);
            }
        }
        ctx.finish("model_checking", "replay");
    }

    watchdog(ctx.root.clone());
    let only = std::env::var("C10_ONLY").ok();
    let mut runner = Runner { p: &p, acc: Acc::new(), only, count: 0 };
    for_each_entry(&mut runner);
    let Runner { acc, count, .. } = runner;

    let common = json!({"codec_pairs": count, "tier": p.tier});
    let mut b = common.clone();
    b["sequence_length_narrow_enums"] = json!(p.seq_narrow);
    b["sequence_length_wide_enums"] = json!(p.seq_wide);
    b["one_more_message_with_1cut_and_bytewise_only"] = json!(p.extra_level);
    b["cuts"] = json!(format!(
        "0, every 1-cut, every 2-cut for streams <= {} bytes{}, byte-by-byte",
        p.two_cut_limit,
        if p.three_cut_limit > 0 { format!(", every 3-cut for streams <= {} bytes", p.three_cut_limit) } else { String::new() }
    ));
    b["streams_with_all_2cuts"] = json!(acc.frag.stats.two_cut_streams);
    leg(
        &ctx,
        "fragmentation",
        &acc.frag,
        "case = (message sequence, chunking); non-trivial = the decoder returned None while part of a frame was pending (a resume path ran)",
        b,
    );
    let mut b = common.clone();
    b["sequence_length"] = json!(p.trunc_seq);
    b["feeds"] = json!("whole prefix and byte-by-byte, then decode_eof");
    leg(
        &ctx,
        "truncation",
        &acc.trunc,
        "case = (message sequence, prefix ending inside the last frame, feed); non-trivial = at least 2 bytes of the truncated frame present",
        b,
    );
    let mut b = common.clone();
    b["sequence_length"] = json!(p.corrupt_seq);
    b["substitutions"] = json!("tag bytes: all 255 other values; each byte of each length field: {0, b-1, b+1, 0xFF}");
    b["feeds"] = json!(if p.corrupt_one_cuts { "whole stream, byte-by-byte, and (single messages) every 1-cut; then decode_eof" } else { "whole stream and byte-by-byte, then decode_eof" });
    b["corrupted_field_without_effect_same_messages_delivered"] = json!(acc.corrupt.stats.ignored);
    b["corrupted_stream_is_a_valid_other_stream"] = json!(acc.corrupt.stats.faithful);
    leg(
        &ctx,
        "corruption",
        &acc.corrupt,
        "case = (message sequence, byte position, substituted value, feed); non-trivial = the decoder answered with an error",
        b,
    );
    let mut b = common.clone();
    b["sequence_length_narrow_enums"] = json!(p.recover_seq_narrow);
    b["sequence_length_wide_enums"] = json!(p.recover_seq_wide);
    b["cuts"] = json!(format!("0, every 1-cut, every 2-cut for streams <= {} bytes, byte-by-byte", p.two_cut_limit));
    leg(
        &ctx,
        "recovery",
        &acc.recover,
        "case = (sequence with exactly one frame whose Recon body is invalid, chunking); non-trivial = a resume path ran",
        b,
    );

    for (sig, (legname, detail)) in acc.violations {
        ctx.violation(&legname, &sig, detail);
    }
    // ---- a second, smaller pass over every codec with payloads made of multi-byte characters:
    // a read boundary may fall inside a character
    crate::model::POOL_MODE.store(1, std::sync::atomic::Ordering::Relaxed);
    let p2 = Params { tier: p.tier, seq_narrow: 2, seq_wide: 1, extra_level: false, two_cut_limit: if ctx.quick() { 64 } else { 160 }, three_cut_limit: 0, corrupt_seq: 0, corrupt_one_cuts: false, trunc_seq: 0, recover_seq_narrow: 0, recover_seq_wide: 0, threads, cap_s: if ctx.quick() { 60.0 } else { 600.0 } };
    let only2 = std::env::var("C10_ONLY").ok();
    let mut runner2 = Runner { p: &p2, acc: Acc::new(), only: only2, count: 0 };
    for_each_entry(&mut runner2);
    let Runner { acc: acc2, count: count2, .. } = runner2;
    let mut b = json!({"codec_pairs": count2, "tier": p2.tier, "payloads": "Recon texts with blanks made of 2, 3 and 4 byte UTF-8 characters (and the same bytes raw)"});
    b["sequence_length_narrow_enums"] = json!(p2.seq_narrow);
    b["sequence_length_wide_enums"] = json!(p2.seq_wide);
    b["cuts"] = json!(format!("0, every 1-cut, every 2-cut for streams <= {} bytes, byte-by-byte", p2.two_cut_limit));
    leg(&ctx, "fragmentation_utf8", &acc2.frag, "case = (message sequence, chunking); non-trivial = the decoder returned None while part of a frame was pending", b);
    for (sig, (_legname, detail)) in acc2.violations {
        ctx.violation("fragmentation_utf8", &format!("{} pool=utf8", sig), detail);
    }
    crate::model::POOL_MODE.store(0, std::sync::atomic::Ordering::Relaxed);
    ctx.assume("payload pool: Recon {empty, 1 byte, 3 bytes with valid prefixes, quoted text with escapes}; raw {empty, a byte equal to a tag, 3 non-UTF-8 bytes, the quoted text}; uuids {0, MAX}; other payloads are not enumerated");
    ctx.assume("typed decoders are instantiated at swimos_model::Value (key and value); other Recognizer types are not enumerated");
    ctx.assume("corruption is a single substituted byte in a tag or length field; multi-byte corruption is not enumerated");
    ctx.assume("a corrupted field that leaves the delivered messages unchanged is not counted as a violation (the property excludes silently WRONG messages)");
    ctx.finish(
        "model_checking",
        "bounded-exhaustive enumeration of message sequences x chunkings x single-byte header corruptions, on the real tokio_util Encoder/Decoder implementations",
    );
}

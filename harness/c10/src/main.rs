fn main() {
    vcommon::machinery_failure("C10: engine not built yet");
}

//! The codec pairs under test: every encoder / decoder exported from
//! `swimos_agent_protocol::encoding` and `swimos_messages::protocol`, paired the way the runtime
//! and the agents pair them (raw <-> raw, typed <-> typed, and the two crossings: the runtime
//! writes raw bytes that an agent reads typed, an agent writes typed values that the runtime
//! reads raw).

use crate::engine::{Entry, SeqEncoder};
use crate::layout::*;
use crate::model::*;
use bytes::{Bytes, BytesMut};
use std::fmt::Debug;
use swimos_agent_protocol::encoding::{command::*, downlink::*, lane::*, map::*, store::*};
use swimos_agent_protocol::{
    CommandMessage, DownlinkNotification, DownlinkOperation, LaneRequest, LaneResponse, MapMessage, MapOperation,
    StoreInitMessage, StoreInitialized, StoreResponse,
};
use swimos_encoding::{BytesStr, WithLengthBytesCodec};
use swimos_form::read::RecognizerReadable;
use swimos_messages::protocol::{
    RawRequestMessageDecoder, RawRequestMessageEncoder, RawResponseMessageDecoder, RawResponseMessageEncoder,
    RequestMessage, RequestMessageDecoder, ResponseMessage, ResponseMessageEncoder,
};
use swimos_model::{Text, Value};
use tokio_util::codec::{Decoder, Encoder};

pub trait Visitor {
    fn visit<M, D>(&mut self, e: Entry<M, D>)
    where
        M: Clone + Debug + PartialEq + Send + Sync + 'static,
        D: Decoder,
        D::Error: Debug;
}

fn enc<M, X, E>(mk: fn() -> E, conv: fn(&M) -> X) -> SeqEncoder<M>
where
    E: Encoder<X> + 'static,
    E::Error: Debug,
    M: 'static,
    X: 'static,
{
    Box::new(move |msgs: &[M]| {
        let mut e = mk();
        let mut dst = BytesMut::new();
        let mut bounds = vec![0usize];
        for m in msgs {
            e.encode(conv(m), &mut dst).expect("encoder returned an error");
            bounds.push(dst.len());
        }
        (dst.to_vec(), bounds)
    })
}

type VRec = <Value as RecognizerReadable>::Rec;

fn pv(p: &P) -> Value {
    p.val()
}
fn pfv(v: &Value) -> P {
    P::from_value(v.clone())
}
fn pfb(b: &BytesMut) -> P {
    P::from_bytes(b.as_ref())
}
fn s_clone(s: &String) -> String {
    s.clone()
}
fn bs(s: &BytesStr) -> String {
    s.as_str().to_string()
}
fn tx(s: &Text) -> String {
    s.as_str().to_string()
}

// map-message body of a map downlink event: the runtime writes it with the raw map message encoder
fn mm_body(m: &MM) -> Vec<u8> {
    let mut b = BytesMut::new();
    RawMapMessageEncoder::default().encode(m.clone(), &mut b).expect("raw map message encoder");
    b.to_vec()
}

pub fn for_each_entry(v: &mut impl Visitor) {
    let tp = typed_payloads();
    let rp = raw_payloads();
    let bad = bad_payloads();
    let good = tp[1].clone();

    // ------------------------------------------------------------------ value lanes: requests
    type LRv = LaneRequest<P>;
    let lrv_var: fn(&LRv) -> V2 = |m| lreq_variant(m, p_variant);
    let lrv_raw_enc = || enc(RawValueLaneRequestEncoder::default, |m: &LRv| m.clone());
    let lrv_typed_enc = || enc(ValueLaneRequestEncoder::default, |m: &LRv| lreq_map(m, pv));
    let lrv_raw_conv: fn(LaneRequest<BytesMut>) -> LRv = |i| lreq_map(&i, pfb);
    let lrv_typed_conv: fn(LaneRequest<Value>) -> LRv = |i| lreq_map(&i, pfv);
    let lrv_bad: Vec<LRv> = bad.iter().map(|b| LaneRequest::Command(b.clone())).collect();
    v.visit(Entry {
        name: "lane.value_request.raw",
        wide: false,
        pool: lane_request_pool(&rp),
        bad: vec![],
        encode: lrv_raw_enc(),
        reencode: lrv_raw_enc(),
        new_dec: RawValueLaneRequestDecoder::default,
        convert: lrv_raw_conv,
        variant: lrv_var,
        layout: l_lane_request_value,
    });
    v.visit(Entry {
        name: "lane.value_request.typed",
        wide: false,
        pool: lane_request_pool(&tp),
        bad: vec![],
        encode: lrv_typed_enc(),
        reencode: lrv_typed_enc(),
        new_dec: ValueLaneRequestDecoder::<Value>::default,
        convert: lrv_typed_conv,
        variant: lrv_var,
        layout: l_lane_request_value,
    });
    v.visit(Entry {
        name: "lane.value_request.raw->typed",
        wide: false,
        pool: lane_request_pool(&tp),
        bad: lrv_bad.clone(),
        encode: lrv_raw_enc(),
        reencode: lrv_raw_enc(),
        new_dec: ValueLaneRequestDecoder::<Value>::default,
        convert: lrv_typed_conv,
        variant: lrv_var,
        layout: l_lane_request_value,
    });
    v.visit(Entry {
        name: "lane.value_request.typed->raw",
        wide: false,
        pool: lane_request_pool(&tp),
        bad: vec![],
        encode: lrv_typed_enc(),
        reencode: lrv_raw_enc(),
        new_dec: RawValueLaneRequestDecoder::default,
        convert: lrv_raw_conv,
        variant: lrv_var,
        layout: l_lane_request_value,
    });

    // ------------------------------------------------------------------ value lanes: responses
    type LSv = LaneResponse<P>;
    let lsv_var: fn(&LSv) -> V2 = |m| lresp_variant(m, p_variant);
    let lsv_raw_enc = || enc(RawValueLaneResponseEncoder::default, |m: &LSv| m.clone());
    let lsv_typed_enc = || enc(ValueLaneResponseEncoder::default, |m: &LSv| lresp_map(m, pv));
    let lsv_raw_conv: fn(LaneResponse<BytesMut>) -> LSv = |i| lresp_map(&i, pfb);
    let lsv_typed_conv: fn(LaneResponse<Value>) -> LSv = |i| lresp_map(&i, pfv);
    let mut lsv_bad: Vec<LSv> = vec![];
    for b in &bad {
        lsv_bad.push(LaneResponse::StandardEvent(b.clone()));
        lsv_bad.push(LaneResponse::SyncEvent(uuids()[1], b.clone()));
    }
    v.visit(Entry {
        name: "lane.value_response.raw",
        wide: false,
        pool: lane_response_pool(&rp),
        bad: vec![],
        encode: lsv_raw_enc(),
        reencode: lsv_raw_enc(),
        new_dec: RawValueLaneResponseDecoder::default,
        convert: lsv_raw_conv,
        variant: lsv_var,
        layout: l_lane_response_value,
    });
    v.visit(Entry {
        name: "lane.value_response.typed",
        wide: false,
        pool: lane_response_pool(&tp),
        bad: vec![],
        encode: lsv_typed_enc(),
        reencode: lsv_typed_enc(),
        new_dec: ValueLaneResponseDecoder::<Value>::default,
        convert: lsv_typed_conv,
        variant: lsv_var,
        layout: l_lane_response_value,
    });
    v.visit(Entry {
        name: "lane.value_response.raw->typed",
        wide: false,
        pool: lane_response_pool(&tp),
        bad: lsv_bad,
        encode: lsv_raw_enc(),
        reencode: lsv_raw_enc(),
        new_dec: ValueLaneResponseDecoder::<Value>::default,
        convert: lsv_typed_conv,
        variant: lsv_var,
        layout: l_lane_response_value,
    });
    v.visit(Entry {
        name: "lane.value_response.typed->raw",
        wide: false,
        pool: lane_response_pool(&tp),
        bad: vec![],
        encode: lsv_typed_enc(),
        reencode: lsv_raw_enc(),
        new_dec: RawValueLaneResponseDecoder::default,
        convert: lsv_raw_conv,
        variant: lsv_var,
        layout: l_lane_response_value,
    });

    // ------------------------------------------------------------------ map lanes: requests
    type LRm = LaneRequest<MM>;
    let lrm_var: fn(&LRm) -> V2 = |m| lreq_variant(m, mm_variant);
    let lrm_raw_enc = || enc(RawMapLaneRequestEncoder::default, |m: &LRm| m.clone());
    let lrm_typed_enc = || enc(MapLaneRequestEncoder::default, |m: &LRm| lreq_map(m, mm_typed));
    let lrm_raw_conv: fn(LaneRequest<MapMessage<BytesMut, BytesMut>>) -> LRm = |i| lreq_map(&i, |m| mm_from_raw(m.clone()));
    let lrm_typed_conv: fn(LaneRequest<MapMessage<Value, Value>>) -> LRm = |i| lreq_map(&i, |m| mm_from_typed(m.clone()));
    let lrm_bad: Vec<LRm> = bad_map_messages(&good).into_iter().map(LaneRequest::Command).collect();
    v.visit(Entry {
        name: "lane.map_request.raw",
        wide: true,
        pool: lane_request_pool(&map_message_pool(&rp, &rp)),
        bad: vec![],
        encode: lrm_raw_enc(),
        reencode: lrm_raw_enc(),
        new_dec: RawMapLaneRequestDecoder::default,
        convert: lrm_raw_conv,
        variant: lrm_var,
        layout: l_lane_request_map,
    });
    v.visit(Entry {
        name: "lane.map_request.typed",
        wide: true,
        pool: lane_request_pool(&map_message_pool(&tp, &tp)),
        bad: vec![],
        encode: lrm_typed_enc(),
        reencode: lrm_typed_enc(),
        new_dec: MapLaneRequestDecoder::<Value, Value>::default,
        convert: lrm_typed_conv,
        variant: lrm_var,
        layout: l_lane_request_map,
    });
    v.visit(Entry {
        name: "lane.map_request.raw->typed",
        wide: true,
        pool: lane_request_pool(&map_message_pool(&tp, &tp)),
        bad: lrm_bad,
        encode: lrm_raw_enc(),
        reencode: lrm_raw_enc(),
        new_dec: MapLaneRequestDecoder::<Value, Value>::default,
        convert: lrm_typed_conv,
        variant: lrm_var,
        layout: l_lane_request_map,
    });
    v.visit(Entry {
        name: "lane.map_request.typed->raw",
        wide: true,
        pool: lane_request_pool(&map_message_pool(&tp, &tp)),
        bad: vec![],
        encode: lrm_typed_enc(),
        reencode: lrm_raw_enc(),
        new_dec: RawMapLaneRequestDecoder::default,
        convert: lrm_raw_conv,
        variant: lrm_var,
        layout: l_lane_request_map,
    });

    // ------------------------------------------------------------------ map lanes: responses
    type LSm = LaneResponse<MO>;
    let lsm_var: fn(&LSm) -> V2 = |m| lresp_variant(m, mo_variant);
    let lsm_raw_enc = || enc(RawMapLaneResponseEncoder::default, |m: &LSm| m.clone());
    let lsm_typed_enc = || enc(MapLaneResponseEncoder::default, |m: &LSm| lresp_map(m, mo_typed));
    let lsm_raw_conv: fn(LaneResponse<MapOperation<BytesMut, BytesMut>>) -> LSm = |i| lresp_map(&i, |m| mo_from_raw(m.clone()));
    let lsm_typed_conv: fn(LaneResponse<MapOperation<Value, Value>>) -> LSm = |i| lresp_map(&i, |m| mo_from_typed(m.clone()));
    let mut lsm_bad: Vec<LSm> = vec![];
    for b in bad_map_operations(&good) {
        lsm_bad.push(LaneResponse::StandardEvent(b.clone()));
        lsm_bad.push(LaneResponse::SyncEvent(uuids()[1], b));
    }
    v.visit(Entry {
        name: "lane.map_response.raw",
        wide: true,
        pool: lane_response_pool(&map_operation_pool(&rp, &rp)),
        bad: vec![],
        encode: lsm_raw_enc(),
        reencode: lsm_raw_enc(),
        new_dec: RawMapLaneResponseDecoder::default,
        convert: lsm_raw_conv,
        variant: lsm_var,
        layout: l_lane_response_map,
    });
    v.visit(Entry {
        name: "lane.map_response.typed",
        wide: true,
        pool: lane_response_pool(&map_operation_pool(&tp, &tp)),
        bad: vec![],
        encode: lsm_typed_enc(),
        reencode: lsm_typed_enc(),
        new_dec: MapLaneResponseDecoder::<Value, Value>::default,
        convert: lsm_typed_conv,
        variant: lsm_var,
        layout: l_lane_response_map,
    });
    v.visit(Entry {
        name: "lane.map_response.raw->typed",
        wide: true,
        pool: lane_response_pool(&map_operation_pool(&tp, &tp)),
        bad: lsm_bad,
        encode: lsm_raw_enc(),
        reencode: lsm_raw_enc(),
        new_dec: MapLaneResponseDecoder::<Value, Value>::default,
        convert: lsm_typed_conv,
        variant: lsm_var,
        layout: l_lane_response_map,
    });
    v.visit(Entry {
        name: "lane.map_response.typed->raw",
        wide: true,
        pool: lane_response_pool(&map_operation_pool(&tp, &tp)),
        bad: vec![],
        encode: lsm_typed_enc(),
        reencode: lsm_raw_enc(),
        new_dec: RawMapLaneResponseDecoder::default,
        convert: lsm_raw_conv,
        variant: lsm_var,
        layout: l_lane_response_map,
    });

    // ------------------------------------------------------------------ stores
    type SIv = StoreInitMessage<P>;
    let siv_var: fn(&SIv) -> V2 = |m| sinit_variant(m, p_variant);
    let siv_enc = || enc(RawValueStoreInitEncoder::default, |m: &SIv| m.clone());
    v.visit(Entry {
        name: "store.value_init.raw",
        wide: false,
        pool: store_init_pool(&rp),
        bad: vec![],
        encode: siv_enc(),
        reencode: siv_enc(),
        new_dec: RawValueStoreInitDecoder::default,
        convert: |i: StoreInitMessage<BytesMut>| sinit_map(&i, pfb),
        variant: siv_var,
        layout: l_store_init_value,
    });
    v.visit(Entry {
        name: "store.value_init.raw->typed",
        wide: false,
        pool: store_init_pool(&tp),
        bad: bad.iter().map(|b| StoreInitMessage::Command(b.clone())).collect(),
        encode: siv_enc(),
        reencode: siv_enc(),
        new_dec: ValueStoreInitDecoder::<Value>::default,
        convert: |i: StoreInitMessage<Value>| sinit_map(&i, pfv),
        variant: siv_var,
        layout: l_store_init_value,
    });
    type SIm = StoreInitMessage<MM>;
    let sim_var: fn(&SIm) -> V2 = |m| sinit_variant(m, mm_variant);
    let sim_enc = || enc(RawMapStoreInitEncoder::default, |m: &SIm| m.clone());
    v.visit(Entry {
        name: "store.map_init.raw",
        wide: true,
        pool: store_init_pool(&map_message_pool(&rp, &rp)),
        bad: vec![],
        encode: sim_enc(),
        reencode: sim_enc(),
        new_dec: RawMapStoreInitDecoder::default,
        convert: |i: StoreInitMessage<MapMessage<BytesMut, BytesMut>>| sinit_map(&i, |m| mm_from_raw(m.clone())),
        variant: sim_var,
        layout: l_store_init_map,
    });
    v.visit(Entry {
        name: "store.map_init.raw->typed",
        wide: true,
        pool: store_init_pool(&map_message_pool(&tp, &tp)),
        bad: bad_map_messages(&good).into_iter().map(StoreInitMessage::Command).collect(),
        encode: sim_enc(),
        reencode: sim_enc(),
        new_dec: MapStoreInitDecoder::<Value, Value>::default,
        convert: |i: StoreInitMessage<MapMessage<Value, Value>>| sinit_map(&i, |m| mm_from_typed(m.clone())),
        variant: sim_var,
        layout: l_store_init_map,
    });
    type SRv = StoreResponse<P>;
    v.visit(Entry {
        name: "store.value_response.typed->raw",
        wide: false,
        pool: tp.iter().map(|p| StoreResponse::new(p.clone())).collect::<Vec<SRv>>(),
        bad: vec![],
        encode: enc(ValueStoreResponseEncoder::default, |m: &SRv| sresp_map(m, pv)),
        // a store response frame is a lane `StandardEvent` frame; no raw store response encoder is exported
        reencode: enc(RawValueLaneResponseEncoder::default, |m: &SRv| LaneResponse::StandardEvent(m.message.clone())),
        new_dec: RawValueStoreResponseDecoder::default,
        convert: |i: StoreResponse<BytesMut>| sresp_map(&i, pfb),
        variant: |m: &SRv| sresp_variant(m, p_variant),
        layout: l_store_response_value,
    });
    type SRm = StoreResponse<MO>;
    v.visit(Entry {
        name: "store.map_response.typed->raw",
        wide: false,
        pool: map_operation_pool(&tp, &tp).into_iter().map(StoreResponse::new).collect::<Vec<SRm>>(),
        bad: vec![],
        encode: enc(MapStoreResponseEncoder::default, |m: &SRm| sresp_map(m, mo_typed)),
        reencode: enc(RawMapLaneResponseEncoder::default, |m: &SRm| LaneResponse::StandardEvent(m.message.clone())),
        new_dec: RawMapStoreResponseDecoder::default,
        convert: |i: StoreResponse<MapOperation<BytesMut, BytesMut>>| sresp_map(&i, |m| mo_from_raw(m.clone())),
        variant: |m: &SRm| sresp_variant(m, mo_variant),
        layout: l_store_response_map,
    });
    v.visit(Entry {
        name: "store.initialized",
        wide: false,
        pool: store_initialized_pool(),
        bad: vec![],
        encode: enc(StoreInitializedCodec::default, |m: &StoreInitialized| *m),
        reencode: enc(StoreInitializedCodec::default, |m: &StoreInitialized| *m),
        new_dec: StoreInitializedCodec::default,
        convert: |i: StoreInitialized| i,
        variant: |_m: &StoreInitialized| ("StoreInitialized".to_string(), String::new()),
        layout: l_store_initialized,
    });

    // ------------------------------------------------------------------ downlinks
    type DNv = DownlinkNotification<P>;
    let dnv_enc = || enc(DownlinkNotificationEncoder::default, |m: &DNv| m.clone());
    v.visit(Entry {
        name: "downlink.value_notification",
        wide: false,
        pool: notification_pool(&tp),
        bad: bad.iter().map(|b| DownlinkNotification::Event { body: b.clone() }).collect(),
        encode: dnv_enc(),
        reencode: dnv_enc(),
        new_dec: ValueNotificationDecoder::<Value>::default,
        convert: |i: DownlinkNotification<Value>| notif_map(&i, pfv),
        variant: |m: &DNv| notif_variant(m, p_variant),
        layout: l_notification_value,
    });
    type DNm = DownlinkNotification<MM>;
    let dnm_enc = || enc(DownlinkNotificationEncoder::default, |m: &DNm| notif_map(m, mm_body));
    v.visit(Entry {
        name: "downlink.map_notification",
        wide: true,
        pool: notification_pool(&map_message_pool(&tp, &tp)),
        bad: bad_map_messages(&good).into_iter().map(|b| DownlinkNotification::Event { body: b }).collect(),
        encode: dnm_enc(),
        reencode: dnm_enc(),
        new_dec: MapNotificationDecoder::<Value, Value>::default,
        convert: |i: DownlinkNotification<MapMessage<Value, Value>>| notif_map(&i, |m| mm_from_typed(m.clone())),
        variant: |m: &DNm| notif_variant(m, mm_variant),
        layout: l_notification_map,
    });
    v.visit(Entry {
        name: "downlink.operation.typed->raw",
        wide: false,
        pool: tp.iter().map(|p| DlOp(p.clone())).collect::<Vec<DlOp>>(),
        bad: vec![],
        encode: enc(DownlinkOperationEncoder::default, dlop_item),
        reencode: enc(WithLengthBytesCodec::default, |m: &DlOp| m.0.clone()),
        new_dec: DownlinkOperationDecoder::default,
        convert: |i: DownlinkOperation<Bytes>| DlOp(P::from_bytes(i.body.as_ref())),
        variant: |m: &DlOp| ("DownlinkOperation".to_string(), m.0.show()),
        layout: l_with_len,
    });

    // ------------------------------------------------------------------ map messages / operations
    let mm_raw_enc = || enc(RawMapMessageEncoder::default, |m: &MM| m.clone());
    let mm_typed_enc = || enc(MapMessageEncoder::default, mm_typed);
    v.visit(Entry {
        name: "map.message.raw",
        wide: true,
        pool: map_message_pool(&rp, &rp),
        bad: vec![],
        encode: mm_raw_enc(),
        reencode: mm_raw_enc(),
        new_dec: RawMapMessageDecoder::default,
        convert: mm_from_raw,
        variant: mm_variant,
        layout: l_map_frame,
    });
    v.visit(Entry {
        name: "map.message.typed",
        wide: true,
        pool: map_message_pool(&tp, &tp),
        bad: vec![],
        encode: mm_typed_enc(),
        reencode: mm_typed_enc(),
        new_dec: MapMessageDecoder::<Value, Value>::default,
        convert: mm_from_typed,
        variant: mm_variant,
        layout: l_map_frame,
    });
    v.visit(Entry {
        name: "map.message.raw->typed",
        wide: true,
        pool: map_message_pool(&tp, &tp),
        bad: bad_map_messages(&good),
        encode: mm_raw_enc(),
        reencode: mm_raw_enc(),
        new_dec: MapMessageDecoder::<Value, Value>::default,
        convert: mm_from_typed,
        variant: mm_variant,
        layout: l_map_frame,
    });
    v.visit(Entry {
        name: "map.message.typed->raw",
        wide: true,
        pool: map_message_pool(&tp, &tp),
        bad: vec![],
        encode: mm_typed_enc(),
        reencode: mm_raw_enc(),
        new_dec: RawMapMessageDecoder::default,
        convert: mm_from_raw,
        variant: mm_variant,
        layout: l_map_frame,
    });
    let mo_raw_enc = || enc(RawMapOperationEncoder::default, |m: &MO| m.clone());
    let mo_typed_enc = || enc(MapOperationEncoder::default, mo_typed);
    v.visit(Entry {
        name: "map.operation.raw",
        wide: false,
        pool: map_operation_pool(&rp, &rp),
        bad: vec![],
        encode: mo_raw_enc(),
        reencode: mo_raw_enc(),
        new_dec: RawMapOperationDecoder::default,
        convert: mo_from_raw,
        variant: mo_variant,
        layout: l_map_frame,
    });
    v.visit(Entry {
        name: "map.operation.typed",
        wide: false,
        pool: map_operation_pool(&tp, &tp),
        bad: vec![],
        encode: mo_typed_enc(),
        reencode: mo_typed_enc(),
        new_dec: MapOperationDecoder::<Value, Value>::default,
        convert: mo_from_typed,
        variant: mo_variant,
        layout: l_map_frame,
    });
    v.visit(Entry {
        name: "map.operation.raw->typed",
        wide: false,
        pool: map_operation_pool(&tp, &tp),
        bad: bad_map_operations(&good),
        encode: mo_raw_enc(),
        reencode: mo_raw_enc(),
        new_dec: MapOperationDecoder::<Value, Value>::default,
        convert: mo_from_typed,
        variant: mo_variant,
        layout: l_map_frame,
    });
    v.visit(Entry {
        name: "map.operation.typed->raw",
        wide: false,
        pool: map_operation_pool(&tp, &tp),
        bad: vec![],
        encode: mo_typed_enc(),
        reencode: mo_raw_enc(),
        new_dec: RawMapOperationDecoder::default,
        convert: mo_from_raw,
        variant: mo_variant,
        layout: l_map_frame,
    });

    // ------------------------------------------------------------------ ad hoc commands
    let cm_raw_enc = || enc(RawCommandMessageEncoder::default, |m: &CM| m.clone());
    let cm_typed_enc = || enc(CommandMessageEncoder::default, |m: &CM| cm_map(m, s_clone, pv));
    let cm_raw_conv: fn(CommandMessage<BytesStr, BytesMut>) -> CM = |i| cm_map(&i, bs, pfb);
    let cm_typed_conv: fn(CommandMessage<Text, Value>) -> CM = |i| cm_map(&i, tx, pfv);
    v.visit(Entry {
        name: "command.raw",
        wide: true,
        pool: command_pool(&rp),
        bad: vec![],
        encode: cm_raw_enc(),
        reencode: cm_raw_enc(),
        new_dec: RawCommandMessageDecoder::<BytesStr>::default,
        convert: cm_raw_conv,
        variant: cm_variant,
        layout: l_command,
    });
    v.visit(Entry {
        name: "command.typed",
        wide: true,
        pool: command_pool(&tp),
        bad: vec![],
        encode: cm_typed_enc(),
        reencode: cm_typed_enc(),
        new_dec: CommandMessageDecoder::<Text, Value>::default,
        convert: cm_typed_conv,
        variant: cm_variant,
        layout: l_command,
    });
    v.visit(Entry {
        name: "command.raw->typed",
        wide: true,
        pool: command_pool(&tp),
        bad: bad_command_pool(),
        encode: cm_raw_enc(),
        reencode: cm_raw_enc(),
        new_dec: CommandMessageDecoder::<Text, Value>::default,
        convert: cm_typed_conv,
        variant: cm_variant,
        layout: l_command,
    });
    v.visit(Entry {
        name: "command.typed->raw",
        wide: true,
        pool: command_pool(&tp),
        bad: vec![],
        encode: cm_typed_enc(),
        reencode: cm_raw_enc(),
        new_dec: RawCommandMessageDecoder::<BytesStr>::default,
        convert: cm_raw_conv,
        variant: cm_variant,
        layout: l_command,
    });

    // ------------------------------------------------------------------ routed requests / responses
    let rq_enc = || enc(|| RawRequestMessageEncoder, |m: &RQ| m.clone());
    v.visit(Entry {
        name: "routed.request.raw",
        wide: true,
        pool: request_pool(&rp),
        bad: vec![],
        encode: rq_enc(),
        reencode: rq_enc(),
        new_dec: RawRequestMessageDecoder::default,
        convert: |i: RequestMessage<BytesStr, Bytes>| rq_map(&i, bs, |b| P::from_bytes(b.as_ref())),
        variant: rq_variant,
        layout: l_routed,
    });
    v.visit(Entry {
        name: "routed.request.raw->typed",
        wide: true,
        pool: request_pool(&tp),
        bad: bad_request_pool(),
        encode: rq_enc(),
        reencode: rq_enc(),
        new_dec: || RequestMessageDecoder::<Value, VRec>::new(Value::make_recognizer()),
        convert: |i: RequestMessage<Text, Value>| rq_map(&i, tx, pfv),
        variant: rq_variant,
        layout: l_routed,
    });
    let rs_raw_enc = || enc(|| RawResponseMessageEncoder, |m: &RS| m.clone());
    let rs_conv: fn(ResponseMessage<BytesStr, Bytes, Bytes>) -> RS =
        |i| rs_map(&i, bs, |b| P::from_bytes(b.as_ref()), |b| P::from_bytes(b.as_ref()));
    v.visit(Entry {
        name: "routed.response.raw",
        wide: true,
        pool: response_pool(&rp, &rp),
        bad: vec![],
        encode: rs_raw_enc(),
        reencode: rs_raw_enc(),
        new_dec: RawResponseMessageDecoder::default,
        convert: rs_conv,
        variant: rs_variant,
        layout: l_routed,
    });
    v.visit(Entry {
        name: "routed.response.typed->raw",
        wide: true,
        pool: response_pool(&tp, &rp),
        bad: vec![],
        encode: enc(|| ResponseMessageEncoder, |m: &RS| rs_map(m, s_clone, pv, |u: &P| u.clone())),
        reencode: rs_raw_enc(),
        new_dec: RawResponseMessageDecoder::default,
        convert: rs_conv,
        variant: rs_variant,
        layout: l_routed,
    });
}

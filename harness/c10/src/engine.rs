//! The generic engine: drives a real `tokio_util::codec::Decoder` through the `Decoder` contract
//! (append a chunk, call `decode` until `None`, at the end `decode_eof` until `None`) and judges
//! the trace with the oracles of the four legs.

use crate::alloc::take_huge;
use crate::layout::{Field, Kind};
use bytes::BytesMut;
use serde_json::{json, Value as J};
use std::collections::BTreeMap;
use std::fmt::Debug;
use std::panic::{catch_unwind, AssertUnwindSafe};
use std::sync::atomic::{AtomicU64, Ordering};
use std::sync::Mutex;
use std::time::Instant;
use tokio_util::codec::Decoder;
use vcommon::cuts::{chunkings, split};

pub type SeqEncoder<M> = Box<dyn Fn(&[M]) -> (Vec<u8>, Vec<usize>) + Send + Sync>;

/// One codec pair under test.
pub struct Entry<M, D: Decoder> {
    pub name: &'static str,
    /// Wide message enums get the shorter sequence bound.
    pub wide: bool,
    pub pool: Vec<M>,
    /// Messages whose body the decoder must reject (recovery leg).
    pub bad: Vec<M>,
    /// The encoder under test (one encoder instance, one buffer, returns frame boundaries).
    pub encode: SeqEncoder<M>,
    /// Encoder able to print what the decoder produced (used by the corruption oracle).
    pub reencode: SeqEncoder<M>,
    pub new_dec: fn() -> D,
    pub convert: fn(D::Item) -> M,
    /// (constructor kind, payload description)
    pub variant: fn(&M) -> (String, String),
    pub layout: fn(&[u8]) -> Option<Vec<Field>>,
}

#[derive(Clone, Debug)]
pub struct Params {
    pub tier: &'static str,
    pub seq_narrow: usize,
    pub seq_wide: usize,
    /// extra level explored with 1-cuts and byte-by-byte only
    pub extra_level: bool,
    pub two_cut_limit: usize,
    /// every 3-cut for streams up to this length (0 = none)
    pub three_cut_limit: usize,
    pub corrupt_seq: usize,
    /// corrupted single messages are also fed under every 1-cut
    pub corrupt_one_cuts: bool,
    pub trunc_seq: usize,
    pub recover_seq_narrow: usize,
    pub recover_seq_wide: usize,
    pub threads: usize,
    pub cap_s: f64,
}

// ------------------------------------------------------------------------------------- tracing

#[derive(Debug, Clone)]
pub enum Ev<M> {
    Frame { msg: M, consumed: usize, eof: bool },
    None { consumed: usize, fed: usize },
    Err { text: String, eof: bool },
}

#[derive(Debug, Clone, PartialEq)]
pub enum End {
    Clean,
    Error,
    Panic(String),
    Huge(usize),
    Steps,
}

pub struct Trace<M> {
    pub evs: Vec<Ev<M>>,
    pub end: End,
    pub calls: u64,
}

fn panic_text(p: Box<dyn std::any::Any + Send>) -> String {
    if let Some(s) = p.downcast_ref::<&str>() {
        s.to_string()
    } else if let Some(s) = p.downcast_ref::<String>() {
        s.clone()
    } else {
        "<non-string panic>".to_string()
    }
}

/// Normalise a message for use inside a signature (numbers vary with the input).
pub fn norm(s: &str) -> String {
    let mut out = String::new();
    let mut last_hash = false;
    for c in s.chars().take(90) {
        if c.is_ascii_digit() {
            if !last_hash {
                out.push('#');
            }
            last_hash = true;
        } else {
            last_hash = false;
            out.push(if c == '\n' { ' ' } else { c });
        }
    }
    out
}

pub fn drive<M, D>(dec: &mut D, convert: fn(D::Item) -> M, data: &[u8], cuts: &[usize], max_errs: usize) -> Trace<M>
where
    D: Decoder,
    D::Error: Debug,
{
    let mut buf = BytesMut::new();
    let mut fed = 0usize;
    let mut evs = Vec::with_capacity(cuts.len() + 6);
    let mut calls = 0u64;
    let mut errs = 0usize;
    let max_calls = (data.len() as u64 + 8) * 4;
    take_huge();
    for chunk in split(data, cuts) {
        buf.extend_from_slice(chunk);
        fed += chunk.len();
        loop {
            calls += 1;
            if calls > max_calls {
                return Trace { evs, end: End::Steps, calls };
            }
            let r = catch_unwind(AssertUnwindSafe(|| dec.decode(&mut buf)));
            let h = take_huge();
            if h > 0 {
                return Trace { evs, end: End::Huge(h), calls };
            }
            match r {
                Err(p) => return Trace { evs, end: End::Panic(panic_text(p)), calls },
                Ok(Ok(Some(item))) => {
                    let consumed = fed.wrapping_sub(buf.len());
                    evs.push(Ev::Frame { msg: convert(item), consumed, eof: false });
                }
                Ok(Ok(None)) => {
                    evs.push(Ev::None { consumed: fed.wrapping_sub(buf.len()), fed });
                    break;
                }
                Ok(Err(e)) => {
                    errs += 1;
                    evs.push(Ev::Err { text: format!("{:?}", e), eof: false });
                    if errs >= max_errs {
                        return Trace { evs, end: End::Error, calls };
                    }
                }
            }
        }
    }
    loop {
        calls += 1;
        if calls > max_calls {
            return Trace { evs, end: End::Steps, calls };
        }
        let r = catch_unwind(AssertUnwindSafe(|| dec.decode_eof(&mut buf)));
        let h = take_huge();
        if h > 0 {
            std::mem::forget(r);
            return Trace { evs, end: End::Huge(h), calls };
        }
        match r {
            Err(p) => return Trace { evs, end: End::Panic(panic_text(p)), calls },
            Ok(Ok(Some(item))) => {
                let consumed = fed.wrapping_sub(buf.len());
                evs.push(Ev::Frame { msg: convert(item), consumed, eof: true });
            }
            Ok(Ok(None)) => return Trace { evs, end: End::Clean, calls },
            Ok(Err(e)) => {
                errs += 1;
                evs.push(Ev::Err { text: format!("{:?}", e), eof: true });
                if errs >= max_errs {
                    return Trace { evs, end: End::Error, calls };
                }
            }
        }
    }
}

// ------------------------------------------------------------------------------------- oracles

#[derive(Debug, Clone)]
pub struct Fail {
    pub law: String,
    /// index of the frame the failure is attributed to
    pub frame: usize,
    pub text: String,
}

fn fail(law: &str, frame: usize, text: String) -> Option<Fail> {
    Some(Fail { law: law.to_string(), frame, text })
}

fn end_fail(end: &End, frame: usize) -> Option<Fail> {
    match end {
        End::Panic(m) if m.contains("capacity overflow") => {
            fail("bounded_allocation", frame, format!("reserve request beyond isize::MAX (panic: {})", m))
        }
        End::Panic(m) => fail(&format!("no_panic({})", norm(m)), frame, format!("panic: {}", m)),
        End::Huge(n) => fail("bounded_allocation", frame, format!("single allocation request of {} bytes", n)),
        End::Steps => fail("terminates", frame, "decode kept returning frames/errors without end (step bound hit)".into()),
        _ => None,
    }
}

/// Did the decoder return `None` while a partial frame was pending (a resume path was exercised)?
pub fn resumed<M>(t: &Trace<M>) -> bool {
    let mut last_end = 0usize;
    for ev in &t.evs {
        match ev {
            Ev::Frame { consumed, .. } => last_end = *consumed,
            Ev::None { fed, .. } => {
                if *fed > last_end {
                    return true;
                }
            }
            _ => {}
        }
    }
    false
}

/// Fragmentation oracle on a valid stream.
pub fn judge_frag<M: PartialEq + Debug>(t: &Trace<M>, msgs: &[M], bounds: &[usize]) -> Option<Fail> {
    let n = msgs.len();
    let mut k = 0usize;
    for ev in &t.evs {
        match ev {
            Ev::Frame { msg, consumed, eof } => {
                if k >= n {
                    return fail("extra_frame", n - 1, format!("decoder produced an additional frame {:?}", msg));
                }
                if *eof {
                    return fail(
                        "prompt_delivery",
                        k,
                        "all bytes of the frame were in the buffer but decode returned None; the frame came out of decode_eof only".into(),
                    );
                }
                if *msg != msgs[k] {
                    return fail("roundtrip", k, format!("decoded {:?}, encoded {:?}", msg, msgs[k]));
                }
                if *consumed > bounds[k + 1] {
                    return fail(
                        "no_overconsumption",
                        k,
                        format!("after frame {} the decoder had consumed {} bytes, the frame ends at {}", k, consumed, bounds[k + 1]),
                    );
                }
                if *consumed < bounds[k + 1] {
                    return fail(
                        "frame_fully_consumed",
                        k,
                        format!("after frame {} the decoder had consumed {} bytes, the frame ends at {}", k, consumed, bounds[k + 1]),
                    );
                }
                k += 1;
            }
            Ev::None { consumed, fed } => {
                let lim = bounds[(k + 1).min(n)];
                if *consumed > lim {
                    return fail(
                        "no_overconsumption",
                        k.min(n - 1),
                        format!("decode returned None having consumed {} bytes, the pending frame ends at {}", consumed, lim),
                    );
                }
                if k < n && bounds[k + 1] <= *fed {
                    return fail(
                        "prompt_delivery",
                        k,
                        format!("{} bytes fed, frame {} ends at {}, decode returned None", fed, k, bounds[k + 1]),
                    );
                }
            }
            Ev::Err { text, .. } => {
                return fail(&format!("spurious_error({})", norm(text)), k.min(n - 1), format!("valid stream, decoder error: {}", text));
            }
        }
    }
    if let Some(f) = end_fail(&t.end, k.min(n - 1)) {
        return Some(f);
    }
    if k != n {
        return fail("missing_frame", k, format!("{} of {} frames decoded at end of stream", k, n));
    }
    None
}

/// Truncation oracle: `data` is a proper prefix ending inside frame `k`.
pub fn judge_trunc<M: PartialEq + Debug>(t: &Trace<M>, msgs: &[M], k: usize) -> Option<Fail> {
    let mut i = 0usize;
    for ev in &t.evs {
        match ev {
            Ev::Frame { msg, .. } => {
                if i >= k {
                    return fail("truncation_yields_message", k, format!("a message was produced from a truncated frame: {:?}", msg));
                }
                if *msg != msgs[i] {
                    return fail("roundtrip", i, format!("decoded {:?}, encoded {:?}", msg, msgs[i]));
                }
                i += 1;
            }
            Ev::Err { eof: false, text } if i < k => {
                return fail(&format!("spurious_error({})", norm(text)), i, format!("error before the truncated frame: {}", text));
            }
            _ => {}
        }
    }
    if let Some(f) = end_fail(&t.end, k) {
        return Some(f);
    }
    if i < k {
        return fail("missing_frame", i, format!("{} of {} complete frames decoded before the truncation point", i, k));
    }
    None
}

/// Recovery oracle: `msgs[b]` has a body the decoder must reject; everything else is valid.
pub fn judge_recover<M: PartialEq + Debug>(t: &Trace<M>, msgs: &[M], bounds: &[usize], b: usize) -> Option<Fail> {
    let n = msgs.len();
    let mut k = 0usize;
    let mut saw = false;
    for ev in &t.evs {
        match ev {
            Ev::Frame { msg, consumed, eof } => {
                if k == b && !saw {
                    return fail("recovery_bad_body_accepted", b, format!("the invalid body was decoded as {:?}", msg));
                }
                if k >= n {
                    return fail("recovery_extra_frame", b, format!("after the error the decoder produced an additional frame {:?}", msg));
                }
                if *msg != msgs[k] {
                    return fail(
                        if saw { "recovery_resync" } else { "roundtrip" },
                        if saw { b } else { k },
                        format!("frame {} decoded as {:?}, encoded {:?}", k, msg, msgs[k]),
                    );
                }
                if *consumed != bounds[k + 1] {
                    return fail(
                        if saw { "recovery_resync" } else { "no_overconsumption" },
                        if saw { b } else { k },
                        format!("after frame {} consumed {} bytes, the frame ends at {}", k, consumed, bounds[k + 1]),
                    );
                }
                if *eof {
                    return fail("recovery_late", b, format!("frame {} was only delivered by decode_eof", k));
                }
                k += 1;
            }
            Ev::Err { text, eof } => {
                if saw {
                    return fail("recovery_resync", b, format!("a second error after the rejected frame: {}", text));
                }
                if k != b {
                    return fail(&format!("spurious_error({})", norm(text)), k.min(n - 1), format!("error on a valid frame: {}", text));
                }
                if *eof {
                    return fail("recovery_late", b, format!("the invalid frame was only rejected by decode_eof: {}", text));
                }
                saw = true;
                k = b + 1;
            }
            Ev::None { .. } => {}
        }
    }
    if let Some(f) = end_fail(&t.end, b) {
        return Some(f);
    }
    if t.end == End::Error {
        return fail("recovery_resync", b, "errors kept coming after the rejected frame".into());
    }
    if !saw {
        return fail("recovery_bad_body_accepted", b, "no error was reported for the invalid body".into());
    }
    if k != n {
        return fail("recovery_resync", b, format!("{} of {} frames accounted for at the end of the stream", k, n));
    }
    None
}

pub enum CorruptVerdict {
    /// decoder reported an error, possibly after faithfully decoding a prefix
    Rejected,
    /// the delivered messages are exactly the original ones (the corrupted field had no effect)
    Ignored,
    /// the delivered messages re-encode to the corrupted bytes (the bytes are a valid stream)
    Faithful,
    Fail(Fail, String),
}

/// Corruption oracle. `orig` are the encoded messages, `data` the corrupted stream.
pub fn judge_corrupt<M: PartialEq + Debug + Clone>(
    t: &Trace<M>,
    orig: &[M],
    data: &[u8],
    culprit: usize,
    reencode: &SeqEncoder<M>,
    variant: fn(&M) -> (String, String),
) -> CorruptVerdict {
    if let Some(f) = end_fail(&t.end, culprit) {
        return CorruptVerdict::Fail(f, String::new());
    }
    let decoded: Vec<M> = t
        .evs
        .iter()
        .filter_map(|e| match e {
            Ev::Frame { msg, .. } => Some(msg.clone()),
            _ => None,
        })
        .collect();
    let same_prefix = decoded.len() <= orig.len() && decoded.iter().zip(orig.iter()).all(|(a, b)| a == b);
    if same_prefix {
        return if t.end == End::Clean && decoded.len() == orig.len() { CorruptVerdict::Ignored } else { CorruptVerdict::Rejected };
    }
    let j = decoded.iter().zip(orig.iter()).position(|(a, b)| a != b).unwrap_or(orig.len());
    let re = catch_unwind(AssertUnwindSafe(|| reencode(&decoded)));
    match re {
        Err(p) => CorruptVerdict::Fail(
            Fail { law: "reencode_panic".into(), frame: culprit, text: format!("cannot re-encode {:?}: {}", decoded, panic_text(p)) },
            String::new(),
        ),
        Ok((bytes, _)) => {
            if data.starts_with(&bytes) {
                CorruptVerdict::Faithful
            } else {
                let (kind, _) = variant(&decoded[j.min(decoded.len() - 1)]);
                CorruptVerdict::Fail(
                    Fail {
                        law: "corrupt_silently_wrong".into(),
                        frame: culprit,
                        text: format!(
                            "no error; delivered {:?} (original {:?}); what was delivered encodes to {} which is not the received bytes",
                            decoded,
                            orig,
                            hex(&bytes)
                        ),
                    },
                    kind,
                )
            }
        }
    }
}

pub fn hex(b: &[u8]) -> String {
    let mut s = String::with_capacity(b.len() * 2);
    for x in b {
        s.push_str(&format!("{:02x}", x));
    }
    s
}

pub fn unhex(s: &str) -> Vec<u8> {
    (0..s.len() / 2).map(|i| u8::from_str_radix(&s[2 * i..2 * i + 2], 16).unwrap_or(0)).collect()
}

// ------------------------------------------------------------------------------------- hang watchdog

pub static TICKS: AtomicU64 = AtomicU64::new(0);
static NEXT_TID: AtomicU64 = AtomicU64::new(1);
pub static INFLIGHT: Mutex<BTreeMap<u64, String>> = Mutex::new(BTreeMap::new());
thread_local! {
    static TID: u64 = NEXT_TID.fetch_add(1, Ordering::Relaxed);
}

pub struct InFlight;
impl InFlight {
    pub fn new(desc: String) -> InFlight {
        let id = TID.with(|t| *t);
        INFLIGHT.lock().unwrap().insert(id, desc);
        InFlight
    }
}
impl Drop for InFlight {
    fn drop(&mut self) {
        let id = TID.with(|t| *t);
        if let Ok(mut g) = INFLIGHT.lock() {
            g.remove(&id);
        }
        TICKS.fetch_add(1, Ordering::Relaxed);
    }
}

// ------------------------------------------------------------------------------------- statistics

#[derive(Default, Clone, Debug)]
pub struct Stats {
    pub streams: u64,
    pub cases: u64,
    pub calls: u64,
    pub nontrivial: u64,
    pub skipped_nonminimal: u64,
    pub capped: u64,
    pub ignored: u64,
    pub faithful: u64,
    pub two_cut_streams: u64,
}

impl Stats {
    pub fn add(&mut self, o: &Stats) {
        self.streams += o.streams;
        self.cases += o.cases;
        self.calls += o.calls;
        self.nontrivial += o.nontrivial;
        self.skipped_nonminimal += o.skipped_nonminimal;
        self.capped += o.capped;
        self.ignored += o.ignored;
        self.faithful += o.faithful;
        self.two_cut_streams += o.two_cut_streams;
    }
}

/// A failing case, ready to be grouped into a signature.
#[derive(Clone, Debug)]
pub struct Found {
    pub law: String,
    pub kind: String,
    pub args: String,
    /// extra discriminator put in the signature (field name, decoded-as kind, sequence)
    pub extra: String,
    pub detail: J,
}

#[derive(Default)]
pub struct LegAcc {
    pub stats: Stats,
    pub per_codec: Vec<J>,
    pub samples: Vec<J>,
    pub wall_s: f64,
    pub capped: bool,
}

pub struct Acc {
    pub frag: LegAcc,
    pub corrupt: LegAcc,
    pub trunc: LegAcc,
    pub recover: LegAcc,
    /// signature -> (leg, detail)
    pub violations: BTreeMap<String, (String, J)>,
}

impl Acc {
    pub fn new() -> Acc {
        Acc { frag: LegAcc::default(), corrupt: LegAcc::default(), trunc: LegAcc::default(), recover: LegAcc::default(), violations: BTreeMap::new() }
    }
}

/// Group the failing cases of one codec and leg into signatures: one signature per
/// (law, constructor kind, extra), listing the payload descriptions that fail (pool order, so
/// the example kept in the detail is the smallest one).
/// `swimos_agent_protocol::lane::ValueLaneRequestDecoder<swimos_model::Value>` -> `ValueLaneRequestDecoder<Value>`
pub fn short_type_name<T>() -> String {
    let full = std::any::type_name::<T>();
    let mut out = String::new();
    let mut seg = String::new();
    for c in full.chars() {
        if c.is_alphanumeric() || c == '_' {
            seg.push(c);
        } else if c == ':' {
            seg.clear();
        } else {
            out.push_str(&seg);
            seg.clear();
            out.push(c);
        }
    }
    out.push_str(&seg);
    out.replace(' ', "")
}

fn group(codec: &str, leg: &str, found: Vec<Found>, out: &mut BTreeMap<String, (String, J)>) {
    let mut groups: Vec<((String, String, String), Vec<String>, J)> = vec![];
    for f in found {
        let key = (f.law.clone(), f.kind.clone(), f.extra.clone());
        if let Some(g) = groups.iter_mut().find(|g| g.0 == key) {
            if !g.1.contains(&f.args) {
                g.1.push(f.args);
            }
        } else {
            groups.push((key, vec![f.args], f.detail));
        }
    }
    for ((law, kind, extra), args, mut detail) in groups {
        let mut sig = format!("decoder={} law={}", codec, law);
        if !kind.is_empty() {
            sig.push_str(&format!(" kind={}", kind));
        }
        if !extra.is_empty() {
            sig.push(' ');
            sig.push_str(&extra);
        }
        let listed: Vec<&String> = args.iter().filter(|a| !a.is_empty()).collect();
        if !listed.is_empty() && listed.len() <= 6 {
            sig.push_str(" payloads=[");
            sig.push_str(&listed.iter().map(|s| s.as_str()).collect::<Vec<_>>().join("; "));
            sig.push(']');
        } else if !listed.is_empty() {
            let all = listed.iter().map(|s| s.as_str()).collect::<Vec<_>>().join("; ");
            sig.push_str(&format!(" payloads={} first=[{}] set={:08x}", listed.len(), listed[0], vcommon::fnv(all.as_bytes()) as u32));
        }
        detail["signature_members"] = json!(args);
        out.entry(sig).or_insert((leg.to_string(), detail));
    }
}

fn show<M>(variant: fn(&M) -> (String, String), m: &M) -> String {
    let (k, a) = variant(m);
    if a.is_empty() {
        k
    } else {
        format!("{}({})", k, a)
    }
}

/// `vcommon::cuts::chunkings` with an independent bound for the 3-cuts. Order: no cut, 1-cuts,
/// 2-cuts, 3-cuts, byte-by-byte (smallest first).
pub fn my_chunkings(n: usize, max_cuts: usize, two_limit: usize, three_limit: usize) -> Vec<Vec<usize>> {
    let mut out = chunkings(n, max_cuts.min(2), two_limit);
    if max_cuts >= 3 && n <= three_limit && n >= 4 {
        let last = out.pop();
        for i in 1..n {
            for j in (i + 1)..n {
                for k in (j + 1)..n {
                    out.push(vec![i, j, k]);
                }
            }
        }
        if let Some(l) = last {
            out.push(l);
        }
    }
    out
}

fn all_seqs(n: usize, len: usize) -> Vec<Vec<usize>> {
    let mut out: Vec<Vec<usize>> = vec![vec![]];
    for _ in 0..len {
        let mut next = Vec::with_capacity(out.len() * n);
        for s in &out {
            for i in 0..n {
                let mut t = s.clone();
                t.push(i);
                next.push(t);
            }
        }
        out = next;
    }
    out
}

fn contains_sub(seq: &[usize], bad: &[Vec<usize>]) -> bool {
    bad.iter().any(|b| b.len() <= seq.len() && seq.windows(b.len()).any(|w| w == &b[..]))
}

fn encode_checked<M>(enc: &SeqEncoder<M>, msgs: &[M]) -> Result<(Vec<u8>, Vec<usize>), String> {
    match catch_unwind(AssertUnwindSafe(|| enc(msgs))) {
        Ok(x) => Ok(x),
        Err(p) => Err(panic_text(p)),
    }
}

fn case_detail<M: Debug>(
    e_name: &str,
    leg: &str,
    seq: &[usize],
    msgs: &[M],
    shown: &[String],
    data: &[u8],
    cuts: &[usize],
    f: &Fail,
    tier: &str,
) -> J {
    json!({
        "codec": e_name, "kind_of_case": leg, "seq": seq, "cuts": cuts, "tier": tier, "pool_mode": crate::model::POOL_MODE.load(std::sync::atomic::Ordering::Relaxed),
        "messages": shown, "messages_debug": msgs.iter().map(|m| format!("{:?}", m)).collect::<Vec<_>>(),
        "stream_hex": hex(data), "law": f.law, "frame": f.frame,
        "explanation": f.text, "what": f.text,
        "input": format!("{} seq=[{}] cuts={:?}", e_name, shown.join(", "), cuts),
    })
}

// ------------------------------------------------------------------------------------- the legs

pub fn run_entry<M, D>(e: &Entry<M, D>, p: &Params, acc: &mut Acc)
where
    M: Clone + Debug + PartialEq + Send + Sync,
    D: Decoder,
    D::Error: Debug,
{
    let t_entry = Instant::now();
    let dname = short_type_name::<D>();
    let n = e.pool.len();
    let base = if e.wide { p.seq_wide } else { p.seq_narrow };
    let levels = base + if p.extra_level { 1 } else { 0 };
    let mut failing: Vec<Vec<usize>> = vec![];

    // ---------------- leg 1: fragmentation
    let t0 = Instant::now();
    let mut st = Stats::default();
    let mut found: Vec<Found> = vec![];
    let mut sample: Option<J> = None;
    let mut capped = false;
    for len in 1..=levels {
        let seqs: Vec<Vec<usize>> = all_seqs(n, len);
        let max_cuts = if len > base { 1 } else if p.three_cut_limit > 0 { 3 } else { 2 };
        let res = vcommon::par_map(&seqs, p.threads, |_, seq| {
            let mut s = Stats::default();
            if contains_sub(seq, &failing) {
                s.skipped_nonminimal = 1;
                return (s, None);
            }
            if t0.elapsed().as_secs_f64() > p.cap_s {
                s.capped = 1;
                return (s, None);
            }
            let _g = InFlight::new(format!("codec={} leg=fragmentation seq={:?}", e.name, seq));
            let msgs: Vec<M> = seq.iter().map(|i| e.pool[*i].clone()).collect();
            let shown: Vec<String> = msgs.iter().map(|m| show(e.variant, m)).collect();
            let (data, bounds) = match encode_checked(&e.encode, &msgs) {
                Ok(x) => x,
                Err(t) => {
                    let f = Fail { law: format!("encoder_panic({})", norm(&t)), frame: 0, text: t };
                    return (s, Some((seq.clone(), f, vec![], vec![], shown)));
                }
            };
            s.streams = 1;
            if data.len() <= p.two_cut_limit && max_cuts >= 2 {
                s.two_cut_streams = 1;
            }
            for cuts in my_chunkings(data.len(), max_cuts, p.two_cut_limit, p.three_cut_limit) {
                let mut dec = (e.new_dec)();
                let t = drive(&mut dec, e.convert, &data, &cuts, 1);
                s.cases += 1;
                s.calls += t.calls;
                if resumed(&t) {
                    s.nontrivial += 1;
                }
                if let Some(f) = judge_frag(&t, &msgs, &bounds) {
                    return (s, Some((seq.clone(), f, data, cuts, shown)));
                }
            }
            (s, None)
        });
        for (s, f) in res {
            st.add(&s);
            if s.capped > 0 {
                capped = true;
            }
            if let Some((seq, f, data, cuts, shown)) = f {
                let msgs: Vec<M> = seq.iter().map(|i| e.pool[*i].clone()).collect();
                let (kind, args) = (e.variant)(&msgs[f.frame.min(msgs.len() - 1)]);
                let extra = if seq.len() > 1 { format!("seq=[{}] frame={}", shown.join(", "), f.frame) } else { String::new() };
                let detail = case_detail(e.name, "fragmentation", &seq, &msgs, &shown, &data, &cuts, &f, p.tier);
                found.push(Found { law: f.law.clone(), kind, args: if seq.len() > 1 { String::new() } else { args }, extra, detail });
                failing.push(seq);
            }
        }
        if sample.is_none() && len == levels.min(2) {
            let seq: Vec<usize> = (0..len).map(|i| (n - 1).saturating_sub(i) % n).collect();
            let msgs: Vec<M> = seq.iter().map(|i| e.pool[*i].clone()).collect();
            if let Ok((data, bounds)) = encode_checked(&e.encode, &msgs) {
                sample = Some(json!({"codec": e.name, "messages": msgs.iter().map(|m| show(e.variant, m)).collect::<Vec<_>>(),
                    "stream_hex": hex(&data), "frame_bounds": bounds, "chunkings": my_chunkings(data.len(), max_cuts, p.two_cut_limit, p.three_cut_limit).len()}));
            }
        }
    }
    group(&dname, "fragmentation", found, &mut acc.violations);
    acc.frag.stats.add(&st);
    acc.frag.capped |= capped;
    acc.frag.wall_s += t0.elapsed().as_secs_f64();
    let w_frag = t0.elapsed().as_secs_f64();
    acc.frag.per_codec.push(json!({"codec": e.name, "pool": n, "max_seq": base, "extra_level_one_cut": p.extra_level,
        "streams": st.streams, "cases": st.cases, "decode_calls": st.calls, "resumed_cases": st.nontrivial,
        "streams_with_all_2cuts": st.two_cut_streams, "skipped_supersequences_of_failing": st.skipped_nonminimal, "capped": st.capped}));
    if let Some(s) = sample {
        if acc.frag.samples.len() < 3 {
            acc.frag.samples.push(s);
        }
    }
    let failing_singles: Vec<Vec<usize>> = failing.iter().filter(|s| s.len() == 1).cloned().collect();

    // ---------------- leg 2: truncation
    let t0 = Instant::now();
    let mut st = Stats::default();
    let mut found: Vec<Found> = vec![];
    let mut capped = false;
    for len in 1..=p.trunc_seq.min(base) {
        let seqs = all_seqs(n, len);
        let res = vcommon::par_map(&seqs, p.threads, |_, seq| {
            let mut s = Stats::default();
            if contains_sub(seq, &failing) {
                s.skipped_nonminimal = 1;
                return (s, None);
            }
            if t0.elapsed().as_secs_f64() > p.cap_s {
                s.capped = 1;
                return (s, None);
            }
            let _g = InFlight::new(format!("codec={} leg=truncation seq={:?}", e.name, seq));
            let msgs: Vec<M> = seq.iter().map(|i| e.pool[*i].clone()).collect();
            let (data, bounds) = match encode_checked(&e.encode, &msgs) {
                Ok(x) => x,
                Err(_) => return (s, None),
            };
            s.streams = 1;
            for l in 1..data.len() {
                if bounds.contains(&l) {
                    continue;
                }
                let k = bounds.iter().filter(|b| **b <= l).count() - 1;
                // only prefixes that end inside the LAST frame of a shorter run were not seen at a smaller length
                if k + 1 != msgs.len() {
                    continue;
                }
                let prefix = &data[..l];
                let single: Vec<usize> = (1..l).collect();
                let feeds: Vec<Vec<usize>> = if l > 1 { vec![vec![], single] } else { vec![vec![]] };
                for cuts in feeds {
                    let mut dec = (e.new_dec)();
                    let t = drive(&mut dec, e.convert, prefix, &cuts, 1);
                    s.cases += 1;
                    s.calls += t.calls;
                    if l >= bounds[k] + 2 {
                        s.nontrivial += 1;
                    }
                    if let Some(f) = judge_trunc(&t, &msgs, k) {
                        return (s, Some((seq.clone(), f, prefix.to_vec(), cuts, l)));
                    }
                }
            }
            (s, None)
        });
        for (s, f) in res {
            st.add(&s);
            if s.capped > 0 {
                capped = true;
            }
            if let Some((seq, f, data, cuts, l)) = f {
                let msgs: Vec<M> = seq.iter().map(|i| e.pool[*i].clone()).collect();
                let shown: Vec<String> = msgs.iter().map(|m| show(e.variant, m)).collect();
                let (kind, args) = (e.variant)(&msgs[f.frame.min(msgs.len() - 1)]);
                let extra = if seq.len() > 1 { format!("seq=[{}] frame={}", shown.join(", "), f.frame) } else { String::new() };
                let mut detail = case_detail(e.name, "truncation", &seq, &msgs, &shown, &data, &cuts, &f, p.tier);
                detail["prefix_len"] = json!(l);
                found.push(Found { law: f.law.clone(), kind, args: if seq.len() > 1 { String::new() } else { args }, extra, detail });
            }
        }
    }
    group(&dname, "truncation", found, &mut acc.violations);
    acc.trunc.stats.add(&st);
    acc.trunc.capped |= capped;
    acc.trunc.wall_s += t0.elapsed().as_secs_f64();
    let w_trunc = t0.elapsed().as_secs_f64();
    acc.trunc.per_codec.push(json!({"codec": e.name, "streams": st.streams, "cases": st.cases, "decode_calls": st.calls, "capped": st.capped}));
    if acc.trunc.samples.len() < 2 && n > 0 {
        let msgs = vec![e.pool[n - 1].clone()];
        if let Ok((data, _)) = encode_checked(&e.encode, &msgs) {
            acc.trunc.samples.push(json!({"codec": e.name, "message": show(e.variant, &msgs[0]), "stream_hex": hex(&data),
                "prefixes": data.len().saturating_sub(1), "feeds": ["whole", "byte-by-byte"]}));
        }
    }

    // ---------------- leg 3: corruption
    let t0 = Instant::now();
    let mut st = Stats::default();
    let mut found: Vec<Found> = vec![];
    let mut capped = false;
    let mut rejected_total = 0u64;
    for len in 1..=p.corrupt_seq.min(base) {
        let seqs = all_seqs(n, len);
        let res = vcommon::par_map(&seqs, p.threads, |_, seq| {
            let mut s = Stats::default();
            let mut out: Vec<Found> = vec![];
            let mut rejected = 0u64;
            if contains_sub(seq, &failing_singles) {
                s.skipped_nonminimal = 1;
                return (s, out, rejected);
            }
            if t0.elapsed().as_secs_f64() > p.cap_s {
                s.capped = 1;
                return (s, out, rejected);
            }
            let _g = InFlight::new(format!("codec={} leg=corruption seq={:?}", e.name, seq));
            let msgs: Vec<M> = seq.iter().map(|i| e.pool[*i].clone()).collect();
            let shown: Vec<String> = msgs.iter().map(|m| show(e.variant, m)).collect();
            let (data, bounds) = match encode_checked(&e.encode, &msgs) {
                Ok(x) => x,
                Err(_) => return (s, out, rejected),
            };
            s.streams = 1;
            // in a sequence only the LAST message is corrupted at length 1, and at length 2 both
            // positions (a corrupt first frame followed by a valid one, and vice versa)
            for (mi, _m) in msgs.iter().enumerate() {
                let frame = &data[bounds[mi]..bounds[mi + 1]];
                let fields = match (e.layout)(frame) {
                    Some(f) => f,
                    None => {
                        let (kind, args) = (e.variant)(&msgs[mi]);
                        let f = Fail { law: "frame_shape".into(), frame: mi, text: format!("encoded frame {} does not have the documented layout", hex(frame)) };
                        out.push(Found { law: f.law.clone(), kind, args, extra: String::new(), detail: case_detail(e.name, "corruption", seq, &msgs, &shown, &data, &[], &f, p.tier) });
                        continue;
                    }
                };
                let (kind, _args) = (e.variant)(&msgs[mi]);
                for fld in &fields {
                    for bi in 0..fld.width {
                        let pos = bounds[mi] + fld.off + bi;
                        let orig = data[pos];
                        let subs: Vec<u8> = match fld.kind {
                            Kind::Tag => (0..=255u8).filter(|v| *v != orig).collect(),
                            Kind::Len => {
                                let mut v = vec![];
                                for c in [0u8, orig.wrapping_sub(1), orig.wrapping_add(1), 0xFF] {
                                    if c != orig && !v.contains(&c) {
                                        v.push(c);
                                    }
                                }
                                v
                            }
                        };
                        for v in subs {
                            let mut bad = data.clone();
                            bad[pos] = v;
                            let single: Vec<usize> = (1..bad.len()).collect();
                            let mut feeds: Vec<Vec<usize>> = vec![vec![], single];
                            if p.corrupt_one_cuts && seq.len() == 1 {
                                for c in 1..bad.len() {
                                    feeds.push(vec![c]);
                                }
                            }
                            for cuts in feeds {
                                let mut dec = (e.new_dec)();
                                let t = drive(&mut dec, e.convert, &bad, &cuts, 1);
                                s.cases += 1;
                                s.calls += t.calls;
                                match judge_corrupt(&t, &msgs, &bad, mi, &e.reencode, e.variant) {
                                    CorruptVerdict::Rejected => {
                                        rejected += 1;
                                        s.nontrivial += 1;
                                    }
                                    CorruptVerdict::Ignored => s.ignored += 1,
                                    CorruptVerdict::Faithful => s.faithful += 1,
                                    CorruptVerdict::Fail(f, decoded_as) => {
                                        // one signature per (decoder, law, field); what it was decoded as goes to the detail
                                        let extra = format!("field={}", fld.name);
                                        if !out.iter().any(|o| o.law == f.law && o.extra == extra) {
                                            let mut detail = case_detail(e.name, "corruption", seq, &msgs, &shown, &bad, &cuts, &f, p.tier);
                                            detail["corrupt"] = json!({"offset": pos, "value": v, "original": orig, "field": fld.name, "byte_of_field": bi, "message_index": mi});
                                            detail["input"] = json!(format!("{} seq=[{}] byte {} ({}[{}]) {:#04x}->{:#04x} cuts={}", e.name, shown.join(", "), pos, fld.name, bi, orig, v, if cuts.is_empty() { "none".to_string() } else if cuts.len() == 1 && bad.len() > 2 { format!("{:?}", cuts) } else { "byte-by-byte".to_string() }));
                                            detail["corrupted_message_kind"] = json!(kind);
                                            detail["first_wrong_message_decoded_as"] = json!(decoded_as);
                                            out.push(Found { law: f.law.clone(), kind: String::new(), args: String::new(), extra, detail });
                                        }
                                    }
                                }
                            }
                        }
                    }
                }
            }
            (s, out, rejected)
        });
        // minimality across lengths: a (law, kind, field...) already reported for a single message is
        // not reported again for the sequences that contain it
        for (s, out, rej) in res {
            st.add(&s);
            rejected_total += rej;
            if s.capped > 0 {
                capped = true;
            }
            for f in out {
                // smallest first: one report per (law, field, decoded-as)
                if found.iter().any(|g| g.law == f.law && g.kind == f.kind && g.extra == f.extra) {
                    continue;
                }
                found.push(f);
            }
        }
    }
    group(&dname, "corruption", found, &mut acc.violations);
    acc.corrupt.stats.add(&st);
    acc.corrupt.capped |= capped;
    acc.corrupt.wall_s += t0.elapsed().as_secs_f64();
    let w_corrupt = t0.elapsed().as_secs_f64();
    acc.corrupt.per_codec.push(json!({"codec": e.name, "streams": st.streams, "cases": st.cases, "decode_calls": st.calls,
        "rejected_with_error": rejected_total, "field_ignored_same_messages": st.ignored, "valid_other_stream": st.faithful, "capped": st.capped}));
    if acc.corrupt.samples.len() < 2 && n > 0 {
        let msgs = vec![e.pool[n - 1].clone()];
        if let Ok((data, _)) = encode_checked(&e.encode, &msgs) {
            let fields = (e.layout)(&data).unwrap_or_default();
            acc.corrupt.samples.push(json!({"codec": e.name, "message": show(e.variant, &msgs[0]), "stream_hex": hex(&data),
                "fields": fields.iter().map(|f| format!("{}@{}+{} {:?}", f.name, f.off, f.width, f.kind)).collect::<Vec<_>>()}));
        }
    }

    // ---------------- leg 4: recovery after a rejected body
    let t0 = Instant::now();
    let mut st = Stats::default();
    let mut found: Vec<Found> = vec![];
    let mut capped = false;
    let mut dropped_bad = 0usize;
    if !e.bad.is_empty() {
        // keep the bad messages that the decoder rejects when they stand alone
        let mut bad_ok: Vec<usize> = vec![];
        for (bi, bm) in e.bad.iter().enumerate() {
            if let Ok((data, _)) = encode_checked(&e.reencode, std::slice::from_ref(bm)) {
                let mut dec = (e.new_dec)();
                let t = drive(&mut dec, e.convert, &data, &[], 1);
                if t.evs.iter().any(|ev| matches!(ev, Ev::Err { eof: false, .. })) && !t.evs.iter().any(|ev| matches!(ev, Ev::Frame { .. })) {
                    bad_ok.push(bi);
                } else {
                    dropped_bad += 1;
                }
            }
        }
        let rbase = if e.wide { p.recover_seq_wide } else { p.recover_seq_narrow };
        // sequences: exactly one bad message at position b, the others from the good pool
        let mut work: Vec<(Vec<usize>, usize, usize)> = vec![]; // (good indices, position of bad, bad index)
        let good: Vec<usize> = (0..n).filter(|i| !failing_singles.contains(&vec![*i])).collect();
        for len in 1..=rbase {
            for b in 0..len {
                for gs in all_seqs(good.len(), len - 1) {
                    for bi in &bad_ok {
                        work.push((gs.iter().map(|g| good[*g]).collect(), b, *bi));
                    }
                }
            }
        }
        let res = vcommon::par_map(&work, p.threads, |_, (gs, b, bi)| {
            let mut s = Stats::default();
            if t0.elapsed().as_secs_f64() > p.cap_s {
                s.capped = 1;
                return (s, None);
            }
            if contains_sub(gs, &failing) && gs.len() > 1 {
                s.skipped_nonminimal = 1;
                return (s, None);
            }
            let _g = InFlight::new(format!("codec={} leg=recovery good={:?} bad_at={} bad={}", e.name, gs, b, bi));
            let mut msgs: Vec<M> = gs.iter().map(|i| e.pool[*i].clone()).collect();
            msgs.insert(*b, e.bad[*bi].clone());
            let (data, bounds) = match encode_checked(&e.reencode, &msgs) {
                Ok(x) => x,
                Err(_) => return (s, None),
            };
            s.streams = 1;
            for cuts in chunkings(data.len(), 2, p.two_cut_limit) {
                let mut dec = (e.new_dec)();
                let t = drive(&mut dec, e.convert, &data, &cuts, 3);
                s.cases += 1;
                s.calls += t.calls;
                if resumed(&t) {
                    s.nontrivial += 1;
                }
                if let Some(f) = judge_recover(&t, &msgs, &bounds, *b) {
                    return (s, Some((gs.clone(), *b, *bi, f, data, cuts)));
                }
            }
            (s, None)
        });
        let mut seen: Vec<(String, usize)> = vec![];
        for (s, f) in res {
            st.add(&s);
            if s.capped > 0 {
                capped = true;
            }
            if let Some((gs, b, bi, f, data, cuts)) = f {
                // smallest first: the first failing stream of a (law, bad message) is the reported one
                if seen.contains(&(f.law.clone(), bi)) {
                    continue;
                }
                seen.push((f.law.clone(), bi));
                let mut msgs: Vec<M> = gs.iter().map(|i| e.pool[*i].clone()).collect();
                msgs.insert(b, e.bad[bi].clone());
                let shown: Vec<String> = msgs.iter().map(|m| show(e.variant, m)).collect();
                let (kind, args) = (e.variant)(&e.bad[bi]);
                let mut detail = case_detail(e.name, "recovery", &gs, &msgs, &shown, &data, &cuts, &f, p.tier);
                detail["bad_at"] = json!(b);
                detail["bad_index"] = json!(bi);
                found.push(Found { law: f.law.clone(), kind, args, extra: String::new(), detail });
            }
        }
        acc.recover.per_codec.push(json!({"codec": e.name, "bad_bodies": bad_ok.len(), "bad_bodies_not_rejected_alone": dropped_bad,
            "streams": st.streams, "cases": st.cases, "decode_calls": st.calls, "capped": st.capped}));
        if acc.recover.samples.len() < 2 && !bad_ok.is_empty() && !good.is_empty() {
            let msgs = vec![e.bad[bad_ok[0]].clone(), e.pool[good[good.len() - 1]].clone()];
            if let Ok((data, bounds)) = encode_checked(&e.reencode, &msgs) {
                acc.recover.samples.push(json!({"codec": e.name, "messages": msgs.iter().map(|m| show(e.variant, m)).collect::<Vec<_>>(),
                    "stream_hex": hex(&data), "frame_bounds": bounds}));
            }
        }
    }
    group(&dname, "recovery", found, &mut acc.violations);
    acc.recover.stats.add(&st);
    acc.recover.capped |= capped;
    acc.recover.wall_s += t0.elapsed().as_secs_f64();
    let w_recover = t0.elapsed().as_secs_f64();

    if std::env::var("C10_VERBOSE").is_ok() {
        eprintln!(
            "[C10] {:<34} pool={:<3} {:.1}s (frag {:.1} trunc {:.1} corrupt {:.1} recover {:.1})",
            e.name, n, t_entry.elapsed().as_secs_f64(), w_frag, w_trunc, w_corrupt, w_recover
        );
    }
}

// ------------------------------------------------------------------------------------- replay

/// Re-run exactly one recorded case. Returns `Some(explanation)` if it still fails.
pub fn replay_entry<M, D>(e: &Entry<M, D>, d: &J) -> Option<String>
where
    M: Clone + Debug + PartialEq + Send + Sync,
    D: Decoder,
    D::Error: Debug,
{
    let seq: Vec<usize> = d["seq"].as_array()?.iter().map(|x| x.as_u64().unwrap_or(0) as usize).collect();
    let cuts: Vec<usize> = d["cuts"].as_array().map(|a| a.iter().map(|x| x.as_u64().unwrap_or(0) as usize).collect()).unwrap_or_default();
    let law = d["law"].as_str().unwrap_or("");
    let mut msgs: Vec<M> = seq.iter().map(|i| e.pool[*i].clone()).collect();
    let kind = d["kind_of_case"].as_str().unwrap_or("");
    let stored = unhex(d["stream_hex"].as_str().unwrap_or(""));
    let verdict = match kind {
        "fragmentation" => {
            let (data, bounds) = match encode_checked(&e.encode, &msgs) {
                Ok(x) => x,
                Err(t) => return Some(format!("encoder panic: {}", t)),
            };
            let mut dec = (e.new_dec)();
            let t = drive(&mut dec, e.convert, &data, &cuts, 1);
            judge_frag(&t, &msgs, &bounds)
        }
        "truncation" => {
            let (data, bounds) = encode_checked(&e.encode, &msgs).ok()?;
            let l = d["prefix_len"].as_u64()? as usize;
            let k = bounds.iter().filter(|b| **b <= l).count() - 1;
            let mut dec = (e.new_dec)();
            let t = drive(&mut dec, e.convert, &data[..l.min(data.len())], &cuts, 1);
            judge_trunc(&t, &msgs, k)
        }
        "corruption" => {
            let (mut data, _) = encode_checked(&e.encode, &msgs).ok()?;
            if law == "frame_shape" {
                return Some("frame shape".into());
            }
            let pos = d["corrupt"]["offset"].as_u64()? as usize;
            let v = d["corrupt"]["value"].as_u64()? as u8;
            let mi = d["corrupt"]["message_index"].as_u64()? as usize;
            if pos < data.len() {
                data[pos] = v;
            }
            let mut dec = (e.new_dec)();
            let t = drive(&mut dec, e.convert, &data, &cuts, 1);
            match judge_corrupt(&t, &msgs, &data, mi, &e.reencode, e.variant) {
                CorruptVerdict::Fail(f, _) => Some(f),
                _ => None,
            }
        }
        "recovery" => {
            let b = d["bad_at"].as_u64()? as usize;
            let bi = d["bad_index"].as_u64()? as usize;
            msgs.insert(b, e.bad[bi].clone());
            let (data, bounds) = encode_checked(&e.reencode, &msgs).ok()?;
            let mut dec = (e.new_dec)();
            let t = drive(&mut dec, e.convert, &data, &cuts, 3);
            judge_recover(&t, &msgs, &bounds, b)
        }
        _ => None,
    };
    let _ = stored;
    verdict.filter(|f| f.law == law).map(|f| f.text)
}

//! Payload atoms, message pools and the (purely structural) conversions between the payload
//! representations the different encoders / decoders of the subject use.

use bytes::BytesMut;
use swimos_agent_protocol::{
    CommandMessage, DownlinkNotification, DownlinkOperation, LaneRequest, LaneResponse, MapMessage, MapOperation,
    StoreInitMessage, StoreInitialized, StoreResponse,
};
use swimos_api::address::{Address, RelativeAddress};
use swimos_messages::protocol::{Notification, Operation, RequestMessage, ResponseMessage};
use swimos_model::{Text, Value};
use swimos_recon::print_recon_compact;
use uuid::Uuid;

/// A payload atom: the bytes that travel, and (for the Recon pools) the model value they print.
#[derive(Clone, Debug)]
pub struct P {
    pub label: &'static str,
    pub bytes: Vec<u8>,
    pub value: Option<Value>,
}

impl PartialEq for P {
    fn eq(&self, other: &P) -> bool {
        match (&self.value, &other.value) {
            (Some(a), Some(b)) => a == b,
            _ => self.bytes == other.bytes,
        }
    }
}

impl AsRef<[u8]> for P {
    fn as_ref(&self) -> &[u8] {
        &self.bytes
    }
}

impl P {
    pub fn raw(label: &'static str, bytes: &[u8]) -> P {
        P { label, bytes: bytes.to_vec(), value: None }
    }
    pub fn typed(label: &'static str, v: Value) -> P {
        let bytes = format!("{}", print_recon_compact(&v)).into_bytes();
        P { label, bytes, value: Some(v) }
    }
    pub fn from_bytes(b: &[u8]) -> P {
        P { label: "", bytes: b.to_vec(), value: None }
    }
    pub fn from_value(v: Value) -> P {
        let bytes = format!("{}", print_recon_compact(&v)).into_bytes();
        P { label: "", bytes, value: Some(v) }
    }
    pub fn val(&self) -> Value {
        self.value.clone().expect("typed encoder used with a raw payload")
    }
    pub fn show(&self) -> String {
        if !self.label.is_empty() {
            self.label.to_string()
        } else {
            format!("{}B", self.bytes.len())
        }
    }
}


/// 0: the ordinary payload pools; 1: the pools of the `fragmentation_utf8` leg (multi-byte characters).
pub static POOL_MODE: std::sync::atomic::AtomicU8 = std::sync::atomic::AtomicU8::new(0);

fn utf8_mode() -> bool {
    POOL_MODE.load(std::sync::atomic::Ordering::Relaxed) == 1
}

/// Recon payloads: empty (Extant prints as nothing), one byte, three bytes of which every prefix
/// is itself valid Recon, a text that needs quoting and escapes.
pub fn typed_payloads() -> Vec<P> {
    if utf8_mode() {
        // texts with blanks (printed quoted: no prefix of a quoted string is a complete value) made of
        // 2, 3 and 4 byte characters
        return vec![
            P::typed("empty", Value::Extant),
            P::typed("utf8-2", Value::Text(Text::new("\u{e9} \u{fc}"))),
            P::typed("utf8-34", Value::Text(Text::new("\u{20ac} \u{1F600}"))),
        ];
    }
    vec![
        P::typed("empty", Value::Extant),
        P::typed("1B", Value::Int32Value(7)),
        P::typed("3B", Value::Int32Value(123)),
        P::typed("esc", Value::Text(Text::new("a\"b\n"))),
    ]
}

/// Raw payloads: empty, one byte that equals a frame tag, three bytes that are not UTF-8, and the
/// escaped Recon text.
pub fn raw_payloads() -> Vec<P> {
    if utf8_mode() {
        return vec![P::raw("empty", b""), P::raw("utf8-2", "\"\u{e9} \u{fc}\"".as_bytes()), P::raw("utf8-34", "\"\u{20ac} \u{1F600}\"".as_bytes())];
    }
    vec![
        P::raw("empty", b""),
        P::raw("1B", &[0x04]),
        P::raw("3B", &[0xFF, 0x00, 0x03]),
        P::raw("esc", b"\"a\\\"b\\n\""),
    ]
}

/// Bodies that a Recon decoder must reject (the recovery leg keeps those that the decoder under
/// test actually rejects when they stand alone).
pub fn bad_payloads() -> Vec<P> {
    vec![
        P::raw("bad:close", b")"),
        P::raw("bad:open", b"{"),
        P::raw("bad:unterminated", b"\"abc"),
        P::raw("bad:utf8", &[0xFF]),
        P::raw("bad:mid", b"{1,)}x"),
    ]
}

pub fn uuids() -> Vec<Uuid> {
    vec![Uuid::from_u128(0), Uuid::from_u128(u128::MAX)]
}

fn u(id: &Uuid) -> &'static str {
    if id.as_u128() == 0 {
        "0"
    } else if id.as_u128() == u128::MAX {
        "MAX"
    } else {
        "other"
    }
}

// ---------------------------------------------------------------- map messages / operations

pub type MM = MapMessage<P, P>;
pub type MO = MapOperation<P, P>;

pub fn map_message_pool(keys: &[P], values: &[P]) -> Vec<MM> {
    let mut v = vec![MapMessage::Clear];
    for k in keys {
        v.push(MapMessage::Remove { key: k.clone() });
    }
    for n in [1u64, u64::MAX] {
        v.push(MapMessage::Take(n));
        v.push(MapMessage::Drop(n));
    }
    for k in keys {
        for x in values {
            v.push(MapMessage::Update { key: k.clone(), value: x.clone() });
        }
    }
    v
}

pub fn map_operation_pool(keys: &[P], values: &[P]) -> Vec<MO> {
    let mut v = vec![MapOperation::Clear];
    for k in keys {
        v.push(MapOperation::Remove { key: k.clone() });
    }
    for k in keys {
        for x in values {
            v.push(MapOperation::Update { key: k.clone(), value: x.clone() });
        }
    }
    v
}

pub fn bad_map_messages(good: &P) -> Vec<MM> {
    let mut v = vec![];
    for b in bad_payloads() {
        v.push(MapMessage::Remove { key: b.clone() });
        v.push(MapMessage::Update { key: b.clone(), value: good.clone() });
        v.push(MapMessage::Update { key: good.clone(), value: b.clone() });
    }
    v
}

pub fn bad_map_operations(good: &P) -> Vec<MO> {
    let mut v = vec![];
    for b in bad_payloads() {
        v.push(MapOperation::Remove { key: b.clone() });
        v.push(MapOperation::Update { key: b.clone(), value: good.clone() });
        v.push(MapOperation::Update { key: good.clone(), value: b.clone() });
    }
    v
}

pub fn mm_map<A, B, C, D>(m: &MapMessage<A, B>, fk: impl Fn(&A) -> C, fv: impl Fn(&B) -> D) -> MapMessage<C, D> {
    match m {
        MapMessage::Update { key, value } => MapMessage::Update { key: fk(key), value: fv(value) },
        MapMessage::Remove { key } => MapMessage::Remove { key: fk(key) },
        MapMessage::Clear => MapMessage::Clear,
        MapMessage::Take(n) => MapMessage::Take(*n),
        MapMessage::Drop(n) => MapMessage::Drop(*n),
    }
}

pub fn mo_map<A, B, C, D>(m: &MapOperation<A, B>, fk: impl Fn(&A) -> C, fv: impl Fn(&B) -> D) -> MapOperation<C, D> {
    match m {
        MapOperation::Update { key, value } => MapOperation::Update { key: fk(key), value: fv(value) },
        MapOperation::Remove { key } => MapOperation::Remove { key: fk(key) },
        MapOperation::Clear => MapOperation::Clear,
    }
}

pub fn mm_typed(m: &MM) -> MapMessage<Value, Value> {
    mm_map(m, P::val, P::val)
}
pub fn mo_typed(m: &MO) -> MapOperation<Value, Value> {
    mo_map(m, P::val, P::val)
}
pub fn mm_from_raw(m: MapMessage<BytesMut, BytesMut>) -> MM {
    mm_map(&m, |b| P::from_bytes(b.as_ref()), |b| P::from_bytes(b.as_ref()))
}
pub fn mm_from_typed(m: MapMessage<Value, Value>) -> MM {
    mm_map(&m, |v| P::from_value(v.clone()), |v| P::from_value(v.clone()))
}
pub fn mo_from_raw(m: MapOperation<BytesMut, BytesMut>) -> MO {
    mo_map(&m, |b| P::from_bytes(b.as_ref()), |b| P::from_bytes(b.as_ref()))
}
pub fn mo_from_typed(m: MapOperation<Value, Value>) -> MO {
    mo_map(&m, |v| P::from_value(v.clone()), |v| P::from_value(v.clone()))
}

pub type V2 = (String, String);

fn v2(k: &str, a: String) -> V2 {
    (k.to_string(), a)
}

/// Prefix the constructor kind of a wrapped message.
fn wrap(outer: &str, inner: V2) -> V2 {
    if inner.0.is_empty() {
        (outer.to_string(), inner.1)
    } else {
        (format!("{}.{}", outer, inner.0), inner.1)
    }
}

pub fn mm_variant(m: &MM) -> V2 {
    let n = |n: &u64| if *n == u64::MAX { "MAX".to_string() } else { n.to_string() };
    match m {
        MapMessage::Update { key, value } => v2("Update", format!("key={},value={}", key.show(), value.show())),
        MapMessage::Remove { key } => v2("Remove", format!("key={}", key.show())),
        MapMessage::Clear => v2("Clear", String::new()),
        MapMessage::Take(x) => v2("Take", n(x)),
        MapMessage::Drop(x) => v2("Drop", n(x)),
    }
}

pub fn mo_variant(m: &MO) -> V2 {
    match m {
        MapOperation::Update { key, value } => v2("Update", format!("key={},value={}", key.show(), value.show())),
        MapOperation::Remove { key } => v2("Remove", format!("key={}", key.show())),
        MapOperation::Clear => v2("Clear", String::new()),
    }
}

pub fn p_variant(p: &P) -> V2 {
    (String::new(), p.show())
}

// ---------------------------------------------------------------- lane requests / responses

pub fn lane_request_pool<T: Clone>(bodies: &[T]) -> Vec<LaneRequest<T>> {
    let mut v = vec![LaneRequest::InitComplete];
    for id in uuids() {
        v.push(LaneRequest::Sync(id));
    }
    for b in bodies {
        v.push(LaneRequest::Command(b.clone()));
    }
    v
}

pub fn lane_response_pool<T: Clone>(bodies: &[T]) -> Vec<LaneResponse<T>> {
    let mut v = vec![LaneResponse::Initialized];
    for id in uuids() {
        v.push(LaneResponse::Synced(id));
    }
    for b in bodies {
        v.push(LaneResponse::StandardEvent(b.clone()));
    }
    for (n, id) in uuids().into_iter().rev().enumerate() {
        for (i, b) in bodies.iter().enumerate() {
            // the second uuid only with the first bodies (uuid and body are independent fields)
            if n == 0 || i < 2 {
                v.push(LaneResponse::SyncEvent(id, b.clone()));
            }
        }
    }
    v
}

pub fn lreq_map<A, B>(m: &LaneRequest<A>, f: impl Fn(&A) -> B) -> LaneRequest<B> {
    match m {
        LaneRequest::Command(a) => LaneRequest::Command(f(a)),
        LaneRequest::InitComplete => LaneRequest::InitComplete,
        LaneRequest::Sync(id) => LaneRequest::Sync(*id),
    }
}

pub fn lresp_map<A, B>(m: &LaneResponse<A>, f: impl Fn(&A) -> B) -> LaneResponse<B> {
    match m {
        LaneResponse::StandardEvent(a) => LaneResponse::StandardEvent(f(a)),
        LaneResponse::Initialized => LaneResponse::Initialized,
        LaneResponse::SyncEvent(id, a) => LaneResponse::SyncEvent(*id, f(a)),
        LaneResponse::Synced(id) => LaneResponse::Synced(*id),
    }
}

pub fn lreq_variant<A>(m: &LaneRequest<A>, f: impl Fn(&A) -> V2) -> V2 {
    match m {
        LaneRequest::Command(a) => wrap("Command", f(a)),
        LaneRequest::InitComplete => v2("InitComplete", String::new()),
        LaneRequest::Sync(id) => v2("Sync", format!("uuid={}", u(id))),
    }
}

pub fn lresp_variant<A>(m: &LaneResponse<A>, f: impl Fn(&A) -> V2) -> V2 {
    match m {
        LaneResponse::StandardEvent(a) => wrap("StandardEvent", f(a)),
        LaneResponse::Initialized => v2("Initialized", String::new()),
        LaneResponse::SyncEvent(id, a) => {
            let (k, a) = wrap("SyncEvent", f(a));
            (k, format!("uuid={},{}", u(id), a))
        }
        LaneResponse::Synced(id) => v2("Synced", format!("uuid={}", u(id))),
    }
}

// ---------------------------------------------------------------- stores

pub fn store_init_pool<T: Clone>(bodies: &[T]) -> Vec<StoreInitMessage<T>> {
    let mut v = vec![StoreInitMessage::InitComplete];
    for b in bodies {
        v.push(StoreInitMessage::Command(b.clone()));
    }
    v
}

pub fn sinit_map<A, B>(m: &StoreInitMessage<A>, f: impl Fn(&A) -> B) -> StoreInitMessage<B> {
    match m {
        StoreInitMessage::Command(a) => StoreInitMessage::Command(f(a)),
        StoreInitMessage::InitComplete => StoreInitMessage::InitComplete,
    }
}

pub fn sinit_variant<A>(m: &StoreInitMessage<A>, f: impl Fn(&A) -> V2) -> V2 {
    match m {
        StoreInitMessage::Command(a) => wrap("Command", f(a)),
        StoreInitMessage::InitComplete => v2("InitComplete", String::new()),
    }
}

pub fn sresp_variant<A>(m: &StoreResponse<A>, f: impl Fn(&A) -> V2) -> V2 {
    wrap("StoreResponse", f(&m.message))
}

pub fn sresp_map<A, B>(m: &StoreResponse<A>, f: impl Fn(&A) -> B) -> StoreResponse<B> {
    StoreResponse { message: f(&m.message) }
}

pub fn store_initialized_pool() -> Vec<StoreInitialized> {
    vec![StoreInitialized]
}

// ---------------------------------------------------------------- downlinks

pub fn notification_pool<T: Clone>(bodies: &[T]) -> Vec<DownlinkNotification<T>> {
    let mut v = vec![DownlinkNotification::Linked, DownlinkNotification::Synced, DownlinkNotification::Unlinked];
    for b in bodies {
        v.push(DownlinkNotification::Event { body: b.clone() });
    }
    v
}

pub fn notif_map<A, B>(m: &DownlinkNotification<A>, f: impl Fn(&A) -> B) -> DownlinkNotification<B> {
    match m {
        DownlinkNotification::Linked => DownlinkNotification::Linked,
        DownlinkNotification::Synced => DownlinkNotification::Synced,
        DownlinkNotification::Unlinked => DownlinkNotification::Unlinked,
        DownlinkNotification::Event { body } => DownlinkNotification::Event { body: f(body) },
    }
}

pub fn notif_variant<A>(m: &DownlinkNotification<A>, f: impl Fn(&A) -> V2) -> V2 {
    match m {
        DownlinkNotification::Linked => v2("Linked", String::new()),
        DownlinkNotification::Synced => v2("Synced", String::new()),
        DownlinkNotification::Unlinked => v2("Unlinked", String::new()),
        DownlinkNotification::Event { body } => wrap("Event", f(body)),
    }
}

/// `DownlinkOperation` has no `Clone`.
#[derive(Clone, Debug, PartialEq)]
pub struct DlOp(pub P);

pub fn dlop_item(m: &DlOp) -> DownlinkOperation<Value> {
    DownlinkOperation::new(m.0.val())
}

// ---------------------------------------------------------------- ad hoc commands

pub type CM = CommandMessage<String, P>;

pub fn addresses() -> Vec<Address<String>> {
    vec![
        Address::new(None, "/n".to_string(), "ln".to_string()),
        Address::new(Some("h\u{e9}".to_string()), "/n".to_string(), "ln".to_string()),
        Address::new(None, "/n".to_string(), String::new()),
        Address::new(Some(String::new()), String::new(), String::new()),
    ]
}

/// Every constructor with every body and both flag values on the first address / id; the other
/// addresses and ids (independent header fields) with one body each.
pub fn command_pool(bodies: &[P]) -> Vec<CM> {
    let mut v = vec![];
    let ad = addresses();
    for a in &ad {
        v.push(CommandMessage::Register { address: a.clone(), id: 0x0102 });
    }
    for id in [0u16, u16::MAX] {
        v.push(CommandMessage::Register { address: ad[0].clone(), id });
    }
    for b in bodies {
        for ow in [false, true] {
            v.push(CommandMessage::Registered { target: 0x0102, command: b.clone(), overwrite_permitted: ow });
        }
    }
    for id in [0u16, u16::MAX] {
        v.push(CommandMessage::Registered { target: id, command: bodies[1].clone(), overwrite_permitted: false });
    }
    for b in bodies {
        for ow in [false, true] {
            v.push(CommandMessage::Addressed { target: ad[0].clone(), command: b.clone(), overwrite_permitted: ow });
        }
    }
    for a in &ad[1..] {
        v.push(CommandMessage::Addressed { target: a.clone(), command: bodies[1].clone(), overwrite_permitted: false });
    }
    v
}

pub fn bad_command_pool() -> Vec<CM> {
    let mut v = vec![];
    for b in bad_payloads() {
        v.push(CommandMessage::Registered { target: 1, command: b.clone(), overwrite_permitted: false });
        v.push(CommandMessage::Addressed {
            target: Address::new(None, "/n".to_string(), "ln".to_string()),
            command: b,
            overwrite_permitted: true,
        });
    }
    v
}

pub fn cm_map<S, A, S2, B>(m: &CommandMessage<S, A>, fs: impl Fn(&S) -> S2, f: impl Fn(&A) -> B) -> CommandMessage<S2, B> {
    let fa = |a: &Address<S>| Address::new(a.host.as_ref().map(&fs), fs(&a.node), fs(&a.lane));
    match m {
        CommandMessage::Register { address, id } => CommandMessage::Register { address: fa(address), id: *id },
        CommandMessage::Addressed { target, command, overwrite_permitted } => {
            CommandMessage::Addressed { target: fa(target), command: f(command), overwrite_permitted: *overwrite_permitted }
        }
        CommandMessage::Registered { target, command, overwrite_permitted } => {
            CommandMessage::Registered { target: *target, command: f(command), overwrite_permitted: *overwrite_permitted }
        }
    }
}

fn addr_show(a: &Address<String>) -> String {
    format!(
        "host={},node={}B,lane={}B",
        match &a.host {
            None => "none".to_string(),
            Some(h) => format!("{}B", h.len()),
        },
        a.node.len(),
        a.lane.len()
    )
}

pub fn cm_variant(m: &CM) -> V2 {
    match m {
        CommandMessage::Register { address, id } => v2("Register", format!("{},id={}", addr_show(address), id)),
        CommandMessage::Addressed { target, command, overwrite_permitted } => {
            v2("Addressed", format!("{},body={},ow={}", addr_show(target), command.show(), overwrite_permitted))
        }
        CommandMessage::Registered { target, command, overwrite_permitted } => {
            v2("Registered", format!("id={},body={},ow={}", target, command.show(), overwrite_permitted))
        }
    }
}

// ---------------------------------------------------------------- routed request / response

pub type RQ = RequestMessage<String, P>;
pub type RS = ResponseMessage<String, P, P>;

pub fn paths() -> Vec<RelativeAddress<String>> {
    vec![
        RelativeAddress::new("/n".to_string(), "l\u{e9}".to_string()),
        RelativeAddress::new("/n".to_string(), String::new()),
        RelativeAddress::new(String::new(), "a".to_string()),
    ]
}

/// Every envelope on the first path with uuid MAX; uuid 0 and the other paths (independent header
/// fields) with `Link` and one command each.
pub fn request_pool(bodies: &[P]) -> Vec<RQ> {
    let mut v = vec![];
    let ps = paths();
    let mut envs = vec![Operation::Link, Operation::Sync, Operation::Unlink];
    for b in bodies {
        envs.push(Operation::Command(b.clone()));
    }
    for envelope in envs {
        v.push(RequestMessage { origin: Uuid::from_u128(u128::MAX), path: ps[0].clone(), envelope });
    }
    for (origin, path) in [(Uuid::from_u128(0), ps[0].clone()), (Uuid::from_u128(u128::MAX), ps[1].clone()), (Uuid::from_u128(0), ps[2].clone())] {
        v.push(RequestMessage { origin, path: path.clone(), envelope: Operation::Link });
        v.push(RequestMessage { origin, path, envelope: Operation::Command(bodies[1].clone()) });
    }
    v
}

pub fn bad_request_pool() -> Vec<RQ> {
    bad_payloads()
        .into_iter()
        .map(|b| RequestMessage {
            origin: Uuid::from_u128(5),
            path: RelativeAddress::new("/n".to_string(), "l".to_string()),
            envelope: Operation::Command(b),
        })
        .collect()
}

pub fn response_pool(bodies: &[P], unlinked_bodies: &[P]) -> Vec<RS> {
    let mut v = vec![];
    let ps = paths();
    let mut envs = vec![Notification::Linked, Notification::Synced, Notification::Unlinked(None)];
    for b in unlinked_bodies {
        envs.push(Notification::Unlinked(Some(b.clone())));
    }
    for b in bodies {
        envs.push(Notification::Event(b.clone()));
    }
    for envelope in envs {
        v.push(ResponseMessage { origin: Uuid::from_u128(u128::MAX), path: ps[0].clone(), envelope });
    }
    for (origin, path) in [(Uuid::from_u128(0), ps[0].clone()), (Uuid::from_u128(u128::MAX), ps[1].clone()), (Uuid::from_u128(0), ps[2].clone())] {
        v.push(ResponseMessage { origin, path: path.clone(), envelope: Notification::Linked });
        v.push(ResponseMessage { origin, path, envelope: Notification::Event(bodies[1].clone()) });
    }
    v
}

pub fn rq_map<S, A, S2, B>(m: &RequestMessage<S, A>, fs: impl Fn(&S) -> S2, f: impl Fn(&A) -> B) -> RequestMessage<S2, B> {
    RequestMessage {
        origin: m.origin,
        path: RelativeAddress::new(fs(&m.path.node), fs(&m.path.lane)),
        envelope: match &m.envelope {
            Operation::Link => Operation::Link,
            Operation::Sync => Operation::Sync,
            Operation::Unlink => Operation::Unlink,
            Operation::Command(a) => Operation::Command(f(a)),
        },
    }
}

pub fn rs_map<S, A, U, S2, B, U2>(
    m: &ResponseMessage<S, A, U>,
    fs: impl Fn(&S) -> S2,
    f: impl Fn(&A) -> B,
    fu: impl Fn(&U) -> U2,
) -> ResponseMessage<S2, B, U2> {
    ResponseMessage {
        origin: m.origin,
        path: RelativeAddress::new(fs(&m.path.node), fs(&m.path.lane)),
        envelope: match &m.envelope {
            Notification::Linked => Notification::Linked,
            Notification::Synced => Notification::Synced,
            Notification::Unlinked(b) => Notification::Unlinked(b.as_ref().map(fu)),
            Notification::Event(a) => Notification::Event(f(a)),
        },
    }
}

fn path_show(p: &RelativeAddress<String>) -> String {
    format!("node={}B,lane={}B", p.node.len(), p.lane.len())
}

pub fn rq_variant(m: &RQ) -> V2 {
    let (k, b) = match &m.envelope {
        Operation::Link => ("Link", String::new()),
        Operation::Sync => ("Sync", String::new()),
        Operation::Unlink => ("Unlink", String::new()),
        Operation::Command(b) => ("Command", format!("body={},", b.show())),
    };
    v2(k, format!("{}uuid={},{}", b, u(&m.origin), path_show(&m.path)))
}

pub fn rs_variant(m: &RS) -> V2 {
    let (k, b) = match &m.envelope {
        Notification::Linked => ("Linked", String::new()),
        Notification::Synced => ("Synced", String::new()),
        Notification::Unlinked(None) => ("Unlinked.None", String::new()),
        Notification::Unlinked(Some(b)) => ("Unlinked.Some", format!("body={},", b.show())),
        Notification::Event(b) => ("Event", format!("body={},", b.show())),
    };
    v2(k, format!("{}uuid={},{}", b, u(&m.origin), path_show(&m.path)))
}

//! Allocation guard. A corrupt length must not make a decoder request an enormous buffer
//! (`BytesMut::reserve(len)` with `len` taken from the wire). A real request of that size would
//! abort the process (`handle_alloc_error`), so the harness installs a global allocator that
//! *records* every single request above `CAP` in a thread-local and satisfies it with a small
//! block (`FAKE` bytes, or the old size when growing). The engine looks at the thread-local after every call into a decoder and ends the
//! case at once (nothing writes into the over-promised buffer: decoders only read from `src`), so
//! the lie is never observable by the subject. Requests above `isize::MAX` never reach the
//! allocator; they panic with "capacity overflow" and are classified by the engine.

use std::alloc::{GlobalAlloc, Layout, System};
use std::cell::Cell;

pub const CAP: usize = 64 << 20;
/// What a request above `CAP` really gets. The system allocator ignores the size passed to
/// `dealloc`/`realloc` (`free`/`realloc` of libc), which is what makes the substitution possible.
const FAKE: usize = 64 << 10;

thread_local! {
    static HUGE: Cell<usize> = const { Cell::new(0) };
}

pub struct Guarded;

#[inline]
fn note(n: usize) {
    let _ = HUGE.try_with(|h| {
        if n > h.get() {
            h.set(n)
        }
    });
}

/// Largest single allocation request above `CAP` made on this thread since the last call.
pub fn take_huge() -> usize {
    HUGE.try_with(|h| h.replace(0)).unwrap_or(0)
}

#[inline]
fn fake(l: Layout) -> Layout {
    unsafe { Layout::from_size_align_unchecked(FAKE, l.align()) }
}

unsafe impl GlobalAlloc for Guarded {
    unsafe fn alloc(&self, l: Layout) -> *mut u8 {
        if l.size() > CAP {
            note(l.size());
            System.alloc(fake(l))
        } else {
            System.alloc(l)
        }
    }
    unsafe fn alloc_zeroed(&self, l: Layout) -> *mut u8 {
        if l.size() > CAP {
            note(l.size());
            System.alloc_zeroed(fake(l))
        } else {
            System.alloc_zeroed(l)
        }
    }
    unsafe fn dealloc(&self, p: *mut u8, l: Layout) {
        if l.size() > CAP {
            System.dealloc(p, fake(l))
        } else {
            System.dealloc(p, l)
        }
    }
    unsafe fn realloc(&self, p: *mut u8, l: Layout, new: usize) -> *mut u8 {
        match (l.size() > CAP, new > CAP) {
            (false, false) => System.realloc(p, l, new),
            (false, true) => {
                note(new);
                System.realloc(p, l, FAKE.max(l.size()))
            }
            (true, true) => {
                note(new);
                p
            }
            (true, false) => System.realloc(p, fake(l), new),
        }
    }
}

/* Deterministic getrandom/getentropy interposer for the verification harness.
 * std's RandomState (HashMap/HashSet seeds) and the `rand`/`getrandom` crates obtain their
 * entropy through these libc symbols; making them constant (a function of VERIF_SEED) makes hash
 * iteration order and websocket masking keys identical in every execution and every process, so a
 * recorded schedule replays identically. Loaded with LD_PRELOAD by /verif/check only. */
#define _GNU_SOURCE
#include <stddef.h>
#include <stdlib.h>
#include <string.h>
#include <sys/types.h>

static unsigned char seed_byte(void) {
    const char *s = getenv("VERIF_SEED");
    unsigned long v = s ? strtoul(s, NULL, 10) : 0;
    return (unsigned char)(0x5a ^ (v & 0xff) ^ ((v >> 8) & 0xff));
}

ssize_t getrandom(void *buf, size_t buflen, unsigned int flags) {
    (void)flags;
    memset(buf, seed_byte(), buflen);
    return (ssize_t)buflen;
}

int getentropy(void *buf, size_t buflen) {
    memset(buf, seed_byte(), buflen);
    return 0;
}

//! Engine E3 source binding: the loom leg checks the actual source text of
//! swimos_utilities/swimos_byte_channel/src/channel/mod.rs with the mutex and the reference
//! count redirected to loom (through a shim with parking_lot's calling convention).
use std::{env, fs, path::PathBuf};

fn main() {
    let manifest = PathBuf::from(env::var("CARGO_MANIFEST_DIR").unwrap());
    let src = manifest.join("../../subject/swimos_utilities/swimos_byte_channel/src/channel/mod.rs");
    println!("cargo:rerun-if-changed={}", src.display());
    let text = fs::read_to_string(&src).expect("cannot read channel/mod.rs");
    let mut out = String::new();
    let mut rewrote = 0;
    for line in text.lines() {
        let t = line.trim();
        if t == "use parking_lot::Mutex;" {
            out.push_str("use super::chan_shim::Mutex;\n");
            rewrote += 1;
            continue;
        }
        if t == "use std::sync::Arc;" {
            out.push_str("use loom::sync::Arc;\n");
            rewrote += 1;
            continue;
        }
        if t == "mod tests;" || t == "#[cfg(test)]" {
            continue;
        }
        if t.starts_with("//") && !t.starts_with("///") {
            continue;
        }
        out.push_str(line);
        out.push('\n');
    }
    assert!(rewrote == 2, "channel/mod.rs: expected 2 rewritten imports, found {}", rewrote);
    for needle in ["pub fn byte_channel(", "impl Drop for ByteReader", "impl Drop for ByteWriter", "fn close_channel(&mut self)", "fn poll_write("] {
        assert!(out.contains(needle), "channel/mod.rs no longer contains `{}`", needle);
    }
    let dst = PathBuf::from(env::var("OUT_DIR").unwrap()).join("channel_loom.rs");
    fs::write(dst, out).unwrap();
}

//! C12, engine E2: op-level explicit-state search over the real `ByteReader` / `ByteWriter`.
//!
//! Two logical tasks (one reader, one writer) are explicit state machines. A *logical poll* of a
//! task is a run of channel operations made with one waker and one coop budget (set the way
//! `RunWithBudget` sets it: at the start of the poll); it ends when an operation returns
//! `Pending` (the task then waits for its waker) or when the task yields voluntarily. The
//! operations of the two tasks interleave freely (two threads, each with its own thread-local
//! budget: the harness runs on one thread and therefore restores the task's own budget residue,
//! through the public `RunWithBudget::with_budget`, before each operation).
//!
//! The channel is not `Clone`: a state is the operation history, replayed on a fresh channel.

use std::future::Future;
use std::io::ErrorKind;
use std::num::NonZeroUsize;
use std::panic::{catch_unwind, AssertUnwindSafe};
use std::pin::Pin;
use std::sync::atomic::{AtomicU64, Ordering};
use std::sync::Arc;
use std::task::{Context, Poll};

use swimos_byte_channel::{byte_channel, BudgetedFutureExt, ByteReader, ByteWriter};
use tokio::io::{AsyncRead, AsyncWrite, ReadBuf};
use vcommon::sched::WakeFlag;

pub static IMPL_CALLS: AtomicU64 = AtomicU64::new(0);
pub static BUDGET_MODEL_MISMATCHES: AtomicU64 = AtomicU64::new(0);
pub static BUDGET_YIELDS: AtomicU64 = AtomicU64::new(0);

#[derive(Clone, Copy, PartialEq, Eq, Hash, Debug)]
pub enum Op {
    Read(u8),
    Write(u8),
    Flush,
    Shutdown,
    DropR,
    DropW,
    /// Re-poll of the pending, *not woken* reader with a fresh waker (same request).
    SpurR,
    SpurW,
    /// The task ends its logical poll voluntarily (next operation: new waker, budget reset).
    YieldR,
    YieldW,
}

impl Op {
    pub fn name(&self) -> String {
        match self {
            Op::Read(n) => format!("read({})", n),
            Op::Write(n) => format!("write({})", n),
            Op::Flush => "flush".into(),
            Op::Shutdown => "shutdown".into(),
            Op::DropR => "drop_reader".into(),
            Op::DropW => "drop_writer".into(),
            Op::SpurR => "spurious_repoll_reader".into(),
            Op::SpurW => "spurious_repoll_writer".into(),
            Op::YieldR => "yield_reader".into(),
            Op::YieldW => "yield_writer".into(),
        }
    }
    pub fn parse(s: &str) -> Option<Op> {
        let num = |p: &str| s.strip_prefix(p).and_then(|r| r.strip_suffix(')')).and_then(|n| n.parse::<u8>().ok());
        Some(match s {
            "flush" => Op::Flush,
            "shutdown" => Op::Shutdown,
            "drop_reader" => Op::DropR,
            "drop_writer" => Op::DropW,
            "spurious_repoll_reader" => Op::SpurR,
            "spurious_repoll_writer" => Op::SpurW,
            "yield_reader" => Op::YieldR,
            "yield_writer" => Op::YieldW,
            _ => {
                if let Some(n) = num("read(") {
                    Op::Read(n)
                } else if let Some(n) = num("write(") {
                    Op::Write(n)
                } else {
                    return None;
                }
            }
        })
    }
    /// Operation kind without sizes (used in signatures).
    pub fn kind(&self) -> &'static str {
        match self {
            Op::Read(_) => "read",
            Op::Write(_) => "write",
            Op::Flush => "flush",
            Op::Shutdown => "shutdown",
            Op::DropR => "drop_reader",
            Op::DropW => "drop_writer",
            Op::SpurR => "spurious_repoll_reader",
            Op::SpurW => "spurious_repoll_writer",
            Op::YieldR => "yield_reader",
            Op::YieldW => "yield_writer",
        }
    }
}

#[derive(Clone, Copy, Debug, PartialEq, Eq)]
pub struct Cfg {
    pub cap: usize,
    pub budget: usize,
    /// Total number of bytes the writer may offer (bytes are 0,1,2,...).
    pub total: usize,
    /// Maximum number of channel operations inside one logical poll.
    pub k: u8,
    /// Largest read / write request size.
    pub max_req: u8,
}

#[derive(Clone, Copy, PartialEq, Eq, Hash, Debug)]
pub enum Req {
    Read(u8),
    Write(u8),
    Flush,
    Shutdown,
}

/// Harness-side status of a logical task.
#[derive(Clone, Copy, PartialEq, Eq, Hash, Debug)]
enum St {
    /// Not waiting. `ops` channel operations were made in the current logical poll (0 = a new
    /// poll starts with the next operation), `res` is the budget residue of the poll.
    Run { ops: u8, res: u8 },
    /// The last operation returned `Pending`; the task waits for `flag`.
    Pend { req: Req },
    Gone,
}

#[derive(Clone, Copy, PartialEq, Eq, Hash, Debug)]
pub enum SideSnap {
    Gone,
    /// `res` is canonical: 255 when the budget cannot run out within the rest of this poll.
    Run { ops: u8, res: u8 },
    Pend { req: Req, woken: bool },
}

/// Canonical state key: reference-model counters plus everything of the real object that is
/// observable (closed flag through `is_closed`, waker-slot owner through `Arc` counts).
#[derive(Clone, PartialEq, Eq, Hash, Debug)]
pub struct Snap {
    pub written: u8,
    pub read: u8,
    pub reader_dropped: bool,
    pub writer_dropped: bool,
    pub shutdown: bool,
    /// `ByteWriter::is_closed()`: 0/1, 2 = writer gone.
    pub closed_obs: u8,
    /// bit 0: slot holds the reader's current waker, bit 1: the writer's, bit 2: a stale one.
    pub slot: u8,
    pub r: SideSnap,
    pub w: SideSnap,
}

impl Snap {
    pub fn nontrivial(&self) -> bool {
        matches!(self.r, SideSnap::Pend { .. }) || matches!(self.w, SideSnap::Pend { .. })
    }
}

#[derive(Clone, Debug)]
pub struct Viol {
    pub sig: String,
    pub expl: String,
}

fn viol<T>(sig: String, expl: String) -> Result<T, Viol> {
    Err(Viol { sig, expl })
}

pub struct Sim {
    cfg: Cfg,
    reader: Option<ByteReader>,
    writer: Option<ByteWriter>,
    written: usize,
    read: usize,
    shutdown: bool,
    r_st: St,
    w_st: St,
    r_flag: Arc<WakeFlag>,
    w_flag: Arc<WakeFlag>,
    stale: Vec<Arc<WakeFlag>>,
    pub trace: Option<Vec<String>>,
}

fn byte_at(i: usize) -> u8 {
    (i & 0xff) as u8
}

/// One channel operation made the way a task wrapped in `RunWithBudget` makes it: the
/// thread-local budget is (re)set to `res` by the real `RunWithBudget::poll`, then the operation
/// runs with the task's waker.
fn poll_budgeted<T>(res: usize, flag: &Arc<WakeFlag>, mut f: impl FnMut(&mut Context<'_>) -> Poll<T>) -> Poll<T> {
    let waker = flag.waker();
    let mut cx = Context::from_waker(&waker);
    let fut = std::future::poll_fn(move |cx| Poll::Ready(f(cx))).with_budget(NonZeroUsize::new(res.max(1)).unwrap());
    let mut fut = std::pin::pin!(fut);
    IMPL_CALLS.fetch_add(1, Ordering::Relaxed);
    match fut.as_mut().poll(&mut cx) {
        Poll::Ready(p) => p,
        Poll::Pending => unreachable!("RunWithBudget adds no Pending of its own"),
    }
}

impl Sim {
    pub fn new(cfg: Cfg, trace: bool) -> Sim {
        let (w, r) = byte_channel(NonZeroUsize::new(cfg.cap).expect("capacity >= 1 (NonZeroUsize)"));
        Sim {
            cfg,
            reader: Some(r),
            writer: Some(w),
            written: 0,
            read: 0,
            shutdown: false,
            r_st: St::Run { ops: 0, res: 0 },
            w_st: St::Run { ops: 0, res: 0 },
            r_flag: WakeFlag::new(false),
            w_flag: WakeFlag::new(false),
            stale: vec![],
            trace: if trace { Some(vec![]) } else { None },
        }
    }

    fn buffered(&self) -> usize {
        self.written - self.read
    }
    fn writer_closed(&self) -> bool {
        self.writer.is_none() || self.shutdown
    }
    fn reader_dropped(&self) -> bool {
        self.reader.is_none()
    }
    fn registered(flag: &Arc<WakeFlag>) -> bool {
        Arc::strong_count(flag) > 1
    }

    fn side_snap(&self, st: St, flag: &Arc<WakeFlag>) -> SideSnap {
        match st {
            St::Gone => SideSnap::Gone,
            St::Pend { req } => SideSnap::Pend { req, woken: flag.is_set() },
            St::Run { ops, res } => {
                if ops == 0 {
                    SideSnap::Run { ops: 0, res: 255 }
                } else {
                    // at most k - ops further operations in this poll; the budget runs out at
                    // the res-th of them
                    let remaining = self.cfg.k.saturating_sub(ops);
                    SideSnap::Run { ops, res: if res > remaining { 255 } else { res } }
                }
            }
        }
    }

    pub fn snap(&self) -> Snap {
        let mut slot = 0u8;
        if !matches!(self.r_st, St::Gone) && Self::registered(&self.r_flag) {
            slot |= 1;
        }
        if !matches!(self.w_st, St::Gone) && Self::registered(&self.w_flag) {
            slot |= 2;
        }
        if self.stale.iter().any(Self::registered) {
            slot |= 4;
        }
        Snap {
            written: self.written as u8,
            read: self.read as u8,
            reader_dropped: self.reader.is_none(),
            writer_dropped: self.writer.is_none(),
            shutdown: self.shutdown,
            closed_obs: match &self.writer {
                Some(w) => w.is_closed() as u8,
                None => 2,
            },
            slot,
            r: self.side_snap(self.r_st, &self.r_flag),
            w: self.side_snap(self.w_st, &self.w_flag),
        }
    }

    /// Start (or continue) the logical poll of a side: (waker flag, budget at operation start,
    /// operations already made in this poll).
    fn begin(&mut self, reader_side: bool) -> (Arc<WakeFlag>, usize, u8) {
        let st = if reader_side { self.r_st } else { self.w_st };
        match st {
            St::Run { ops, res } if ops > 0 => {
                let f = if reader_side { self.r_flag.clone() } else { self.w_flag.clone() };
                (f, res as usize, ops)
            }
            _ => {
                let f = WakeFlag::new(false);
                let old = if reader_side {
                    std::mem::replace(&mut self.r_flag, f.clone())
                } else {
                    std::mem::replace(&mut self.w_flag, f.clone())
                };
                self.stale.push(old);
                (f, self.cfg.budget, 0)
            }
        }
    }

    /// Book-keeping common to all polled operations. `ready_possible`: by the reference model
    /// the channel itself would not have returned `Pending`.
    fn after_poll(&mut self, reader_side: bool, req: Req, pending: bool, res: usize, ops: u8, ready_possible: bool, flag: &Arc<WakeFlag>) -> Result<(), Viol> {
        let expect_yield = res == 1;
        if expect_yield && pending {
            BUDGET_YIELDS.fetch_add(1, Ordering::Relaxed);
            if !flag.is_set() {
                return viol(
                    "law=no_lost_wakeup cond=budget_yield_without_self_wake".into(),
                    format!(
                        "{:?} returned Pending because the coop budget ({}) ran out, but the task's waker was not woken: the task is never polled again",
                        req, self.cfg.budget
                    ),
                );
            }
        }
        if (expect_yield && !pending) || (!expect_yield && pending && ready_possible && flag.is_set()) {
            BUDGET_MODEL_MISMATCHES.fetch_add(1, Ordering::Relaxed);
        }
        let st = if pending {
            St::Pend { req }
        } else {
            let nres = if res <= 1 { 64 } else { res - 1 };
            St::Run { ops: ops + 1, res: nres as u8 }
        };
        if reader_side {
            self.r_st = st;
        } else {
            self.w_st = st;
        }
        Ok(())
    }

    fn tr(&mut self, s: String) {
        if let Some(t) = self.trace.as_mut() {
            t.push(s);
        }
    }

    fn do_read(&mut self, r: u8, op: Op) -> Result<(), Viol> {
        let (flag, res, ops) = self.begin(true);
        let buffered = self.buffered();
        let wclosed = self.writer_closed();
        let mut arr = [0xEEu8; 16];
        let reader = self.reader.as_mut().expect("reader alive");
        let out = catch_unwind(AssertUnwindSafe(|| {
            let mut rb = ReadBuf::new(&mut arr[..r as usize]);
            let p = poll_budgeted(res, &flag, |cx| Pin::new(&mut *reader).poll_read(cx, &mut rb));
            (p.map(|x| x.map_err(|e| e.kind())), rb.filled().len())
        }));
        let (p, filled) = match out {
            Ok(x) => x,
            Err(_) => return viol(format!("law=no_panic op={}", op.kind()), "poll_read panicked".into()),
        };
        self.tr(format!("{} budget_at_start={} -> {:?} filled={:?} woken={}", op.name(), res, p, &arr[..filled], flag.is_set()));
        match p {
            Poll::Pending => {
                if filled != 0 {
                    return viol(
                        "law=lossless cond=pending_read_consumed_data".into(),
                        format!("poll_read returned Pending but put {} bytes into the buffer", filled),
                    );
                }
            }
            Poll::Ready(Err(k)) => {
                return viol("law=read_never_errors".into(), format!("poll_read returned Err({:?})", k));
            }
            Poll::Ready(Ok(())) => {
                if filled > buffered {
                    return viol(
                        "law=fifo_prefix cond=read_more_than_written".into(),
                        format!("read {} bytes with only {} written and unread", filled, buffered),
                    );
                }
                for (i, b) in arr[..filled].iter().enumerate() {
                    if *b != byte_at(self.read + i) {
                        return viol(
                            "law=fifo_prefix cond=wrong_byte".into(),
                            format!("byte #{} read as {} but {} was written at that position", self.read + i, b, byte_at(self.read + i)),
                        );
                    }
                }
                if r > 0 && filled == 0 {
                    if buffered > 0 {
                        return viol(
                            "law=eof_after_remaining cond=eof_with_data_buffered".into(),
                            format!("poll_read({}) reported end-of-stream (0 bytes) while {} written bytes are unread", r, buffered),
                        );
                    }
                    if !wclosed {
                        return viol(
                            "law=eof_after_remaining cond=eof_without_close".into(),
                            "poll_read reported end-of-stream but the writer is neither dropped nor shut down".into(),
                        );
                    }
                }
                self.read += filled;
            }
        }
        let ready_possible = buffered > 0 || wclosed;
        self.after_poll(true, Req::Read(r), p.is_pending(), res, ops, ready_possible, &flag)
    }

    fn do_write(&mut self, w: u8, op: Op) -> Result<(), Viol> {
        let (flag, res, ops) = self.begin(false);
        let buffered = self.buffered();
        let space = self.cfg.cap.saturating_sub(buffered);
        let rdropped = self.reader_dropped();
        let shut = self.shutdown;
        let data: Vec<u8> = (0..w as usize).map(|i| byte_at(self.written + i)).collect();
        let writer = self.writer.as_mut().expect("writer alive");
        let out = catch_unwind(AssertUnwindSafe(|| {
            poll_budgeted(res, &flag, |cx| Pin::new(&mut *writer).poll_write(cx, &data)).map(|x| x.map_err(|e| e.kind()))
        }));
        let p = match out {
            Ok(x) => x,
            Err(_) => return viol(format!("law=no_panic op={}", op.kind()), "poll_write panicked".into()),
        };
        self.tr(format!("{} data={:?} budget_at_start={} -> {:?} woken={}", op.name(), data, res, p, flag.is_set()));
        match p {
            Poll::Pending => {}
            Poll::Ready(Ok(n)) => {
                if n > w as usize {
                    return viol("law=bounded cond=accepted_more_than_offered".into(), format!("poll_write of {} bytes returned Ok({})", w, n));
                }
                if n > space {
                    return viol(
                        "law=bounded cond=accepted_more_than_free_capacity".into(),
                        format!("capacity {}: {} bytes buffered, poll_write accepted {} more", self.cfg.cap, buffered, n),
                    );
                }
                if rdropped && w > 0 {
                    return viol(
                        "law=write_fails_after_reader_drop cond=ok".into(),
                        format!("reader dropped, poll_write of {} bytes returned Ok({})", w, n),
                    );
                }
                if shut && n > 0 {
                    return viol(
                        "law=lossless cond=write_accepted_after_shutdown".into(),
                        format!("poll_write accepted {} bytes after poll_shutdown completed", n),
                    );
                }
                if w > 0 && n == 0 && !shut {
                    return viol("law=lossless cond=write_zero".into(), format!("poll_write of {} bytes returned Ok(0) on an open channel", w));
                }
                self.written += n;
            }
            Poll::Ready(Err(k)) => {
                if !rdropped && !shut {
                    return viol(
                        "law=write_errors_only_when_closed".into(),
                        format!("poll_write returned Err({:?}) although the reader is alive and the writer did not shut down", k),
                    );
                }
                if rdropped && k != ErrorKind::BrokenPipe {
                    return viol(
                        "law=write_fails_after_reader_drop cond=wrong_error_kind".into(),
                        format!("reader dropped, poll_write returned Err({:?}), expected BrokenPipe", k),
                    );
                }
            }
        }
        let ready_possible = rdropped || shut || w == 0 || space > 0;
        self.after_poll(false, Req::Write(w), p.is_pending(), res, ops, ready_possible, &flag)
    }

    fn do_flush_or_shutdown(&mut self, shutdown: bool, op: Op) -> Result<(), Viol> {
        let (flag, res, ops) = self.begin(false);
        let rdropped = self.reader_dropped();
        let writer = self.writer.as_mut().expect("writer alive");
        let out = catch_unwind(AssertUnwindSafe(|| {
            poll_budgeted(res, &flag, |cx| {
                if shutdown {
                    Pin::new(&mut *writer).poll_shutdown(cx)
                } else {
                    Pin::new(&mut *writer).poll_flush(cx)
                }
            })
            .map(|x| x.map_err(|e| e.kind()))
        }));
        let p = match out {
            Ok(x) => x,
            Err(_) => return viol(format!("law=no_panic op={}", op.kind()), format!("{} panicked", op.name())),
        };
        self.tr(format!("{} budget_at_start={} -> {:?} woken={}", op.name(), res, p, flag.is_set()));
        match p {
            Poll::Pending => {}
            Poll::Ready(Ok(())) => {
                if shutdown {
                    self.shutdown = true;
                }
            }
            Poll::Ready(Err(k)) => {
                if !rdropped && !self.shutdown {
                    return viol(
                        format!("law={}_errors_only_when_closed", op.kind()),
                        format!("{} returned Err({:?}) on an open channel", op.name(), k),
                    );
                }
            }
        }
        let req = if shutdown { Req::Shutdown } else { Req::Flush };
        self.after_poll(false, req, p.is_pending(), res, ops, true, &flag)
    }

    /// Apply one operation to the real channel, check the per-transition oracles and the state
    /// invariant (no lost wake-up).
    pub fn apply(&mut self, op: Op) -> Result<(), Viol> {
        match op {
            Op::Read(r) => self.do_read(r, op)?,
            Op::SpurR => match self.r_st {
                St::Pend { req: Req::Read(r) } => self.do_read(r, op)?,
                other => vcommon::machinery_failure(&format!("C12: spurious reader re-poll in state {:?}", other)),
            },
            Op::Write(w) => self.do_write(w, op)?,
            Op::Flush => self.do_flush_or_shutdown(false, op)?,
            Op::Shutdown => self.do_flush_or_shutdown(true, op)?,
            Op::SpurW => match self.w_st {
                St::Pend { req: Req::Write(w) } => self.do_write(w, op)?,
                St::Pend { req: Req::Flush } => self.do_flush_or_shutdown(false, op)?,
                St::Pend { req: Req::Shutdown } => self.do_flush_or_shutdown(true, op)?,
                other => vcommon::machinery_failure(&format!("C12: spurious writer re-poll in state {:?}", other)),
            },
            Op::DropR => {
                let r = self.reader.take();
                IMPL_CALLS.fetch_add(1, Ordering::Relaxed);
                if catch_unwind(AssertUnwindSafe(move || drop(r))).is_err() {
                    return viol("law=no_panic op=drop_reader".into(), "dropping the reader panicked".into());
                }
                self.r_st = St::Gone;
                self.stale.push(self.r_flag.clone());
                self.tr("drop_reader".into());
            }
            Op::DropW => {
                let w = self.writer.take();
                IMPL_CALLS.fetch_add(1, Ordering::Relaxed);
                if catch_unwind(AssertUnwindSafe(move || drop(w))).is_err() {
                    return viol("law=no_panic op=drop_writer".into(), "dropping the writer panicked".into());
                }
                self.w_st = St::Gone;
                self.stale.push(self.w_flag.clone());
                self.tr("drop_writer".into());
            }
            Op::YieldR => {
                self.r_st = St::Run { ops: 0, res: 0 };
                self.tr("yield_reader".into());
            }
            Op::YieldW => {
                self.w_st = St::Run { ops: 0, res: 0 };
                self.tr("yield_writer".into());
            }
        }
        self.invariant(op)
    }

    /// NO LOST WAKE-UP: no side is pending with an un-woken waker while its wait condition is
    /// already satisfiable, or while nobody holds its waker any more.
    fn invariant(&mut self, after: Op) -> Result<(), Viol> {
        let s = self.snap();
        self.tr(format!("    state: written={} read={} closed_obs={} slot={:03b} reader={:?} writer={:?}", s.written, s.read, s.closed_obs, s.slot, s.r, s.w));
        if let St::Pend { req } = self.r_st {
            if !self.r_flag.is_set() {
                let cond = if self.buffered() > 0 {
                    Some("data_available")
                } else if self.writer_closed() {
                    Some("writer_closed")
                } else if !Self::registered(&self.r_flag) {
                    Some("waker_not_registered")
                } else {
                    None
                };
                if let Some(c) = cond {
                    return viol(
                        format!("law=no_lost_wakeup side=reader cond={} after={}", c, after.kind()),
                        format!(
                            "after {}: reader is pending on {:?} and its waker was not woken; buffered={} writer_dropped={} shutdown={} waker_held_by_channel={}",
                            after.name(), req, self.buffered(), self.writer.is_none(), self.shutdown, Self::registered(&self.r_flag)
                        ),
                    );
                }
            }
        }
        if let St::Pend { req } = self.w_st {
            if !self.w_flag.is_set() {
                let space = self.cfg.cap.saturating_sub(self.buffered());
                let cond = match req {
                    Req::Flush | Req::Shutdown => Some("flush_or_shutdown_never_waits"),
                    Req::Write(w) => {
                        if self.reader_dropped() {
                            Some("reader_closed")
                        } else if self.shutdown {
                            Some("channel_closed")
                        } else if w == 0 || space > 0 {
                            Some("space_available")
                        } else if !Self::registered(&self.w_flag) {
                            Some("waker_not_registered")
                        } else {
                            None
                        }
                    }
                    Req::Read(_) => None,
                };
                if let Some(c) = cond {
                    return viol(
                        format!("law=no_lost_wakeup side=writer cond={} after={}", c, after.kind()),
                        format!(
                            "after {}: writer is pending on {:?} and its waker was not woken; capacity={} buffered={} reader_dropped={} shutdown={} waker_held_by_channel={}",
                            after.name(), req, self.cfg.cap, self.buffered(), self.reader_dropped(), self.shutdown, Self::registered(&self.w_flag)
                        ),
                    );
                }
            }
        }
        Ok(())
    }
}

/// Operations enabled in a state (depends only on the canonical key).
pub fn enabled(cfg: &Cfg, s: &Snap) -> Vec<Op> {
    let mut v = vec![];
    match s.r {
        SideSnap::Gone => {}
        SideSnap::Run { ops, .. } => {
            if ops < cfg.k {
                for r in 0..=cfg.max_req {
                    v.push(Op::Read(r));
                }
            }
            if ops > 0 {
                v.push(Op::YieldR);
            }
            v.push(Op::DropR);
        }
        SideSnap::Pend { woken, .. } => {
            if woken {
                for r in 0..=cfg.max_req {
                    v.push(Op::Read(r));
                }
            } else {
                v.push(Op::SpurR);
            }
            v.push(Op::DropR);
        }
    }
    let writer_ops = |v: &mut Vec<Op>| {
        for w in 0..=cfg.max_req {
            if w == 0 || s.written as usize + w as usize <= cfg.total {
                v.push(Op::Write(w));
            }
        }
        v.push(Op::Flush);
        v.push(Op::Shutdown);
    };
    match s.w {
        SideSnap::Gone => {}
        SideSnap::Run { ops, .. } => {
            if ops < cfg.k {
                writer_ops(&mut v);
            }
            if ops > 0 {
                v.push(Op::YieldW);
            }
            v.push(Op::DropW);
        }
        SideSnap::Pend { woken, .. } => {
            if woken {
                writer_ops(&mut v);
            } else {
                v.push(Op::SpurW);
            }
            v.push(Op::DropW);
        }
    }
    v
}

/// BFS node: history + canonical key of the state it reaches.
pub struct HState {
    pub ops: Vec<Op>,
    pub snap: Snap,
}

pub fn initial(cfg: &Cfg) -> HState {
    let sim = Sim::new(*cfg, false);
    HState { ops: vec![], snap: sim.snap() }
}

/// Replay the history on a fresh channel, then apply `op`. `Err(signature)` on an oracle failure.
pub fn step(cfg: &Cfg, st: &HState, op: &Op) -> Result<HState, String> {
    let mut sim = Sim::new(*cfg, false);
    for o in &st.ops {
        if let Err(v) = sim.apply(*o) {
            vcommon::machinery_failure(&format!("C12: nondeterminism, history {:?} failed on replay: {}", st.ops, v.sig));
        }
    }
    if sim.snap() != st.snap {
        vcommon::machinery_failure(&format!("C12: nondeterminism, history {:?} reaches a different state on replay", st.ops));
    }
    match sim.apply(*op) {
        Ok(()) => {
            let mut ops = st.ops.clone();
            ops.push(*op);
            Ok(HState { ops, snap: sim.snap() })
        }
        Err(v) => Err(v.sig),
    }
}

/// Run an operation list with tracing; returns (trace, violation).
pub fn run_traced(cfg: &Cfg, ops: &[Op]) -> (Vec<String>, Option<Viol>) {
    let mut sim = Sim::new(*cfg, true);
    let mut v = None;
    for o in ops {
        // a replay file may list an operation that is not enabled any more on a changed tree
        let en = enabled(cfg, &sim.snap());
        if !en.contains(o) {
            sim.tr(format!("{}: not enabled in this state (enabled: {:?}); replay stops", o.name(), en.iter().map(|o| o.name()).collect::<Vec<_>>()));
            break;
        }
        if let Err(e) = sim.apply(*o) {
            sim.tr(format!("    VIOLATION {}: {}", e.sig, e.expl));
            v = Some(e);
            break;
        }
    }
    (sim.trace.take().unwrap_or_default(), v)
}

//! Leg `loom-channel` (E3): loom over the real source text of the byte channel. The operation
//! level legs interleave whole channel operations, which is exact as long as every access happens
//! under the channel's mutex; this leg drops that assumption for the paths where it matters most
//! (closing one end while the other parks, a write racing a read): every interleaving of the
//! individual lock, unlock and atomic steps of two threads, up to loom's preemption bound.

#[allow(dead_code, unused_imports, unexpected_cfgs, clippy::all)]
pub mod chan_shim {
    /// A lock with parking_lot's calling convention, built from a loom atomic (a yielding spin
    /// lock). `loom::sync::Mutex` is not used: loom parks every thread whose next operation is on
    /// a held mutex and records no access at the release, so a `try_lock` that fails because the
    /// lock is held is an outcome loom's own mutex can never produce; with an atomic flag the
    /// acquire, the release and a failed attempt are all visible to its partial-order reduction.
    pub struct Mutex<T> {
        locked: loom::sync::atomic::AtomicBool,
        data: std::cell::UnsafeCell<T>,
    }
    unsafe impl<T: Send> Send for Mutex<T> {}
    unsafe impl<T: Send> Sync for Mutex<T> {}
    pub struct Guard<'a, T> {
        m: &'a Mutex<T>,
    }
    impl<T> Mutex<T> {
        pub fn new(t: T) -> Self {
            Mutex { locked: loom::sync::atomic::AtomicBool::new(false), data: std::cell::UnsafeCell::new(t) }
        }
        pub fn lock(&self) -> Guard<'_, T> {
            loop {
                if let Some(g) = self.try_lock() {
                    return g;
                }
                loom::thread::yield_now();
            }
        }
        pub fn try_lock(&self) -> Option<Guard<'_, T>> {
            use loom::sync::atomic::Ordering::{Acquire, Relaxed};
            if self.locked.compare_exchange(false, true, Acquire, Relaxed).is_ok() {
                Some(Guard { m: self })
            } else {
                None
            }
        }
    }
    impl<'a, T> Drop for Guard<'a, T> {
        fn drop(&mut self) {
            self.m.locked.store(false, loom::sync::atomic::Ordering::Release);
        }
    }
    impl<'a, T> std::ops::Deref for Guard<'a, T> {
        type Target = T;
        fn deref(&self) -> &T {
            unsafe { &*self.m.data.get() }
        }
    }
    impl<'a, T> std::ops::DerefMut for Guard<'a, T> {
        fn deref_mut(&mut self) -> &mut T {
            unsafe { &mut *self.m.data.get() }
        }
    }
    impl<T> std::fmt::Debug for Mutex<T> {
        fn fmt(&self, f: &mut std::fmt::Formatter<'_>) -> std::fmt::Result {
            f.write_str("Mutex")
        }
    }
}

#[allow(dead_code, unused_imports, unexpected_cfgs, clippy::all)]
pub mod chan {
    include!(concat!(env!("OUT_DIR"), "/channel_loom.rs"));
}

use chan::{byte_channel, ByteReader, ByteWriter};
use loom::sync::atomic::{AtomicBool, AtomicUsize, Ordering};
use serde_json::json;
use std::num::NonZeroUsize;
use std::pin::Pin;
use std::sync::Arc as StdArc;
use std::task::{Context, Poll, Waker};
use std::time::Instant;
use tokio::io::{AsyncRead, AsyncWrite, ReadBuf};
use vcommon::{Ctx, Leg};

/// The waker handed to the channel. Its `clone` touches a loom atomic, so that loom has a
/// scheduling point *inside* the channel's critical section (the channel clones the waker while
/// it holds its mutex): without it a thread could never be pre-empted between taking and
/// releasing the lock, and a `try_lock` elsewhere would never see the lock held.
struct Flag {
    woken: AtomicBool,
    clones: AtomicUsize,
}

use std::task::{RawWaker, RawWakerVTable};

unsafe fn vt_clone(p: *const ()) -> RawWaker {
    let f = StdArc::from_raw(p as *const Flag);
    f.clones.fetch_add(1, Ordering::SeqCst);
    let c = f.clone();
    std::mem::forget(f);
    RawWaker::new(StdArc::into_raw(c) as *const (), &VTABLE)
}
unsafe fn vt_wake(p: *const ()) {
    let f = StdArc::from_raw(p as *const Flag);
    f.woken.store(true, Ordering::SeqCst);
}
unsafe fn vt_wake_by_ref(p: *const ()) {
    let f = StdArc::from_raw(p as *const Flag);
    f.woken.store(true, Ordering::SeqCst);
    std::mem::forget(f);
}
unsafe fn vt_drop(p: *const ()) {
    drop(StdArc::from_raw(p as *const Flag));
}
static VTABLE: RawWakerVTable = RawWakerVTable::new(vt_clone, vt_wake, vt_wake_by_ref, vt_drop);

fn flag() -> (StdArc<Flag>, Waker) {
    let f = StdArc::new(Flag { woken: AtomicBool::new(false), clones: AtomicUsize::new(0) });
    let w = unsafe { Waker::from_raw(RawWaker::new(StdArc::into_raw(f.clone()) as *const (), &VTABLE)) };
    (f, w)
}

fn poll_read_once(r: &mut ByteReader, w: &Waker, n: usize) -> Poll<std::io::Result<Vec<u8>>> {
    let mut cx = Context::from_waker(w);
    let mut tmp = vec![0u8; n];
    let mut rb = ReadBuf::new(&mut tmp);
    match Pin::new(r).poll_read(&mut cx, &mut rb) {
        Poll::Ready(Ok(())) => Poll::Ready(Ok(rb.filled().to_vec())),
        Poll::Ready(Err(e)) => Poll::Ready(Err(e)),
        Poll::Pending => Poll::Pending,
    }
}

fn poll_write_once(wr: &mut ByteWriter, w: &Waker, data: &[u8]) -> Poll<std::io::Result<usize>> {
    let mut cx = Context::from_waker(w);
    Pin::new(wr).poll_write(&mut cx, data)
}

pub const SCENARIOS: [&str; 4] = ["drop-writer|parking-reader", "drop-reader|parking-writer", "write|read", "write,drop-writer|read,read"];

static EXECUTIONS: std::sync::atomic::AtomicU64 = std::sync::atomic::AtomicU64::new(0);

pub fn scenario(name: &str, bound: Option<usize>) {
    let mut b = loom::model::Builder::new();
    b.preemption_bound = bound;
    let name = name.to_string();
    b.check(move || {
        EXECUTIONS.fetch_add(1, std::sync::atomic::Ordering::Relaxed);
        match name.as_str() {
            "drop-writer|parking-reader" => {
                let (tx, mut rx) = byte_channel(NonZeroUsize::new(2).unwrap());
                let (f, w) = flag();
                let t = loom::thread::spawn(move || drop(tx));
                let first = poll_read_once(&mut rx, &w, 2);
                t.join().unwrap();
                match first {
                    Poll::Ready(Ok(b)) => assert!(b.is_empty(), "law=reads_are_a_prefix: read {:?} from an empty channel", b),
                    Poll::Ready(Err(e)) => panic!("law=eof_after_writer_dropped: read error {}", e),
                    Poll::Pending => {
                        assert!(f.woken.load(Ordering::SeqCst), "law=no_lost_wakeup side=reader cond=writer_dropped: the reader parked, the writer was dropped, the reader's waker was not woken");
                    }
                }
                match poll_read_once(&mut rx, &w, 2) {
                    Poll::Ready(Ok(b)) => assert!(b.is_empty(), "law=reads_are_a_prefix"),
                    other => panic!("law=eof_after_writer_dropped: after the writer was dropped a read returned {:?}", other.map(|r| r.map(|b| b.len()))),
                }
            }
            "drop-reader|parking-writer" => {
                let (mut tx, rx) = byte_channel(NonZeroUsize::new(1).unwrap());
                let (f, w) = flag();
                assert!(matches!(poll_write_once(&mut tx, &w, &[7]), Poll::Ready(Ok(1))));
                let t = loom::thread::spawn(move || drop(rx));
                let first = poll_write_once(&mut tx, &w, &[8]);
                t.join().unwrap();
                match first {
                    Poll::Ready(Err(_)) => {}
                    Poll::Ready(Ok(n)) => panic!("law=capacity_respected: {} more bytes accepted by a full channel", n),
                    Poll::Pending => {
                        assert!(f.woken.load(Ordering::SeqCst), "law=no_lost_wakeup side=writer cond=reader_dropped: the writer parked on a full channel, the reader was dropped, the writer's waker was not woken");
                    }
                }
                match poll_write_once(&mut tx, &w, &[8]) {
                    Poll::Ready(Err(_)) => {}
                    other => panic!("law=write_fails_after_reader_dropped: after the reader was dropped a write returned {:?}", other.map(|r| r.ok())),
                }
            }
            "write|read" => {
                let (mut tx, mut rx) = byte_channel(NonZeroUsize::new(2).unwrap());
                let (fr, wr) = flag();
                let accepted = loom::sync::Arc::new(AtomicUsize::new(0));
                let a2 = accepted.clone();
                let t = loom::thread::spawn(move || {
                    let (_fw, ww) = flag();
                    if let Poll::Ready(Ok(n)) = poll_write_once(&mut tx, &ww, &[1, 2, 3]) {
                        a2.store(n, Ordering::SeqCst);
                    }
                    tx
                });
                let first = poll_read_once(&mut rx, &wr, 4);
                let tx = t.join().unwrap();
                let n = accepted.load(Ordering::SeqCst);
                assert!(n == 2, "law=capacity_respected: a channel of capacity 2 accepted {} of 3 bytes", n);
                let mut got: Vec<u8> = vec![];
                match first {
                    Poll::Ready(Ok(b)) => got.extend(b),
                    Poll::Ready(Err(e)) => panic!("read error {}", e),
                    Poll::Pending => assert!(fr.woken.load(Ordering::SeqCst), "law=no_lost_wakeup side=reader cond=data_written: the reader parked, data was written, the reader's waker was not woken"),
                }
                if let Poll::Ready(Ok(b)) = poll_read_once(&mut rx, &wr, 4) {
                    got.extend(b);
                }
                assert!(got == vec![1, 2], "law=reads_are_a_prefix: read {:?}, written [1, 2]", got);
                drop(tx);
            }
            _ => {
                // "write,drop-writer|read,read": everything written before the drop is delivered, then end of stream
                let (mut tx, mut rx) = byte_channel(NonZeroUsize::new(4).unwrap());
                let (fr, wr) = flag();
                let t = loom::thread::spawn(move || {
                    let (_fw, ww) = flag();
                    let r = poll_write_once(&mut tx, &ww, &[5, 6]);
                    assert!(matches!(r, Poll::Ready(Ok(2))));
                    drop(tx);
                });
                let mut got: Vec<u8> = vec![];
                let mut parked_unwoken = false;
                for _ in 0..2 {
                    match poll_read_once(&mut rx, &wr, 4) {
                        Poll::Ready(Ok(b)) => got.extend(b),
                        Poll::Ready(Err(e)) => panic!("read error {}", e),
                        Poll::Pending => parked_unwoken = true,
                    }
                }
                t.join().unwrap();
                if parked_unwoken {
                    assert!(fr.woken.load(Ordering::SeqCst), "law=no_lost_wakeup side=reader cond=data_written_or_writer_dropped: the reader parked and was never woken");
                }
                loop {
                    match poll_read_once(&mut rx, &wr, 4) {
                        Poll::Ready(Ok(b)) if b.is_empty() => break,
                        Poll::Ready(Ok(b)) => got.extend(b),
                        other => panic!("law=eof_after_writer_dropped: {:?}", other.map(|r| r.map(|b| b.len()))),
                    }
                }
                assert!(got == vec![5, 6], "law=remaining_bytes_then_eof: read {:?}, written [5, 6]", got);
            }
        }
    });
}

pub fn probe() {
    static SAW_HELD: std::sync::atomic::AtomicBool = std::sync::atomic::AtomicBool::new(false);
    static N: std::sync::atomic::AtomicU64 = std::sync::atomic::AtomicU64::new(0);
    let mut b = loom::model::Builder::new();
    b.preemption_bound = None;
    b.check(|| {
        N.fetch_add(1, std::sync::atomic::Ordering::Relaxed);
        let m = loom::sync::Arc::new(chan_shim::Mutex::new(0u8));
        let a = loom::sync::Arc::new(AtomicUsize::new(0));
        let m2 = m.clone();
        let t = loom::thread::spawn(move || {
            if m2.try_lock().is_none() {
                SAW_HELD.store(true, std::sync::atomic::Ordering::Relaxed);
            }
        });
        {
            let _g = m.lock();
            a.fetch_add(1, Ordering::SeqCst);
        }
        t.join().unwrap();
    });
    println!("probe: executions={} saw_held={}", N.load(std::sync::atomic::Ordering::Relaxed), SAW_HELD.load(std::sync::atomic::Ordering::Relaxed));
}

pub fn child(name: &str) -> ! {
    if name == "probe" {
        probe();
        std::process::exit(0);
    }
    let bound = std::env::var("VERIF_LOOM_BOUND").ok().and_then(|b| b.parse::<usize>().ok()).unwrap_or(3);
    scenario(name, if bound == 0 { None } else { Some(bound) });
    println!("LOOM-EXECUTIONS {}", EXECUTIONS.load(std::sync::atomic::Ordering::Relaxed));
    std::process::exit(0)
}

pub fn run_leg(ctx: &Ctx) {
    if vcommon::sched::is_worker() {
        return;
    }
    let t0 = Instant::now();
    let exe = std::env::current_exe().unwrap();
    let bound = if ctx.quick() { 3 } else { 0 };
    let mut total = 0u64;
    let mut samples = vec![];
    let mut complete = true;
    for sc in SCENARIOS {
        let o = std::process::Command::new(&exe).arg("--loom-scenario").arg(sc).env("VERIF_LOOM_BOUND", bound.to_string()).env_remove("LD_PRELOAD").output();
        match o {
            Ok(o) => {
                let so = String::from_utf8_lossy(&o.stdout).to_string();
                let se = String::from_utf8_lossy(&o.stderr).to_string();
                let n = so.lines().find_map(|l| l.strip_prefix("LOOM-EXECUTIONS ").and_then(|n| n.trim().parse::<u64>().ok()));
                if o.status.success() {
                    total += n.unwrap_or(0);
                    samples.push(json!({"scenario": sc, "executions": n, "preemption_bound": if bound == 0 { "unbounded".to_string() } else { bound.to_string() }}));
                } else {
                    let law = se.lines().find_map(|l| l.find("law=").map(|i| l[i..].split(':').next().unwrap_or("").trim().to_string())).unwrap_or_else(|| "law=no_panic".to_string());
                    let tail: String = se.lines().filter(|l| l.contains("law=") || l.contains("panicked")).take(3).collect::<Vec<_>>().join(" | ");
                    ctx.violation("loom-channel", &format!("loom scenario={} {}", sc, law), json!({"leg": "loom", "scenario": sc, "explanation": tail, "what": format!("loom {}: {}", sc, tail)}));
                }
            }
            Err(e) => {
                complete = false;
                samples.push(json!({"scenario": sc, "error": e.to_string()}));
            }
        }
    }
    ctx.add_leg(Leg {
        name: "loom-channel".into(),
        engine: "E3-loom".into(),
        states: total,
        transitions: total,
        evaluations: total,
        distinct_nontrivial: SCENARIOS.len() as u64,
        rule: "loom (DPOR) over the real source text of channel/mod.rs, mutex and Arc redirected to loom; executions = interleavings explored, summed over the scenarios; non-trivial = scenarios (each has two threads operating on the two ends)".into(),
        samples,
        exhaustive: complete,
        bounds: json!({"scenarios": SCENARIOS, "preemption_bound": if bound == 0 { "unbounded".to_string() } else { bound.to_string() }, "threads": 2}),
        wall_s: t0.elapsed().as_secs_f64(),
    });
}

fn main() {
    vcommon::machinery_failure("C12: engine not built yet");
}

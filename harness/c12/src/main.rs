//! C12 - Byte channels are lossless bounded FIFO pipes with no lost wake-ups.
//!
//! Leg "op"   (E2): full reachability of {reader task, writer task} x real channel at operation
//!                  granularity, oracles on every transition and state.
//! Leg "task" (E1): deviation-bounded schedules of two real futures (write_all / read_exact /
//!                  FramedRead) with drop faults and spurious polls; same oracles + termination.

mod loomleg;
mod oplevel;
mod tasklevel;

use oplevel::{Cfg, HState, Op, Snap};
use serde_json::{json, Value};
use std::collections::{BTreeMap, HashSet};
use std::sync::atomic::Ordering;
use std::sync::Mutex;
use std::time::Instant;
use tasklevel::{ChanWorld, TCfg};
use vcommon::sched;
use vcommon::{Ctx, Leg};

const BUDGETS: [usize; 3] = [2, 3, 64];

fn op_cfg_json(c: &Cfg) -> Value {
    json!({"capacity": c.cap, "budget": c.budget, "total_bytes": c.total, "max_ops_per_poll": c.k, "max_request": c.max_req})
}

fn op_cfg_from(v: &Value) -> Cfg {
    let g = |k: &str| v[k].as_u64().unwrap_or_else(|| vcommon::machinery_failure(&format!("replay file lacks {}", k)));
    Cfg { cap: g("capacity") as usize, budget: g("budget") as usize, total: g("total_bytes") as usize, k: g("max_ops_per_poll") as u8, max_req: g("max_request") as u8 }
}

fn task_cfg_from(v: &Value) -> TCfg {
    let g = |k: &str| v[k].as_u64().unwrap_or_else(|| vcommon::machinery_failure(&format!("replay file lacks {}", k)));
    let name = v["script"].as_str().unwrap_or("");
    let script = tasklevel::scripts(true)
        .into_iter()
        .find(|s| s.name == name)
        .unwrap_or_else(|| vcommon::machinery_failure(&format!("unknown script {:?}", name)));
    TCfg { cap: g("capacity") as usize, budget: g("budget") as usize, script }
}

fn replay(ctx: Ctx, r: Value) -> ! {
    let sig = r["signature"].as_str().unwrap_or("").to_string();
    let d = &r["detail"];
    match d["leg"].as_str() {
        Some("op") => {
            let cfg = op_cfg_from(&d["config"]);
            let ops: Vec<Op> = d["ops"]
                .as_array()
                .unwrap_or_else(|| vcommon::machinery_failure("replay file lacks ops"))
                .iter()
                .map(|o| Op::parse(o.as_str().unwrap_or("")).unwrap_or_else(|| vcommon::machinery_failure(&format!("bad op {}", o))))
                .collect();
            let (trace, v) = oplevel::run_traced(&cfg, &ops);
            for l in &trace {
                eprintln!("{}", l);
            }
            if let Some(v) = v {
                ctx.violation("op", &v.sig, json!({"leg": "op", "config": op_cfg_json(&cfg), "ops": ops.iter().map(|o| o.name()).collect::<Vec<_>>(), "what": v.expl, "trace": trace}));
            }
        }
        Some("loom") => {
            let exe = std::env::current_exe().unwrap();
            let o = std::process::Command::new(exe).arg("--loom-scenario").arg(d["scenario"].as_str().unwrap_or("")).env("VERIF_LOOM_BOUND", "0").env_remove("LD_PRELOAD").output().unwrap();
            eprintln!("{}", String::from_utf8_lossy(&o.stderr).lines().filter(|l| l.contains("law=")).take(3).collect::<Vec<_>>().join("\n"));
            if !o.status.success() {
                ctx.violation("loom-channel", &sig, d.clone());
            }
        }
        Some("task") => {
            let cfg = task_cfg_from(&d["config"]);
            let choices: Vec<u8> = d["choices"].as_array().map(|a| a.iter().map(|x| x.as_u64().unwrap_or(0) as u8).collect()).unwrap_or_default();
            match sched::run_one::<ChanWorld>(&cfg, &choices, true) {
                Ok(rec) => {
                    for l in &rec.outcome.log {
                        eprintln!("{}", l);
                    }
                    for (s, e) in &rec.outcome.violations {
                        if *s == sig || !rec.outcome.violations.iter().any(|x| x.0 == sig) {
                            ctx.violation("task", s, json!({"leg": "task", "config": d["config"], "choices": choices, "what": e}));
                        }
                    }
                }
                Err(e) => vcommon::machinery_failure(&format!("replay: {}", e)),
            }
        }
        other => vcommon::machinery_failure(&format!("replay file has unknown leg {:?}", other)),
    }
    ctx.finish("model_checking", "replay")
}

fn run_op_leg(ctx: &Ctx) {
    let t0 = Instant::now();
    let quick = ctx.quick();
    let caps: Vec<usize> = if quick { vec![1, 2, 3] } else { vec![1, 2, 3, 4, 5] };
    let total = if quick { 8 } else { 14 };
    let k = if quick { 3 } else { 5 };
    let max_req = if quick { 3 } else { 5 };
    let max_states: u64 = 6_000_000;
    let budgets: Vec<usize> = if quick { BUDGETS.to_vec() } else { vec![2, 3, 4, 5, 64] };
    let mut cfgs = vec![];
    for &cap in &caps {
        for &budget in &budgets {
            cfgs.push(Cfg { cap, budget, total, k, max_req });
        }
    }
    let threads = vcommon::ncpu();
    let mut leg = Leg {
        name: "op".into(),
        engine: "E2-space".into(),
        rule: "distinct canonical states (written, read, closed flags, observed closed flag, waker-slot owner, per side: idle+ops-in-poll+budget residue / pending request+woken); non-trivial = at least one side is pending (waker mechanism in play)".into(),
        exhaustive: true,
        ..Default::default()
    };
    let mut per_cfg = vec![];
    let mut found: BTreeMap<String, Value> = BTreeMap::new();
    for cfg in &cfgs {
        let tc = Instant::now();
        let nontrivial: Mutex<HashSet<Snap>> = Mutex::new(HashSet::new());
        let both_pending = std::sync::atomic::AtomicU64::new(0);
        let stats = vcommon::space::bfs(
            oplevel::initial(cfg),
            |s: &HState| oplevel::enabled(cfg, &s.snap),
            |s: &HState, op: &Op| oplevel::step(cfg, s, op),
            |s: &HState| {
                if s.snap.nontrivial() {
                    let mut g = nontrivial.lock().unwrap();
                    if g.insert(s.snap.clone())
                        && matches!(s.snap.r, oplevel::SideSnap::Pend { .. })
                        && matches!(s.snap.w, oplevel::SideSnap::Pend { .. })
                    {
                        both_pending.fetch_add(1, Ordering::Relaxed);
                    }
                }
                s.snap.clone()
            },
            |_s: &HState| Ok(()),
            10_000,
            max_states,
            threads,
        );
        let nt = nontrivial.lock().unwrap().len() as u64;
        leg.states += stats.states;
        leg.transitions += stats.transitions;
        leg.evaluations += stats.transitions;
        leg.distinct_nontrivial += nt;
        if !stats.fixpoint {
            leg.exhaustive = false;
        }
        per_cfg.push(json!({"config": op_cfg_json(cfg), "states": stats.states, "transitions": stats.transitions, "depth": stats.depth_reached,
            "fixpoint": stats.fixpoint, "capped": stats.capped, "states_with_a_pending_side": nt, "states_with_both_sides_pending": both_pending.load(Ordering::Relaxed),
            "wall_s": (tc.elapsed().as_secs_f64() * 1000.0).round() / 1000.0}));
        for (path, sig) in &stats.violations {
            if found.contains_key(sig) {
                continue;
            }
            // re-run the counterexample twice with tracing: it must fail the same way
            let (trace, v1) = oplevel::run_traced(cfg, path);
            let (_, v2) = oplevel::run_traced(cfg, path);
            match (v1, v2) {
                (Some(a), Some(b)) if a.sig == *sig && b.sig == *sig => {
                    found.insert(
                        sig.clone(),
                        json!({"leg": "op", "config": op_cfg_json(cfg), "ops": path.iter().map(|o| o.name()).collect::<Vec<_>>(), "what": a.expl, "trace": trace}),
                    );
                }
                _ => vcommon::machinery_failure(&format!("C12: nondeterminism: counterexample {:?} for {} does not reproduce", path, sig)),
            }
        }
    }
    // samples: fixed operation lists (all of them are paths of the search) with their traces
    let mism_before_samples = oplevel::BUDGET_MODEL_MISMATCHES.load(Ordering::Relaxed);
    let demos: [&[Op]; 3] = [
        // waker hand-over through the single slot: reader waits, writer fills, writer waits, reader drains
        &[Op::Read(1), Op::Write(1), Op::Write(1), Op::Read(1)],
        // budget 2: the second operation of a poll yields (self-woken Pending), data is not lost
        &[Op::Write(1), Op::Write(1), Op::Read(2), Op::Read(1), Op::Write(1)],
        // writer drops while the reader waits, then remaining bytes and EOF; reader drop -> BrokenPipe
        &[Op::Write(1), Op::YieldW, Op::Read(3), Op::YieldR, Op::Read(1), Op::DropW, Op::Read(1)],
    ];
    for d in demos {
        let (tr, v) = oplevel::run_traced(&cfgs[0], d);
        if v.is_none() {
            leg.samples.push(json!({"config": op_cfg_json(&cfgs[0]), "ops": d.iter().map(|o| o.name()).collect::<Vec<_>>(), "trace": tr}));
        }
    }
    let mism = mism_before_samples;
    leg.bounds = json!({
        "capacities": caps, "budgets": budgets, "total_bytes_offered": total, "max_ops_per_logical_poll": k, "request_sizes": format!("0..={}", max_req),
        "depth": "unbounded (search runs until the frontier is empty)",
        "fixpoint_reached_in_every_configuration": leg.exhaustive,
        "implementation_calls_including_history_replay": oplevel::IMPL_CALLS.load(Ordering::Relaxed),
        "budget_yields_observed": oplevel::BUDGET_YIELDS.load(Ordering::Relaxed),
        "budget_model_mismatches": mism,
        "per_configuration": per_cfg,
    });
    if mism > 0 {
        eprintln!("[C12] warning: {} operations behaved differently from the harness' model of the coop budget arithmetic (budget residues restored before operations may not be the ones the implementation would have)", mism);
    }
    leg.wall_s = t0.elapsed().as_secs_f64();
    ctx.add_leg(leg);
    for (sig, d) in found {
        ctx.violation("op", &sig, d);
    }
}

fn task_cfg_json(c: &TCfg) -> Value {
    json!({"capacity": c.cap, "budget": c.budget, "script": c.script.name})
}

/// Explore every (configuration, deviation bound) of `grid`. `wall_cap_s`: configurations that
/// would start after the cap are not run and the leg is reported as not exhaustive.
fn run_task_grid(ctx: &Ctx, name: &str, grid: &[(TCfg, u32)], wall_cap_s: f64, max_exec: u64, bound_desc: &str) {
    let t0 = Instant::now();
    let threads = vcommon::ncpu();
    let mut total = sched::ExploreStats::default();
    let mut per_cfg = vec![];
    let mut completed: BTreeMap<u32, u64> = BTreeMap::new();
    let mut exhaustive = true;
    let mut samples = vec![];
    let mut found: BTreeMap<String, Value> = BTreeMap::new();
    for (cfg, d) in grid {
        if t0.elapsed().as_secs_f64() > wall_cap_s {
            exhaustive = false;
            per_cfg.push(json!({"config": task_cfg_json(cfg), "deviation_bound": d, "not_run": "wall cap reached"}));
            continue;
        }
        let st = sched::explore::<ChanWorld>(cfg, *d, max_exec, threads);
        if !st.machinery_errors.is_empty() {
            vcommon::machinery_failure(&format!("C12 {} leg: {}", name, st.machinery_errors[0]));
        }
        if st.capped {
            exhaustive = false;
        } else {
            *completed.entry(*d).or_insert(0) += 1;
        }
        per_cfg.push(json!({"config": task_cfg_json(cfg), "deviation_bound": d, "executions": st.executions, "steps": st.steps,
            "distinct_digests": st.distinct_digests, "nontrivial": st.nontrivial, "longest_schedule": st.max_len, "capped": st.capped}));
        for (sig, _expl, choices) in &st.violations {
            if found.contains_key(sig) {
                continue;
            }
            // replay twice with tracing before reporting
            let a = sched::run_one::<ChanWorld>(cfg, choices, true);
            let b = sched::run_one::<ChanWorld>(cfg, choices, true);
            match (a, b) {
                (Ok(a), Ok(b)) if a.outcome.digest == b.outcome.digest && a.outcome.violations.iter().any(|x| &x.0 == sig) => {
                    let expl = a.outcome.violations.iter().find(|x| &x.0 == sig).map(|x| x.1.clone()).unwrap_or_default();
                    // choices beyond the stored prefix are 0 (eager schedule): trailing zeros are redundant
                    let mut choices = choices.clone();
                    while choices.last() == Some(&0) {
                        choices.pop();
                    }
                    let mut log = a.outcome.log.clone();
                    if log.len() > 40 {
                        let tail = log.split_off(log.len() - 10);
                        log.truncate(20);
                        log.push("...".into());
                        log.extend(tail);
                    }
                    found.insert(
                        sig.clone(),
                        json!({"leg": "task", "config": task_cfg_json(cfg), "choices": choices, "what": expl, "log": log,
                            "example": format!("byte_channel({}); tasks wrapped in RunWithBudget::with_budget({}); script {}; schedule choices {:?} (then eager)", cfg.cap, cfg.budget, cfg.script.name, choices)}),
                    );
                }
                _ => vcommon::machinery_failure(&format!("C12: nondeterminism: schedule {:?} of {:?} does not reproduce {}", choices, cfg, sig)),
            }
        }
        if samples.len() < 3 && (cfg.budget <= 2 || samples.is_empty()) {
            if let Ok(rec) = sched::run_one::<ChanWorld>(cfg, &[], true) {
                let mut log = rec.outcome.log;
                if log.len() > 40 {
                    log.truncate(40);
                    log.push("...".into());
                }
                samples.push(json!({"config": task_cfg_json(cfg), "schedule": "canonical (all choices 0)", "log": log}));
            }
        }
        sched::merge(&mut total, st);
    }
    let mut caps: Vec<usize> = grid.iter().map(|g| g.0.cap).collect();
    caps.sort();
    caps.dedup();
    let mut budgets: Vec<usize> = grid.iter().map(|g| g.0.budget).collect();
    budgets.sort();
    budgets.dedup();
    let mut scripts: Vec<&str> = vec![];
    for g in grid {
        if !scripts.contains(&g.0.script.name) {
            scripts.push(g.0.script.name);
        }
    }
    let leg = Leg {
        name: name.into(),
        engine: "E1-sched".into(),
        states: total.distinct_digests,
        transitions: total.steps,
        evaluations: total.executions,
        distinct_nontrivial: total.nontrivial,
        rule: "executions = schedules of {poll writer, poll reader, spurious poll, drop writer task, drop reader task} with <= d deviations from the eager schedule; non-trivial = executions with >= 1 deviation whose per-task observation log (sequence of poll_read/poll_write/flush/shutdown results and task results) differs from the canonical one".into(),
        samples,
        exhaustive,
        bounds: json!({
            "capacities": caps, "budgets": budgets, "scripts": scripts,
            "deviation_bound": bound_desc,
            "configurations_completed_per_deviation_bound": completed.iter().map(|(d, n)| format!("d<={}: {}", d, n)).collect::<Vec<_>>(),
            "configurations": grid.len(),
            "wall_cap_s": wall_cap_s,
            "per_configuration": per_cfg,
        }),
        wall_s: t0.elapsed().as_secs_f64(),
    };
    ctx.add_leg(leg);
    for (sig, d) in found {
        ctx.violation(name, &sig, d);
    }
}

fn task_grid(scripts: &[tasklevel::Script], d_all: u32, d_core: u32) -> Vec<(TCfg, u32)> {
    let mut grid = vec![];
    for cap in [1usize, 2, 3] {
        for budget in BUDGETS {
            for s in scripts {
                // core sub-grid: tightest capacity, smallest and default budget
                let core = cap == 1 && budget != 3;
                grid.push((TCfg { cap, budget, script: s.clone() }, if core { d_core } else { d_all }));
            }
        }
    }
    grid
}

fn run_task_legs(ctx: &Ctx) {
    let quick = ctx.quick();
    let scripts = tasklevel::scripts(!quick);
    if quick {
        run_task_grid(ctx, "task", &task_grid(&scripts, 2, 3), 45.0, 2_000_000, "2 on the whole grid, 3 for capacity 1 with budget 2 and 64");
    } else {
        run_task_grid(ctx, "task", &task_grid(&scripts, 4, 5), 1200.0, 20_000_000, "4 on the whole grid, 5 for capacity 1 with budget 2 and 64");
        // one more deviation, for as many configurations as fit into the wall cap
        // (cheapest first: d=5 configurations, then the d=6 ones with the larger budget first)
        let mut deep = task_grid(&scripts, 5, 6);
        deep.sort_by_key(|(c, d)| (*d, std::cmp::Reverse(c.budget)));
        run_task_grid(ctx, "task-deep", &deep, 300.0, 20_000_000, "5 on the whole grid, 6 for capacity 1 with budget 2 and 64 (d=5 configurations first, then d=6, until the wall cap; see per_configuration for what completed)");
    }
    // The smallest budget the API accepts (NonZeroUsize 1), outside the designed grid {2,3,64}.
    let b1 = TCfg { cap: 2, budget: 1, script: scripts[0].clone() };
    run_task_grid(ctx, "task-budget1", &[(b1, 1)], 60.0, 100_000, "1 (single configuration: capacity 2, budget 1)");
}

/// Stand-alone reproduction of the budget-1 finding: public API only, no harness machinery.
/// `C12_STANDALONE_PROBE=1 c12`
fn standalone_budget1_probe() {
    use std::future::Future;
    use std::num::NonZeroUsize;
    use std::task::{Context, Poll};
    use swimos_byte_channel::{byte_channel, BudgetedFutureExt};
    use tokio::io::AsyncWriteExt;
    for budget in [1usize, 2] {
        let (mut tx, _rx) = byte_channel(NonZeroUsize::new(8).unwrap());
        let fut = async move { tx.write_all(&[1, 2, 3]).await }.with_budget(NonZeroUsize::new(budget).unwrap());
        let mut fut = Box::pin(fut);
        let flag = sched::WakeFlag::new(false);
        let waker = flag.waker();
        let mut cx = Context::from_waker(&waker);
        let mut polls = 0;
        let mut done = false;
        while polls < 100_000 {
            polls += 1;
            flag.clear();
            match fut.as_mut().poll(&mut cx) {
                Poll::Ready(r) => {
                    println!("budget {}: write_all of 3 bytes into an empty 8-byte channel finished after {} polls: {:?}", budget, polls, r.map_err(|e| e.kind()));
                    done = true;
                    break;
                }
                Poll::Pending => {
                    if !flag.is_set() {
                        println!("budget {}: Pending without wake after {} polls", budget, polls);
                        done = true;
                        break;
                    }
                }
            }
        }
        if !done {
            println!("budget {}: write_all of 3 bytes into an empty 8-byte channel still Pending (self-woken every time) after {} polls", budget, polls);
        }
    }
}

fn main() {
    let args: Vec<String> = std::env::args().collect();
    if args.len() >= 3 && args[1] == "--loom-scenario" {
        loomleg::child(&args[2]);
    }
    if std::env::var("C12_STANDALONE_PROBE").is_ok() {
        standalone_budget1_probe();
        return;
    }
    let ctx = Ctx::from_env("C12");
    // the subject's panics are caught and reported as violations; keep stderr readable
    std::panic::set_hook(Box::new(|_| {}));
    if let Some(r) = ctx.replay_request().cloned() {
        replay(ctx, r);
    }
    // development aid: C12_LEGS=op or C12_LEGS=task runs a single engine (evidence is then partial)
    let legs = std::env::var("C12_LEGS").unwrap_or_else(|_| "op,task".into());
    if legs.contains("op") {
        run_op_leg(&ctx);
    }
    if legs.contains("task") {
        run_task_legs(&ctx);
    }
    loomleg::run_leg(&ctx);
    ctx.assume("op-level interleavings = thread interleavings: every access to a Conduit field (data, capacity, waker, closed) in channel/mod.rs happens between `self.inner.lock()` and the end of the same function (poll_read, poll_write, poll_flush, poll_shutdown, is_closed, both Drop impls), including `waker.wake()`; the only code outside the lock is the coop budget (thread-local) and `wake_by_ref` on the caller's own waker. Checked by reading the code; the leg loom-channel drops this assumption for closing one end while the other parks and for a write racing a read (every interleaving of the individual lock / unlock steps of two threads)");
    ctx.assume("the coop budget is thread-local: the harness runs both logical tasks on one thread and restores each task's own residue through the public RunWithBudget::with_budget before every operation (op leg); the residue arithmetic (minus one per operation, yield at zero) is mirrored by the harness and every predicted yield is compared with the observed one (budget_model_mismatches in the evidence)");
    ctx.assume("the canonical key identifies the buffer content with (written, read) - guaranteed by the FIFO oracle on every earlier transition - and does not include the internal offset/allocation state of BytesMut; bytes::BytesMut is trusted");
    ctx.assume("a task waits only for the waker of its most recent poll (AsyncRead/AsyncWrite contract); every logical poll uses a fresh waker");
    ctx.assume("bounds: one reader task and one writer task; capacities, request sizes, total bytes offered, operations per logical poll and (task leg) deviation bound as listed per leg; budget 1 is outside the designed grid and has a leg of its own (task-budget1)");
    ctx.finish(
        "model_checking",
        "explicit-state search to a fixpoint over the real ByteReader/ByteWriter at operation level (no-lost-wake-up invariant in every state) plus deviation-bounded schedule exploration of real write_all/read_exact/FramedRead futures with drop faults",
    );
}

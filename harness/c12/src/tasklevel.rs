//! C12, engine E1: task-level leg. Two real futures - a writer (`write_all` per chunk, then
//! drop or flush+shutdown) and a reader (`read_exact` / `read` loops, or a `FramedRead`) - each
//! wrapped in the real `RunWithBudget`, polled by the harness with flag wakers. Explored: which
//! runnable task is polled next, spurious polls of a waiting task, and dropping either task.

use std::cell::RefCell;
use std::future::Future;
use std::io::ErrorKind;
use std::num::NonZeroUsize;
use std::panic::{catch_unwind, AssertUnwindSafe};
use std::pin::Pin;
use std::rc::Rc;
use std::task::{Context, Poll};

use bytes::{Buf, BytesMut};
use futures::StreamExt;
use swimos_byte_channel::{byte_channel, BudgetedFutureExt, ByteReader, ByteWriter};
use tokio::io::{AsyncRead, AsyncReadExt, AsyncWrite, AsyncWriteExt, ReadBuf};
use tokio_util::codec::{Decoder, FramedRead};
use vcommon::sched::{Outcome, Subject, World};

#[derive(Clone, Debug)]
pub enum End {
    Drop,
    FlushShutdown,
}

#[derive(Clone, Debug)]
pub enum RMode {
    /// `read_exact` into buffers of these sizes, then `read` (2-byte buffer) until EOF.
    Exact(Vec<usize>),
    /// `FramedRead` with a one-byte-length-prefix decoder until the stream ends.
    Framed,
}

#[derive(Clone, Debug)]
pub struct Script {
    pub name: &'static str,
    pub chunks: Vec<Vec<u8>>,
    pub end: End,
    pub reader: RMode,
}

fn seq_chunks(sizes: &[usize]) -> Vec<Vec<u8>> {
    let mut n = 0u8;
    sizes
        .iter()
        .map(|s| {
            (0..*s)
                .map(|_| {
                    n += 1;
                    n - 1
                })
                .collect()
        })
        .collect()
}

pub fn scripts(thorough: bool) -> Vec<Script> {
    let mut v = vec![
        Script { name: "w[3,1,2]+drop / read_exact[2,2,2]+to_eof", chunks: seq_chunks(&[3, 1, 2]), end: End::Drop, reader: RMode::Exact(vec![2, 2, 2]) },
        Script {
            name: "w[1,1,1,1]+flush+shutdown / read_exact[1,3]+to_eof",
            chunks: seq_chunks(&[1, 1, 1, 1]),
            end: End::FlushShutdown,
            reader: RMode::Exact(vec![1, 3]),
        },
        Script { name: "w[4]+drop / read_exact[1,5] (short: UnexpectedEof)", chunks: seq_chunks(&[4]), end: End::Drop, reader: RMode::Exact(vec![1, 5]) },
        Script {
            name: "frames [2,a,b][0][3,c,d,e]+flush+shutdown / FramedRead",
            chunks: vec![vec![2, 10, 11], vec![0], vec![3, 20, 21, 22]],
            end: End::FlushShutdown,
            reader: RMode::Framed,
        },
    ];
    if thorough {
        v.push(Script { name: "w[3,3,3]+drop / read_exact[4,4]+to_eof", chunks: seq_chunks(&[3, 3, 3]), end: End::Drop, reader: RMode::Exact(vec![4, 4]) });
        v.push(Script {
            name: "frames [1,a][4,b,c,d,e]+drop / FramedRead",
            chunks: vec![vec![1, 10], vec![4, 20, 21, 22, 23]],
            end: End::Drop,
            reader: RMode::Framed,
        });
    }
    v
}

#[derive(Clone, Debug)]
pub struct TCfg {
    pub cap: usize,
    pub budget: usize,
    pub script: Script,
}

#[derive(Default)]
struct Log {
    cap: usize,
    accepted: Vec<u8>,
    received: Vec<u8>,
    w_events: Vec<String>,
    r_events: Vec<String>,
    writer_closed: bool,
    reader_gone: bool,
    shutdown_done: bool,
    eof_seen: bool,
    viol: Vec<(String, String)>,
}

impl Log {
    fn v(&mut self, sig: &str, expl: String) {
        if !self.viol.iter().any(|x| x.0 == sig) {
            self.viol.push((sig.to_string(), expl));
        }
    }
}

struct ObsW {
    inner: ByteWriter,
    log: Rc<RefCell<Log>>,
}

impl AsyncWrite for ObsW {
    fn poll_write(mut self: Pin<&mut Self>, cx: &mut Context<'_>, buf: &[u8]) -> Poll<std::io::Result<usize>> {
        let r = Pin::new(&mut self.inner).poll_write(cx, buf);
        let mut l = self.log.borrow_mut();
        match &r {
            Poll::Pending => l.w_events.push("wP".into()),
            Poll::Ready(Ok(n)) => {
                let free = l.cap - (l.accepted.len() - l.received.len());
                if *n > free || *n > buf.len() {
                    let (c, a) = (l.cap, l.accepted.len() - l.received.len());
                    l.v("law=bounded cond=accepted_more_than_free_capacity", format!("capacity {}: {} buffered, poll_write accepted {} of {}", c, a, n, buf.len()));
                }
                if *n == 0 && !buf.is_empty() {
                    l.v("law=lossless cond=write_zero", format!("poll_write of {} bytes returned Ok(0)", buf.len()));
                }
                if l.reader_gone && !buf.is_empty() {
                    l.v("law=write_fails_after_reader_drop cond=ok", format!("reader dropped, poll_write returned Ok({})", n));
                }
                let k = (*n).min(buf.len());
                l.accepted.extend_from_slice(&buf[..k]);
                l.w_events.push(format!("w+{}", n));
            }
            Poll::Ready(Err(e)) => {
                if !l.reader_gone && !l.shutdown_done {
                    l.v("law=write_errors_only_when_closed", format!("poll_write returned {:?} with the reader alive", e.kind()));
                } else if l.reader_gone && e.kind() != ErrorKind::BrokenPipe {
                    l.v("law=write_fails_after_reader_drop cond=wrong_error_kind", format!("poll_write returned {:?}", e.kind()));
                }
                l.w_events.push(format!("wE{:?}", e.kind()));
            }
        }
        r
    }
    fn poll_flush(mut self: Pin<&mut Self>, cx: &mut Context<'_>) -> Poll<std::io::Result<()>> {
        let r = Pin::new(&mut self.inner).poll_flush(cx);
        self.log.borrow_mut().w_events.push(match &r {
            Poll::Pending => "fP".into(),
            Poll::Ready(Ok(())) => "f".into(),
            Poll::Ready(Err(e)) => format!("fE{:?}", e.kind()),
        });
        r
    }
    fn poll_shutdown(mut self: Pin<&mut Self>, cx: &mut Context<'_>) -> Poll<std::io::Result<()>> {
        let r = Pin::new(&mut self.inner).poll_shutdown(cx);
        let mut l = self.log.borrow_mut();
        l.w_events.push(match &r {
            Poll::Pending => "sP".into(),
            Poll::Ready(Ok(())) => "s".into(),
            Poll::Ready(Err(e)) => format!("sE{:?}", e.kind()),
        });
        if matches!(r, Poll::Ready(Ok(()))) {
            l.shutdown_done = true;
            l.writer_closed = true;
        }
        r
    }
}

struct ObsR {
    inner: ByteReader,
    log: Rc<RefCell<Log>>,
}

impl AsyncRead for ObsR {
    fn poll_read(mut self: Pin<&mut Self>, cx: &mut Context<'_>, buf: &mut ReadBuf<'_>) -> Poll<std::io::Result<()>> {
        let before = buf.filled().len();
        let want = buf.remaining();
        let r = Pin::new(&mut self.inner).poll_read(cx, buf);
        let new: Vec<u8> = buf.filled()[before..].to_vec();
        let mut l = self.log.borrow_mut();
        match &r {
            Poll::Pending => {
                if !new.is_empty() {
                    l.v("law=lossless cond=pending_read_consumed_data", format!("Pending with {} bytes filled", new.len()));
                }
                l.r_events.push("rP".into());
            }
            Poll::Ready(Err(e)) => {
                l.v("law=read_never_errors", format!("poll_read returned {:?}", e.kind()));
                l.r_events.push(format!("rE{:?}", e.kind()));
            }
            Poll::Ready(Ok(())) => {
                let pos = l.received.len();
                if pos + new.len() > l.accepted.len() {
                    let a = l.accepted.len();
                    l.v("law=fifo_prefix cond=read_more_than_written", format!("{} bytes read at offset {}, only {} accepted", new.len(), pos, a));
                } else if l.accepted[pos..pos + new.len()] != new[..] {
                    let exp = l.accepted[pos..pos + new.len()].to_vec();
                    l.v("law=fifo_prefix cond=wrong_byte", format!("read {:?} at offset {}, written there: {:?}", new, pos, exp));
                }
                if new.is_empty() && want > 0 {
                    if l.accepted.len() > l.received.len() {
                        let d = l.accepted.len() - l.received.len();
                        l.v("law=eof_after_remaining cond=eof_with_data_buffered", format!("end-of-stream reported with {} accepted bytes unread", d));
                    } else if !l.writer_closed {
                        l.v("law=eof_after_remaining cond=eof_without_close", "end-of-stream reported, writer alive and not shut down".into());
                    }
                    l.eof_seen = true;
                    l.r_events.push("r0".into());
                } else {
                    l.r_events.push(format!("r+{}", new.len()));
                }
                l.received.extend_from_slice(&new);
            }
        }
        r
    }
}

/// Frames: one length byte followed by that many payload bytes.
struct LenCodec;

impl Decoder for LenCodec {
    type Item = Vec<u8>;
    type Error = std::io::Error;
    fn decode(&mut self, src: &mut BytesMut) -> Result<Option<Vec<u8>>, std::io::Error> {
        if src.is_empty() {
            return Ok(None);
        }
        let n = src[0] as usize;
        if src.len() < 1 + n {
            return Ok(None);
        }
        src.advance(1);
        Ok(Some(src.split_to(n).to_vec()))
    }
}

#[derive(Debug, Default, Clone, PartialEq, Eq)]
pub struct RRes {
    data: Vec<u8>,
    frames: Vec<Vec<u8>>,
    err: Option<String>,
}

/// What the reader future must return when the stream consists of `bytes` followed by EOF.
fn reference_reader(mode: &RMode, bytes: &[u8]) -> RRes {
    let mut out = RRes::default();
    match mode {
        RMode::Exact(sizes) => {
            let mut pos = 0;
            for s in sizes {
                if pos + s <= bytes.len() {
                    pos += s;
                } else {
                    out.data = bytes[..pos].to_vec();
                    out.err = Some(format!("{:?}", ErrorKind::UnexpectedEof));
                    return out;
                }
            }
            out.data = bytes.to_vec();
        }
        RMode::Framed => {
            let mut pos = 0;
            while pos < bytes.len() {
                let n = bytes[pos] as usize;
                if pos + 1 + n <= bytes.len() {
                    out.frames.push(bytes[pos + 1..pos + 1 + n].to_vec());
                    pos += 1 + n;
                } else {
                    out.err = Some("incomplete frame at end of stream".into());
                    break;
                }
            }
        }
    }
    out
}

async fn writer_task(mut w: ObsW, chunks: Vec<Vec<u8>>, end: End) -> Result<(), ErrorKind> {
    for c in &chunks {
        w.write_all(c).await.map_err(|e| e.kind())?;
    }
    if let End::FlushShutdown = end {
        w.flush().await.map_err(|e| e.kind())?;
        w.shutdown().await.map_err(|e| e.kind())?;
    }
    Ok(())
}

async fn reader_task(mut r: ObsR, mode: RMode) -> RRes {
    let mut out = RRes::default();
    match mode {
        RMode::Exact(sizes) => {
            for s in sizes {
                let mut buf = vec![0u8; s];
                match r.read_exact(&mut buf).await {
                    Ok(_) => out.data.extend_from_slice(&buf),
                    Err(e) => {
                        out.err = Some(format!("{:?}", e.kind()));
                        return out;
                    }
                }
            }
            let mut guard = 0;
            loop {
                let mut buf = [0u8; 2];
                match r.read(&mut buf).await {
                    Ok(0) => break,
                    Ok(n) => out.data.extend_from_slice(&buf[..n]),
                    Err(e) => {
                        out.err = Some(format!("{:?}", e.kind()));
                        break;
                    }
                }
                guard += 1;
                if guard > 1000 {
                    out.err = Some("reader made 1000 reads without reaching EOF".into());
                    break;
                }
            }
        }
        RMode::Framed => {
            let mut fr = FramedRead::new(r, LenCodec);
            let mut guard = 0;
            while let Some(f) = fr.next().await {
                match f {
                    Ok(f) => out.frames.push(f),
                    Err(_) => {
                        out.err = Some("incomplete frame at end of stream".into());
                        break;
                    }
                }
                guard += 1;
                if guard > 1000 {
                    out.err = Some("1000 frames".into());
                    break;
                }
            }
        }
    }
    out
}

pub struct ChanWorld {
    cfg: TCfg,
    log: Rc<RefCell<Log>>,
    w: Subject<Result<(), ErrorKind>>,
    r: Subject<RRes>,
    w_killed: bool,
    r_killed: bool,
    trace: bool,
    tlog: Vec<String>,
    polls: u64,
}

/// No script needs more than ~60 task polls; beyond this the run is a livelock.
pub const POLL_LIMIT: u64 = 500;

pub const POLL_W: u32 = 0;
pub const POLL_R: u32 = 1;
pub const SPUR_W: u32 = 2;
pub const SPUR_R: u32 = 3;
pub const DROP_W: u32 = 4;
pub const DROP_R: u32 = 5;

impl ChanWorld {
    fn poll_side(&mut self, writer: bool) {
        self.polls += 1;
        if self.polls > POLL_LIMIT {
            let mut l = self.log.borrow_mut();
            let b = self.cfg.budget;
            let (a, r) = (l.accepted.len(), l.received.len());
            l.v(
                &format!("law=terminates cond=livelock budget={}", b),
                format!(
                    "{} task polls without both tasks finishing (RunWithBudget budget {}): accepted={} received={}{}",
                    POLL_LIMIT, b, a, r,
                    if b == 1 { "; with budget 1 consume_budget turns the first channel operation of every poll into a self-woken Pending, so no channel operation ever runs: the task spins for ever" } else { "" }
                ),
            );
            drop(l);
            self.w.kill();
            self.r.kill();
            return;
        }
        let res = if writer {
            let w = &mut self.w;
            catch_unwind(AssertUnwindSafe(|| w.poll()))
        } else {
            let r = &mut self.r;
            catch_unwind(AssertUnwindSafe(|| r.poll()))
        };
        match res {
            Ok(done) => {
                if done && writer {
                    // the future (and the ByteWriter it owns) has been dropped
                    self.log.borrow_mut().writer_closed = true;
                }
                if done && !writer {
                    self.log.borrow_mut().reader_gone = true;
                }
            }
            Err(_) => {
                let side = if writer { "writer" } else { "reader" };
                self.log.borrow_mut().v(&format!("law=no_panic side={}", side), format!("the {} task panicked", side));
                if writer {
                    self.w.kill();
                    self.w_killed = true;
                    self.log.borrow_mut().writer_closed = true;
                } else {
                    self.r.kill();
                    self.r_killed = true;
                    self.log.borrow_mut().reader_gone = true;
                }
            }
        }
    }
}

impl World for ChanWorld {
    type Cfg = TCfg;

    fn new(cfg: &TCfg, trace: bool) -> Self {
        let (tx, rx) = byte_channel(NonZeroUsize::new(cfg.cap).unwrap());
        let log = Rc::new(RefCell::new(Log { cap: cfg.cap, ..Default::default() }));
        let b = NonZeroUsize::new(cfg.budget).unwrap();
        let wf = writer_task(ObsW { inner: tx, log: log.clone() }, cfg.script.chunks.clone(), cfg.script.end.clone()).with_budget(b);
        let rf = reader_task(ObsR { inner: rx, log: log.clone() }, cfg.script.reader.clone()).with_budget(b);
        ChanWorld { cfg: cfg.clone(), log, w: Subject::new(wf), r: Subject::new(rf), w_killed: false, r_killed: false, trace, tlog: vec![], polls: 0 }
    }

    fn enabled(&mut self) -> Vec<u32> {
        let rw = self.w.runnable();
        let rr = self.r.runnable();
        if !rw && !rr {
            // nothing can run any more: finished, or blocked for ever (checked in `finish`)
            return vec![];
        }
        let mut v = vec![];
        if rw {
            v.push(POLL_W);
        }
        if rr {
            v.push(POLL_R);
        }
        if self.w.alive() && !rw {
            v.push(SPUR_W);
        }
        if self.r.alive() && !rr {
            v.push(SPUR_R);
        }
        if self.w.alive() {
            v.push(DROP_W);
        }
        if self.r.alive() {
            v.push(DROP_R);
        }
        v
    }

    fn label(&self, code: u32) -> String {
        match code {
            POLL_W => "poll writer",
            POLL_R => "poll reader",
            SPUR_W => "spurious poll writer",
            SPUR_R => "spurious poll reader",
            DROP_W => "drop writer task",
            DROP_R => "drop reader task",
            _ => "?",
        }
        .to_string()
    }

    fn fire(&mut self, code: u32) -> impl Future<Output = ()> {
        let (wl, rl) = {
            let l = self.log.borrow();
            (l.w_events.len(), l.r_events.len())
        };
        match code {
            POLL_W | SPUR_W => self.poll_side(true),
            POLL_R | SPUR_R => self.poll_side(false),
            DROP_W => {
                let w = &mut self.w;
                if catch_unwind(AssertUnwindSafe(|| w.kill())).is_err() {
                    self.log.borrow_mut().v("law=no_panic side=writer", "dropping the writer task panicked".into());
                }
                self.w_killed = true;
                self.log.borrow_mut().writer_closed = true;
            }
            DROP_R => {
                let r = &mut self.r;
                if catch_unwind(AssertUnwindSafe(|| r.kill())).is_err() {
                    self.log.borrow_mut().v("law=no_panic side=reader", "dropping the reader task panicked".into());
                }
                self.r_killed = true;
                self.log.borrow_mut().reader_gone = true;
            }
            _ => {}
        }
        if self.trace {
            let l = self.log.borrow();
            self.tlog.push(format!(
                "{:<22} writer:{:?} reader:{:?} | accepted={} received={} w_runnable={} r_runnable={}",
                self.label(code),
                &l.w_events[wl..],
                &l.r_events[rl..],
                l.accepted.len(),
                l.received.len(),
                self.w.runnable(),
                self.r.runnable()
            ));
        }
        async {}
    }

    fn finish(mut self) -> Outcome {
        let all: Vec<u8> = self.cfg.script.chunks.iter().flatten().cloned().collect();
        let w_res = self.w.result.take();
        let r_res = self.r.result.take();
        let mut l = self.log.borrow_mut();
        // termination: nothing is runnable; every task must be finished or dropped
        let wb = self.w.alive();
        let rb = self.r.alive();
        if wb || rb {
            let who = match (wb, rb) {
                (true, true) => "both",
                (true, false) => "writer",
                _ => "reader",
            };
            let (a, r, wc, rg) = (l.accepted.len(), l.received.len(), l.writer_closed, l.reader_gone);
            let (we, re) = (l.w_events.last().cloned(), l.r_events.last().cloned());
            // which wait condition of a blocked task is already satisfiable
            let mut conds = vec![];
            if rb {
                conds.push(if a > r { "reader:data_available" } else if wc { "reader:writer_closed" } else { "reader:nothing_to_read" });
            }
            if wb {
                conds.push(if rg { "writer:reader_closed" } else if a - r < self.cfg.cap { "writer:space_available" } else { "writer:channel_full" });
            }
            l.v(
                &format!("law=terminates blocked={} while={}", who, conds.join("+")),
                format!(
                    "no task is runnable but {} is still waiting: accepted={} received={} capacity={} writer_closed={} reader_gone={} last writer op={:?} last reader op={:?}",
                    who, a, r, self.cfg.cap, wc, rg, we, re
                ),
            );
        }
        if let Some(wr) = &w_res {
            match wr {
                Ok(()) => {
                    if l.accepted != all {
                        let a = l.accepted.len();
                        l.v("law=lossless cond=writer_done_but_bytes_not_accepted", format!("writer finished Ok with {} of {} bytes accepted", a, all.len()));
                    }
                }
                Err(k) => {
                    if !self.r_killed {
                        l.v("law=write_errors_only_when_closed", format!("writer task failed with {:?} although the reader was never dropped", k));
                    } else if *k != ErrorKind::BrokenPipe {
                        l.v("law=write_fails_after_reader_drop cond=wrong_error_kind", format!("writer task failed with {:?}", k));
                    }
                }
            }
        }
        if let Some(rr) = &r_res {
            // the reader future only ends at end-of-stream (or a read error)
            if l.received != l.accepted {
                let (a, r) = (l.accepted.len(), l.received.len());
                l.v("law=eof_after_remaining cond=reader_finished_early", format!("reader finished after {} of {} accepted bytes", r, a));
            }
            let exp = reference_reader(&self.cfg.script.reader, &l.accepted);
            if *rr != exp {
                l.v("law=fifo_prefix cond=reader_task_result", format!("reader task returned {:?}, expected {:?}", rr, exp));
            }
            if !self.w_killed && matches!(w_res, Some(Ok(()))) {
                let exp_all = reference_reader(&self.cfg.script.reader, &all);
                if *rr != exp_all {
                    l.v("law=lossless cond=complete_run_result", format!("writer completed; reader task returned {:?}, expected {:?}", rr, exp_all));
                }
            }
        }
        let mut dig = String::new();
        dig.push_str(&format!("W{:?}|R{:?}|{:?}|{:?}|{}{}", l.w_events, l.r_events, w_res, r_res, self.w_killed, self.r_killed));
        let mut log = std::mem::take(&mut self.tlog);
        if self.trace {
            log.push(format!("writer result: {:?} (dropped by fault: {})", w_res, self.w_killed));
            log.push(format!("reader result: {:?} (dropped by fault: {})", r_res, self.r_killed));
            log.push(format!("accepted={:?} received={:?}", l.accepted, l.received));
        }
        Outcome { digest: vcommon::fnv(dig.as_bytes()), violations: l.viol.clone(), log }
    }
}

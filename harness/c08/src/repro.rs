//! Stand-alone reproductions of the C08 findings, written the way the repository's own tests
//! drive the client map downlink (plain Tokio runtime, `FramedWrite` + the repository's encoders,
//! lifecycle built with the public builder). Nothing of the harness machinery is used here.
//! Run with `C08_REPRO=1 c08`.

use bytes::BytesMut;
use futures::SinkExt;
use std::collections::BTreeMap;
use std::num::NonZeroUsize;
use std::sync::{Arc, Mutex};
use std::time::Duration;
use swimos_agent_protocol::encoding::downlink::DownlinkNotificationEncoder;
use swimos_agent_protocol::encoding::map::MapMessageEncoder;
use swimos_agent_protocol::{DownlinkNotification, MapMessage};
use swimos_api::address::Address;
use swimos_client_api::{Downlink, DownlinkConfig};
use swimos_downlink::lifecycle::BasicMapDownlinkLifecycle;
use swimos_downlink::{DownlinkTask, MapDownlinkHandle, MapDownlinkModel};
use swimos_utilities::byte_channel::byte_channel;
use tokio::sync::mpsc;
use tokio_util::codec::{Encoder, FramedWrite};

enum In {
    N(DownlinkNotification<MapMessage<i32, i32>>),
    LocalUpdate(i32, i32),
    LocalRemove(i32),
}

fn ev(m: MapMessage<i32, i32>) -> In {
    In::N(DownlinkNotification::Event { body: m })
}

async fn scenario(title: &str, events_when_not_synced: bool, inputs: Vec<In>) {
    let log: Arc<Mutex<Vec<String>>> = Default::default();
    let lifecycle = BasicMapDownlinkLifecycle::<i32, i32>::default()
        .with(log.clone())
        .on_linked_blocking(|l| l.lock().unwrap().push("on_linked".into()))
        .on_synced_blocking(|l, map: &BTreeMap<i32, i32>| l.lock().unwrap().push(format!("on_synced({:?})", map)))
        .on_update_blocking(|l, k, map, old, new| l.lock().unwrap().push(format!("on_update(key={}, map={:?}, old={:?}, new={})", k, map, old, new)))
        .on_removed_blocking(|l, k, map, old| l.lock().unwrap().push(format!("on_remove(key={}, map={:?}, old={})", k, map, old)))
        .on_clear_blocking(|l, old| l.lock().unwrap().push(format!("on_clear({:?})", old)))
        .on_unlink_blocking(|l| l.lock().unwrap().push("on_unlinked".into()));
    let (op_tx, op_rx) = mpsc::channel(16);
    let handle = MapDownlinkHandle::new(op_tx);
    let (in_tx, in_rx) = byte_channel(NonZeroUsize::new(4096).unwrap());
    let (out_tx, _out_rx) = byte_channel(NonZeroUsize::new(4096).unwrap());
    let config = DownlinkConfig { events_when_not_synced, terminate_on_unlinked: true, buffer_size: NonZeroUsize::new(1024).unwrap() };
    let task = tokio::spawn(DownlinkTask::new(MapDownlinkModel::new(op_rx, lifecycle)).run(Address::text(None, "/node", "lane"), config, in_rx, out_tx));
    let mut writer = FramedWrite::new(in_tx, DownlinkNotificationEncoder);
    println!("--- {} (events_when_not_synced={})", title, events_when_not_synced);
    for i in inputs {
        match i {
            In::N(n) => {
                let raw = match n {
                    DownlinkNotification::Linked => DownlinkNotification::Linked,
                    DownlinkNotification::Synced => DownlinkNotification::Synced,
                    DownlinkNotification::Unlinked => DownlinkNotification::Unlinked,
                    DownlinkNotification::Event { body } => {
                        println!("  lane  -> event {:?}", body);
                        let mut buf = BytesMut::new();
                        MapMessageEncoder::default().encode(body, &mut buf).unwrap();
                        DownlinkNotification::Event { body: buf }
                    }
                };
                writer.send(raw).await.unwrap();
            }
            In::LocalUpdate(k, v) => {
                println!("  local -> handle.update({}, {})", k, v);
                handle.update(k, v).await.unwrap();
            }
            In::LocalRemove(k) => {
                println!("  local -> handle.remove({})", k);
                handle.remove(k).await.unwrap();
            }
        }
        tokio::time::sleep(Duration::from_millis(20)).await;
        for l in log.lock().unwrap().drain(..) {
            println!("        callback {}", l);
        }
    }
    drop(writer);
    let _ = task.await;
}

pub fn run() {
    let rt = tokio::runtime::Builder::new_current_thread().enable_time().build().unwrap();
    rt.block_on(async {
        use DownlinkNotification::{Linked, Synced};
        scenario(
            "F6a: clear before synced is not applied: on_synced reports entries the lane has cleared",
            false,
            vec![In::N(Linked), ev(MapMessage::Update { key: 1, value: 1 }), ev(MapMessage::Clear), In::N(Synced)],
        )
        .await;
        scenario(
            "F6b: take/drop before synced call on_remove although events before sync are disabled",
            false,
            vec![In::N(Linked), ev(MapMessage::Update { key: 1, value: 1 }), ev(MapMessage::Update { key: 2, value: 2 }), ev(MapMessage::Take(1)), ev(MapMessage::Drop(1)), In::N(Synced)],
        )
        .await;
        scenario(
            "drop: the map passed to on_remove lacks the entries that are kept",
            true,
            vec![In::N(Linked), In::N(Synced), ev(MapMessage::Update { key: 1, value: 1 }), ev(MapMessage::Update { key: 2, value: 2 }), ev(MapMessage::Drop(1))],
        )
        .await;
        scenario(
            "local writes change the replica: the lane's echo reports old == new, a removal is never reported",
            true,
            vec![
                In::N(Linked),
                In::N(Synced),
                ev(MapMessage::Update { key: 1, value: 1 }),
                In::LocalUpdate(1, 2),
                ev(MapMessage::Update { key: 1, value: 2 }),
                In::LocalRemove(1),
                ev(MapMessage::Remove { key: 1 }),
            ],
        )
        .await;
    });
}

//! Alphabet, callback records and the reference fold (with its legality acceptor) for C08.

use std::collections::BTreeMap;

pub type M = BTreeMap<i32, i32>;

#[derive(Clone, Copy, PartialEq, Eq, Hash, Debug, PartialOrd, Ord)]
pub enum Kind {
    Map,
    Value,
}

impl Kind {
    pub fn name(self) -> &'static str {
        match self {
            Kind::Map => "map",
            Kind::Value => "value",
        }
    }
    pub fn parse(s: &str) -> Option<Kind> {
        match s {
            "map" => Some(Kind::Map),
            "value" => Some(Kind::Value),
            _ => None,
        }
    }
}

#[derive(Clone, Copy, PartialEq, Eq, Hash, Debug, PartialOrd, Ord)]
pub enum Imp {
    Client,
    Hosted,
}

impl Imp {
    pub fn name(self) -> &'static str {
        match self {
            Imp::Client => "client",
            Imp::Hosted => "hosted",
        }
    }
    pub fn parse(s: &str) -> Option<Imp> {
        match s {
            "client" => Some(Imp::Client),
            "hosted" => Some(Imp::Hosted),
            _ => None,
        }
    }
}

#[derive(Clone, Copy, PartialEq, Eq, Hash, Debug, PartialOrd, Ord)]
pub struct Cfg {
    pub ewns: bool,
    pub term: bool,
}

pub const CFGS: [Cfg; 4] = [
    Cfg { ewns: false, term: true }, // the default configuration first
    Cfg { ewns: false, term: false },
    Cfg { ewns: true, term: true },
    Cfg { ewns: true, term: false },
];

impl Cfg {
    pub fn text(self) -> String {
        format!("ewns={} term={}", self.ewns, self.term)
    }
}

/// One input of a run: a notification from the lane or a local operation through the handle.
#[derive(Clone, Copy, PartialEq, Eq, Hash, Debug, PartialOrd, Ord)]
pub enum Sym {
    Linked,
    Synced,
    Unlinked,
    Upd(i32, i32),
    Rem(i32),
    Clear,
    Take(u64),
    Drop(u64),
    LUpd(i32, i32),
    LRem(i32),
    LClear,
    Ev(i32),
    LSet(i32),
}

impl Sym {
    pub fn text(self) -> String {
        match self {
            Sym::Linked => "linked".into(),
            Sym::Synced => "synced".into(),
            Sym::Unlinked => "unlinked".into(),
            Sym::Upd(k, x) => format!("upd:{}:{}", k, x),
            Sym::Rem(k) => format!("rem:{}", k),
            Sym::Clear => "clear".into(),
            Sym::Take(n) => format!("take:{}", n),
            Sym::Drop(n) => format!("drop:{}", n),
            Sym::LUpd(k, x) => format!("lupd:{}:{}", k, x),
            Sym::LRem(k) => format!("lrem:{}", k),
            Sym::LClear => "lclear".into(),
            Sym::Ev(x) => format!("ev:{}", x),
            Sym::LSet(x) => format!("lset:{}", x),
        }
    }

    pub fn parse(s: &str) -> Option<Sym> {
        let p: Vec<&str> = s.split(':').collect();
        let i = |n: usize| p.get(n).and_then(|x| x.parse::<i32>().ok());
        let u = |n: usize| p.get(n).and_then(|x| x.parse::<u64>().ok());
        Some(match p[0] {
            "linked" => Sym::Linked,
            "synced" => Sym::Synced,
            "unlinked" => Sym::Unlinked,
            "upd" => Sym::Upd(i(1)?, i(2)?),
            "rem" => Sym::Rem(i(1)?),
            "clear" => Sym::Clear,
            "take" => Sym::Take(u(1)?),
            "drop" => Sym::Drop(u(1)?),
            "lupd" => Sym::LUpd(i(1)?, i(2)?),
            "lrem" => Sym::LRem(i(1)?),
            "lclear" => Sym::LClear,
            "ev" => Sym::Ev(i(1)?),
            "lset" => Sym::LSet(i(1)?),
            _ => return None,
        })
    }

    /// The class of the symbol with its arguments erased (used in signatures).
    pub fn class(self) -> &'static str {
        match self {
            Sym::Linked => "linked",
            Sym::Synced => "synced",
            Sym::Unlinked => "unlinked",
            Sym::Upd(..) => "upd",
            Sym::Rem(..) => "rem",
            Sym::Clear => "clear",
            Sym::Take(..) => "take",
            Sym::Drop(..) => "drop",
            Sym::LUpd(..) | Sym::LRem(..) | Sym::LClear | Sym::LSet(..) => "local_write",
            Sym::Ev(..) => "ev",
        }
    }

    /// For local writes: which operation (the class alone says only `local_write`).
    pub fn class_detail(self) -> &'static str {
        match self {
            Sym::LUpd(..) => "lupd",
            Sym::LRem(..) => "lrem",
            Sym::LClear => "lclear",
            Sym::LSet(..) => "lset",
            other => other.class(),
        }
    }

    pub fn is_local(self) -> bool {
        matches!(self, Sym::LUpd(..) | Sym::LRem(..) | Sym::LClear | Sym::LSet(..))
    }

    pub fn is_event(self) -> bool {
        matches!(self, Sym::Upd(..) | Sym::Rem(..) | Sym::Clear | Sym::Take(..) | Sym::Drop(..) | Sym::Ev(..))
    }
}

/// The two keys of the map alphabet: their order as numbers (2 < 10, the documented key order)
/// differs from the order of their Recon texts ("10" < "2"), so an implementation that designates
/// the entries of a take / drop by the wrong order is visible with just two entries.
pub const KEYS: [i32; 2] = [2, 10];

/// The alphabet, smallest first.
pub fn alphabet(kind: Kind, local: bool) -> Vec<Sym> {
    let mut v = vec![Sym::Linked, Sym::Synced, Sym::Unlinked];
    match kind {
        Kind::Map => {
            for k in KEYS {
                for x in [1, 2] {
                    v.push(Sym::Upd(k, x));
                }
            }
            v.extend([Sym::Rem(KEYS[0]), Sym::Rem(KEYS[1]), Sym::Clear, Sym::Take(0), Sym::Take(1), Sym::Drop(0), Sym::Drop(1)]);
            if local {
                for k in KEYS {
                    for x in [1, 2] {
                        v.push(Sym::LUpd(k, x));
                    }
                }
                v.extend([Sym::LRem(KEYS[0]), Sym::LRem(KEYS[1]), Sym::LClear]);
            }
        }
        Kind::Value => {
            v.extend([Sym::Ev(1), Sym::Ev(2)]);
            if local {
                v.extend([Sym::LSet(1), Sym::LSet(2)]);
            }
        }
    }
    v
}

pub fn seq_text(seq: &[Sym]) -> String {
    seq.iter().map(|s| s.text()).collect::<Vec<_>>().join(",")
}

pub fn parse_seq(s: &str) -> Option<Vec<Sym>> {
    if s.is_empty() {
        return Some(vec![]);
    }
    s.split(',').map(Sym::parse).collect()
}

/// A recorded lifecycle callback with its arguments (including the state snapshot it was given).
#[derive(Clone, PartialEq, Eq, Hash, Debug)]
pub enum Cb {
    Linked,
    Unlinked,
    Failed,
    SyncedM(M),
    Update { k: i32, old: Option<i32>, new: i32, map: M },
    Remove { k: i32, old: i32, map: M },
    Clear { old: M },
    SyncedV(i32),
    Event(i32),
    Set { old: Option<i32>, new: i32 },
}

impl Cb {
    pub fn label(&self) -> &'static str {
        match self {
            Cb::Linked => "on_linked",
            Cb::Unlinked => "on_unlinked",
            Cb::Failed => "on_failed",
            Cb::SyncedM(_) | Cb::SyncedV(_) => "on_synced",
            Cb::Update { .. } => "on_update",
            Cb::Remove { .. } => "on_remove",
            Cb::Clear { .. } => "on_clear",
            Cb::Event(_) => "on_event",
            Cb::Set { .. } => "on_set",
        }
    }

    /// First field in which two callbacks of the same label differ.
    pub fn diff_field(&self, other: &Cb) -> &'static str {
        match (self, other) {
            (Cb::SyncedM(a), Cb::SyncedM(b)) if a != b => "state",
            (Cb::SyncedV(a), Cb::SyncedV(b)) if a != b => "state",
            (Cb::Update { k, old, new, map }, Cb::Update { k: k2, old: o2, new: n2, map: m2 }) => {
                if k != k2 {
                    "key"
                } else if new != n2 {
                    "new"
                } else if old != o2 {
                    "old"
                } else if map != m2 {
                    "state"
                } else {
                    "none"
                }
            }
            (Cb::Remove { k, old, map }, Cb::Remove { k: k2, old: o2, map: m2 }) => {
                if k != k2 {
                    "key"
                } else if old != o2 {
                    "old"
                } else if map != m2 {
                    "state"
                } else {
                    "none"
                }
            }
            (Cb::Clear { old }, Cb::Clear { old: o2 }) if old != o2 => "old",
            (Cb::Event(a), Cb::Event(b)) if a != b => "new",
            (Cb::Set { old, new }, Cb::Set { old: o2, new: n2 }) => {
                if new != n2 {
                    "new"
                } else if old != o2 {
                    "old"
                } else {
                    "none"
                }
            }
            _ => "none",
        }
    }
}

#[derive(Clone, Copy, PartialEq, Eq, Debug)]
pub enum Link {
    Unlinked,
    Linked,
    Synced,
}

#[derive(Clone, Copy, PartialEq, Eq, Debug)]
pub enum Class {
    /// A well-behaved link (and any user of the handle) can produce this input here.
    Legal,
    /// Not producible by a lane, but the documented client state machine ignores it: a repeated
    /// `linked`, a repeated `synced` (map), stray notifications while unlinked.
    Redundant,
    /// Not producible; explored for panic-freedom only.
    Illegal,
}

/// What the reference fold expects for one input.
pub struct Exp {
    pub class: Class,
    /// Acceptable callback lists (the first one is the canonical, sequential, form).
    pub alts: Vec<Vec<Cb>>,
}

/// The 30-line reference: the replica is the fold of the notifications received since `linked`;
/// local writes do not touch it; callbacks are dispatched when synced or when
/// `events_when_not_synced` is set.
#[derive(Clone, Debug)]
pub struct Ref {
    pub kind: Kind,
    pub cfg: Cfg,
    pub link: Link,
    pub map: M,
    pub val: Option<i32>,
    pub terminated: bool,
    /// Number of inputs seen after termination.
    pub post_term: usize,
    /// Second reference (used only to classify a known deviation): local map writes are folded
    /// into the replica, silently, whenever the downlink is linked - what the client map downlink
    /// evidently intends (known finding `cause=local_write`).
    pub fold_local: bool,
}

impl Ref {
    pub fn new(kind: Kind, cfg: Cfg) -> Ref {
        Ref { kind, cfg, link: Link::Unlinked, map: M::new(), val: None, terminated: false, post_term: 0, fold_local: false }
    }

    fn removals(&mut self, keys: Vec<i32>, dispatch: bool) -> Vec<Vec<Cb>> {
        let before = self.map.clone();
        let mut seq = vec![];
        let mut olds = vec![];
        for k in keys {
            if let Some(old) = self.map.remove(&k) {
                olds.push((k, old));
                seq.push(Cb::Remove { k, old, map: self.map.clone() });
            }
        }
        if !dispatch {
            return vec![vec![]];
        }
        let batch: Vec<Cb> = olds.iter().map(|(k, old)| Cb::Remove { k: *k, old: *old, map: self.map.clone() }).collect();
        let mut alts = vec![seq];
        if batch != alts[0] {
            alts.push(batch);
        }
        if self.map.is_empty() {
            // reporting "everything that was left is gone" as one on_clear is accepted for a single
            // implementation (the differential law still demands that both agree)
            alts.push(vec![Cb::Clear { old: before }]);
        }
        alts
    }

    pub fn step(&mut self, s: Sym) -> Exp {
        let legal = |alts: Vec<Vec<Cb>>| Exp { class: Class::Legal, alts };
        let redundant = || Exp { class: Class::Redundant, alts: vec![vec![]] };
        let illegal = || Exp { class: Class::Illegal, alts: vec![] };
        let wrong_kind = match s {
            Sym::Upd(..) | Sym::Rem(..) | Sym::Clear | Sym::Take(..) | Sym::Drop(..) | Sym::LUpd(..) | Sym::LRem(..) | Sym::LClear => self.kind != Kind::Map,
            Sym::Ev(..) | Sym::LSet(..) => self.kind != Kind::Value,
            _ => false,
        };
        if wrong_kind {
            return illegal();
        }
        if self.terminated {
            self.post_term += 1;
            return legal(vec![vec![]]);
        }
        if s.is_local() {
            if self.fold_local && self.link != Link::Unlinked {
                match s {
                    Sym::LUpd(k, x) => {
                        self.map.insert(k, x);
                    }
                    Sym::LRem(k) => {
                        self.map.remove(&k);
                    }
                    Sym::LClear => self.map.clear(),
                    _ => {}
                }
            }
            return legal(vec![vec![]]);
        }
        let dispatch = self.link == Link::Synced || self.cfg.ewns;
        match s {
            Sym::Linked => {
                if self.link == Link::Unlinked {
                    self.link = Link::Linked;
                    self.map.clear();
                    self.val = None;
                    legal(vec![vec![Cb::Linked]])
                } else {
                    redundant()
                }
            }
            Sym::Synced => match (self.link, self.kind) {
                (Link::Linked, Kind::Map) => {
                    self.link = Link::Synced;
                    legal(vec![vec![Cb::SyncedM(self.map.clone())]])
                }
                (Link::Linked, Kind::Value) => match self.val {
                    Some(v) => {
                        self.link = Link::Synced;
                        legal(vec![vec![Cb::SyncedV(v)]])
                    }
                    None => illegal(), // a value lane always sends its value before `synced`
                },
                (_, Kind::Map) => redundant(),
                (_, Kind::Value) => illegal(),
            },
            Sym::Unlinked => {
                // also legal while unlinked: a refused link request is answered with `unlinked`
                self.link = Link::Unlinked;
                self.map.clear();
                self.val = None;
                if self.cfg.term {
                    self.terminated = true;
                }
                legal(vec![vec![Cb::Unlinked]])
            }
            _ if self.link == Link::Unlinked => redundant(), // stray event
            Sym::Upd(k, x) => {
                let old = self.map.insert(k, x);
                legal(vec![if dispatch { vec![Cb::Update { k, old, new: x, map: self.map.clone() }] } else { vec![] }])
            }
            Sym::Rem(k) => match self.map.remove(&k) {
                Some(old) if dispatch => legal(vec![vec![Cb::Remove { k, old, map: self.map.clone() }]]),
                _ => legal(vec![vec![]]),
            },
            Sym::Clear => {
                let old = std::mem::take(&mut self.map);
                legal(vec![if dispatch { vec![Cb::Clear { old }] } else { vec![] }])
            }
            Sym::Take(n) => {
                let keys: Vec<i32> = self.map.keys().cloned().skip(n as usize).collect();
                legal(self.removals(keys, dispatch))
            }
            Sym::Drop(n) => {
                let keys: Vec<i32> = self.map.keys().cloned().take(n as usize).collect();
                legal(self.removals(keys, dispatch))
            }
            Sym::Ev(x) => {
                let old = self.val.replace(x);
                legal(vec![if dispatch { vec![Cb::Event(x), Cb::Set { old, new: x }] } else { vec![] }])
            }
            _ => unreachable!(),
        }
    }
}

/// Status of the implementation observed after one input has been processed to quiescence.
#[derive(Clone, Copy, PartialEq, Eq, Debug, Default)]
pub struct Status {
    /// The task / channel driver has completed.
    pub done: bool,
    /// It completed with an error (client task result).
    pub failed: bool,
    /// Hosted only: `handle.is_linked()`.
    pub linked: Option<bool>,
    /// Hosted only: `handle.is_stopped()`.
    pub stopped: Option<bool>,
}

#[derive(Clone, Debug, Default)]
pub struct RunOut {
    /// Callbacks recorded while processing each input.
    pub steps: Vec<Vec<Cb>>,
    pub status: Vec<Status>,
    /// Callbacks produced when the input channel is closed at the end.
    pub tail: Vec<Cb>,
    pub panic: Option<String>,
    pub hang: bool,
    pub polls: u64,
}

/// Descriptor of the first disagreement with the reference in a run.
#[derive(Clone, PartialEq, Eq, Hash, Debug, PartialOrd, Ord)]
pub struct Desc {
    pub law: &'static str,
    pub at: String,
    pub field: &'static str,
}

#[derive(Clone, Debug)]
pub struct Mismatch {
    pub step: usize,
    pub desc: Desc,
    pub expected: String,
    pub observed: String,
}

pub struct Checked {
    /// Every input was `Legal`.
    pub legal: bool,
    /// At least one input was `Redundant`.
    pub redundant: bool,
    /// First illegal position, if any (nothing is compared from there on).
    pub illegal_at: Option<usize>,
    pub mismatch: Option<Mismatch>,
    /// Callbacks carrying a state snapshot that were compared with the fold.
    pub compared_states: usize,
    pub terminated: bool,
    pub post_term: usize,
}

/// Compare one run with the reference. `tolerant` accepts `Redundant` inputs (client state machine).
pub fn check(kind: Kind, cfg: Cfg, imp: Imp, seq: &[Sym], out: &RunOut, tolerant: bool) -> Checked {
    check_with(kind, cfg, imp, seq, out, tolerant, false)
}

/// `fold_local`: compare with the second reference (see `Ref::fold_local`).
pub fn check_with(kind: Kind, cfg: Cfg, imp: Imp, seq: &[Sym], out: &RunOut, tolerant: bool, fold_local: bool) -> Checked {
    let mut r = Ref::new(kind, cfg);
    r.fold_local = fold_local;
    let mut c = Checked { legal: true, redundant: false, illegal_at: None, mismatch: None, compared_states: 0, terminated: false, post_term: 0 };
    if let Some(p) = &out.panic {
        c.mismatch = Some(Mismatch {
            step: out.steps.len(),
            desc: Desc { law: "no_panic", at: "run".into(), field: "panic" },
            expected: "no panic".into(),
            observed: p.clone(),
        });
    } else if out.hang {
        c.mismatch = Some(Mismatch {
            step: out.steps.len(),
            desc: Desc { law: "terminates", at: "run".into(), field: "hang" },
            expected: "quiescence".into(),
            observed: "poll budget exhausted".into(),
        });
    }
    for (i, s) in seq.iter().enumerate() {
        let exp = r.step(*s);
        match exp.class {
            Class::Legal => {}
            Class::Redundant => {
                c.legal = false;
                c.redundant = true;
                if !tolerant {
                    c.illegal_at = Some(i);
                    break;
                }
            }
            Class::Illegal => {
                c.legal = false;
                c.illegal_at = Some(i);
                break;
            }
        }
        if c.mismatch.is_some() || i >= out.steps.len() {
            continue;
        }
        let got = &out.steps[i];
        if !exp.alts.iter().any(|a| a == got) {
            let want = &exp.alts[0];
            let mut desc = None;
            for j in 0..want.len().max(got.len()) {
                match (want.get(j), got.get(j)) {
                    (Some(w), Some(g)) if w == g => {}
                    (Some(w), Some(g)) if w.label() == g.label() => {
                        desc = Some(Desc { law: "callbacks", at: g.label().into(), field: w.diff_field(g) });
                        break;
                    }
                    (Some(w), Some(g)) => {
                        desc = Some(Desc { law: "callbacks", at: format!("{}(expected {})", g.label(), w.label()), field: "kind" });
                        break;
                    }
                    (Some(w), None) => {
                        desc = Some(Desc { law: "callbacks", at: w.label().into(), field: "missing" });
                        break;
                    }
                    (None, Some(g)) => {
                        desc = Some(Desc { law: "callbacks", at: g.label().into(), field: "spurious" });
                        break;
                    }
                    (None, None) => {}
                }
            }
            c.mismatch = Some(Mismatch {
                step: i,
                desc: desc.unwrap_or(Desc { law: "callbacks", at: "?".into(), field: "?" }),
                expected: format!("{:?}", exp.alts),
                observed: format!("{:?}", got),
            });
            continue;
        }
        c.compared_states += got.iter().filter(|g| !matches!(g, Cb::Linked | Cb::Unlinked | Cb::Failed)).count();
        let st = out.status[i];
        if st.done != r.terminated || st.failed {
            c.mismatch = Some(Mismatch {
                step: i,
                desc: Desc { law: "termination", at: s.class().into(), field: if st.failed { "failed" } else { "done" } },
                expected: format!("done={} failed=false", r.terminated),
                observed: format!("done={} failed={}", st.done, st.failed),
            });
            continue;
        }
        if imp == Imp::Hosted && st.linked.is_some() {
            let want_linked = r.link != Link::Unlinked && !r.terminated;
            if st.linked != Some(want_linked) || st.stopped != Some(r.terminated) {
                c.mismatch = Some(Mismatch {
                    step: i,
                    desc: Desc { law: "handle_state", at: s.class().into(), field: if st.linked != Some(want_linked) { "is_linked" } else { "is_stopped" } },
                    expected: format!("is_linked={} is_stopped={}", want_linked, r.terminated),
                    observed: format!("is_linked={:?} is_stopped={:?}", st.linked, st.stopped),
                });
            }
        }
    }
    c.terminated = r.terminated;
    c.post_term = r.post_term;
    // panic / hang are violations whatever the legality
    if let Some(m) = &c.mismatch {
        if m.desc.law != "no_panic" && m.desc.law != "terminates" {
            if let Some(ia) = c.illegal_at {
                if m.step >= ia {
                    c.mismatch = None;
                }
            }
        }
    }
    c
}

/// Differential law on a legal sequence: the callback traces must be identical.
pub fn differ(a: &RunOut, b: &RunOut) -> Option<Mismatch> {
    for i in 0..a.steps.len().min(b.steps.len()) {
        let (x, y) = (&a.steps[i], &b.steps[i]);
        if x == y {
            continue;
        }
        for j in 0..x.len().max(y.len()) {
            let d = match (x.get(j), y.get(j)) {
                (Some(p), Some(q)) if p == q => continue,
                (Some(p), Some(q)) if p.label() == q.label() => Desc { law: "client_eq_hosted", at: p.label().into(), field: p.diff_field(q) },
                (Some(p), Some(q)) => Desc { law: "client_eq_hosted", at: format!("client:{}/hosted:{}", p.label(), q.label()), field: "kind" },
                (Some(p), None) => Desc { law: "client_eq_hosted", at: format!("client:{}/hosted:none", p.label()), field: "kind" },
                (None, Some(q)) => Desc { law: "client_eq_hosted", at: format!("client:none/hosted:{}", q.label()), field: "kind" },
                (None, None) => continue,
            };
            return Some(Mismatch { step: i, desc: d, expected: format!("client {:?}", x), observed: format!("hosted {:?}", y) });
        }
    }
    None
}

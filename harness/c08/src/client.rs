//! Driver for the stand-alone client downlinks (`swimos_downlink::DownlinkTask`).

use crate::model::{Cb, Cfg, Kind, RunOut, Status, Sym};
use crate::wire::{self, Wire};
use std::num::NonZeroUsize;
use std::sync::{Arc, Mutex};
use swimos_agent_protocol::MapOperation;
use swimos_api::address::Address;
use swimos_client_api::{Downlink, DownlinkConfig};
use swimos_downlink::lifecycle::{BasicMapDownlinkLifecycle, BasicValueDownlinkLifecycle};
use swimos_downlink::{DownlinkTask, MapDownlinkHandle, MapDownlinkModel, ValueDownlinkModel, ValueDownlinkSet};
use swimos_utilities::byte_channel::{byte_channel, BudgetedFutureExt};
use tokio::sync::mpsc;
use vcommon::sched::Subject;

type Log = Arc<Mutex<Vec<Cb>>>;

fn take(log: &Log) -> Vec<Cb> {
    std::mem::take(&mut *log.lock().unwrap())
}

const CHANNEL: usize = 4096;
const POLL_CAP: u64 = 10_000;

fn settle<T>(subj: &mut Subject<T>, out: &mut RunOut) {
    while subj.runnable() {
        subj.poll();
        if subj.polls > POLL_CAP {
            out.hang = true;
            break;
        }
    }
}

fn config(cfg: Cfg) -> DownlinkConfig {
    DownlinkConfig { events_when_not_synced: cfg.ewns, terminate_on_unlinked: cfg.term, buffer_size: NonZeroUsize::new(CHANNEL).unwrap() }
}

pub fn run(kind: Kind, cfg: Cfg, seq: &[Sym], w: &Wire, burst: bool) -> RunOut {
    match kind {
        Kind::Map => run_map(cfg, seq, w, burst, false),
        Kind::Value => run_value(cfg, seq, w, burst, false),
    }
}

/// The same downlink after every write handle has been dropped: the task carries on in its
/// read-only mode (local write symbols are ignored).
pub fn run_read_only(kind: Kind, cfg: Cfg, seq: &[Sym], w: &Wire) -> RunOut {
    match kind {
        Kind::Map => run_map(cfg, seq, w, false, true),
        Kind::Value => run_value(cfg, seq, w, false, true),
    }
}

fn run_map(cfg: Cfg, seq: &[Sym], w: &Wire, burst: bool, read_only: bool) -> RunOut {
    let mut out = RunOut::default();
    let log: Log = Default::default();
    let lifecycle = BasicMapDownlinkLifecycle::<i32, i32>::default()
        .with(log.clone())
        .on_linked_blocking(|l| l.lock().unwrap().push(Cb::Linked))
        .on_synced_blocking(|l, map| l.lock().unwrap().push(Cb::SyncedM(map.clone())))
        .on_update_blocking(|l, k, map, old, new| l.lock().unwrap().push(Cb::Update { k, old, new: *new, map: map.clone() }))
        .on_removed_blocking(|l, k, map, old| l.lock().unwrap().push(Cb::Remove { k, old, map: map.clone() }))
        .on_clear_blocking(|l, old| l.lock().unwrap().push(Cb::Clear { old }))
        .on_unlink_blocking(|l| l.lock().unwrap().push(Cb::Unlinked));
    let (op_tx, op_rx) = mpsc::channel::<MapOperation<i32, i32>>(64);
    let mut handle = Some(MapDownlinkHandle::new(op_tx));
    let model = MapDownlinkModel::new(op_rx, lifecycle);
    let (mut in_tx, in_rx) = byte_channel(NonZeroUsize::new(CHANNEL).unwrap());
    let (out_tx, out_rx) = byte_channel(NonZeroUsize::new(CHANNEL).unwrap());
    let task = DownlinkTask::new(model).run(Address::text(None, "/node", "lane"), config(cfg), in_rx, out_tx);
    let mut subj = Subject::new(task.budgeted());
    settle(&mut subj, &mut out);
    if read_only {
        handle = None;
        settle(&mut subj, &mut out);
    }
    for (_i, s) in seq.iter().enumerate() {
        match *s {
            Sym::LUpd(k, x) => {
                if let Some(h) = &handle {
                    let _ = wire::poll_once(h.update(k, x));
                }
            }
            Sym::LRem(k) => {
                if let Some(h) = &handle {
                    let _ = wire::poll_once(h.remove(k));
                }
            }
            Sym::LClear => {
                if let Some(h) = &handle {
                    let _ = wire::poll_once(h.clear());
                }
            }
            other => {
                if let Some(bytes) = w.map_bytes(other) {
                    let _ = wire::write_bytes(&mut in_tx, bytes);
                }
            }
        }
        if burst && _i + 1 < seq.len() {
            continue;
        }
        settle(&mut subj, &mut out);
        out.steps.push(take(&log));
        out.status.push(Status {
            done: !subj.alive(),
            failed: matches!(subj.result, Some(Err(_))),
            linked: None,
            stopped: None,
        });
        if out.hang {
            return out;
        }
    }
    drop(in_tx);
    settle(&mut subj, &mut out);
    out.tail = take(&log);
    out.polls = subj.polls;
    drop(out_rx);
    out
}

fn run_value(cfg: Cfg, seq: &[Sym], w: &Wire, burst: bool, read_only: bool) -> RunOut {
    let mut out = RunOut::default();
    let log: Log = Default::default();
    let lifecycle = BasicValueDownlinkLifecycle::<i32>::default()
        .with(log.clone())
        .on_linked_blocking(|l| l.lock().unwrap().push(Cb::Linked))
        .on_synced_blocking(|l, v| l.lock().unwrap().push(Cb::SyncedV(*v)))
        .on_event_blocking(|l, v| l.lock().unwrap().push(Cb::Event(*v)))
        .on_set_blocking(|l, old, new| l.lock().unwrap().push(Cb::Set { old: old.copied(), new: *new }))
        .on_unlinked_blocking(|l| l.lock().unwrap().push(Cb::Unlinked));
    let (set_tx, set_rx) = mpsc::channel::<ValueDownlinkSet<i32>>(64);
    let model = ValueDownlinkModel::new(set_rx, lifecycle);
    let (mut in_tx, in_rx) = byte_channel(NonZeroUsize::new(CHANNEL).unwrap());
    let (out_tx, out_rx) = byte_channel(NonZeroUsize::new(CHANNEL).unwrap());
    let task = DownlinkTask::new(model).run(Address::text(None, "/node", "lane"), config(cfg), in_rx, out_tx);
    let mut subj = Subject::new(task.budgeted());
    settle(&mut subj, &mut out);
    let mut set_tx = Some(set_tx);
    if read_only {
        set_tx = None;
        settle(&mut subj, &mut out);
    }
    for (_i, s) in seq.iter().enumerate() {
        match *s {
            Sym::LSet(x) => {
                if let Some(tx) = &set_tx {
                    let _ = tx.try_send(ValueDownlinkSet { to: x });
                }
            }
            other => {
                if let Some(bytes) = w.value_bytes(other) {
                    let _ = wire::write_bytes(&mut in_tx, bytes);
                }
            }
        }
        if burst && _i + 1 < seq.len() {
            continue;
        }
        settle(&mut subj, &mut out);
        out.steps.push(take(&log));
        out.status.push(Status {
            done: !subj.alive(),
            failed: matches!(subj.result, Some(Err(_))),
            linked: None,
            stopped: None,
        });
        if out.hang {
            return out;
        }
    }
    drop(in_tx);
    settle(&mut subj, &mut out);
    out.tail = take(&log);
    out.polls = subj.polls;
    drop(out_rx);
    out
}

fn main() {
    vcommon::machinery_failure("C08: engine not built yet");
}

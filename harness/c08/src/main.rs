//! C08 - Downlink local state equals the fold of what it received.
//!
//! Engine E2/E4: bounded-exhaustive enumeration of input sequences (notifications from the lane
//! and local writes through the handle), smallest first, against a reference fold, for the
//! stand-alone client downlinks (`swimos_downlink`) and the agent-hosted downlinks
//! (`swimos_agent::agent_model::downlink::hosted`), both kinds (value, map), all four settings of
//! (`events_when_not_synced`, `terminate_on_unlinked`).
//!
//! Legs
//! * `legal`     - breadth-first over the sequences a well-behaved link can produce (10-line
//!                 acceptor inside the reference): full oracle on each implementation plus the
//!                 differential law client == hosted. A sequence is extended only while it still
//!                 passes (every extension of a failing prefix fails the same way).
//! * `redundant` - client only: sequences that additionally contain inputs a lane cannot produce
//!                 but the client state machine documents as ignored (repeated `linked`, repeated
//!                 `synced`, stray notifications while unlinked).
//! * `btree`     - hosted map downlink with the ordered backing (other `drop_or_take` path).
//! * `robust`    - every sequence over the whole alphabet (legal or not): no panic, quiescence.

mod client;
mod hosted;
mod model;
mod repro;
mod wire;

use hosted::Backing;
use model::*;
use serde_json::{json, Value};
use std::collections::BTreeMap;
use std::panic::{catch_unwind, AssertUnwindSafe};
use std::sync::atomic::{AtomicBool, Ordering};
use std::sync::Mutex;
use std::time::Instant;
use vcommon::{Ctx, Leg};
use wire::Wire;

// ------------------------------------------------------------------------------------------------
// running one case

fn panic_text(p: Box<dyn std::any::Any + Send>) -> String {
    if let Some(s) = p.downcast_ref::<&str>() {
        s.to_string()
    } else if let Some(s) = p.downcast_ref::<String>() {
        s.clone()
    } else {
        "panic".into()
    }
}

fn run_one(imp: Imp, kind: Kind, cfg: Cfg, seq: &[Sym], w: &Wire, backing: Backing) -> RunOut {
    run_mode(imp, kind, cfg, seq, w, backing, false)
}

/// `burst`: all inputs are written before the implementation is polled at all (it finds every
/// frame in its buffer at once); the run then has a single step holding every callback.
fn run_mode(imp: Imp, kind: Kind, cfg: Cfg, seq: &[Sym], w: &Wire, backing: Backing, burst: bool) -> RunOut {
    let r = catch_unwind(AssertUnwindSafe(|| match imp {
        Imp::Client => client::run(kind, cfg, seq, w, burst),
        Imp::Hosted => hosted::run(kind, cfg, seq, w, backing, burst),
    }));
    match r {
        Ok(o) => o,
        Err(p) => RunOut { panic: Some(panic_text(p)), ..Default::default() },
    }
}

#[derive(Clone, Copy, PartialEq, Eq, Debug, PartialOrd, Ord)]
enum Target {
    One(Imp),
    Diff,
    Burst(Imp),
    /// the downlink after its write handle has been dropped (read-only mode of the task)
    ReadOnly(Imp),
}

fn run_read_only(imp: Imp, kind: Kind, cfg: Cfg, seq: &[Sym], w: &Wire) -> RunOut {
    match catch_unwind(AssertUnwindSafe(|| match imp {
        Imp::Client => client::run_read_only(kind, cfg, seq, w),
        Imp::Hosted => hosted::run_read_only(kind, cfg, seq, w),
    })) {
        Ok(o) => o,
        Err(p) => RunOut { panic: Some(panic_text(p)), ..Default::default() },
    }
}

impl Target {
    fn name(self) -> &'static str {
        match self {
            Target::One(i) => i.name(),
            Target::Diff => "client-vs-hosted",
            Target::Burst(Imp::Client) => "client-burst",
            Target::Burst(Imp::Hosted) => "hosted-burst",
            Target::ReadOnly(Imp::Client) => "client-readonly",
            Target::ReadOnly(Imp::Hosted) => "hosted-readonly",
        }
    }
    fn parse(s: &str) -> Option<Target> {
        match s {
            "client-vs-hosted" => Some(Target::Diff),
            "client-burst" => Some(Target::Burst(Imp::Client)),
            "hosted-burst" => Some(Target::Burst(Imp::Hosted)),
            "client-readonly" => Some(Target::ReadOnly(Imp::Client)),
            "hosted-readonly" => Some(Target::ReadOnly(Imp::Hosted)),
            other => Imp::parse(other).map(Target::One),
        }
    }
}

#[derive(Clone, Copy)]
struct Mode {
    kind: Kind,
    tolerant: bool,
    backing: Backing,
}

/// Does `seq` fail for `target` under `cfg`? Returns the first mismatch.
fn fails(target: Target, mode: Mode, cfg: Cfg, seq: &[Sym], w: &Wire, runs: &mut u64) -> Option<Mismatch> {
    match target {
        Target::One(imp) => {
            *runs += 1;
            let out = run_one(imp, mode.kind, cfg, seq, w, mode.backing);
            check(mode.kind, cfg, imp, seq, &out, mode.tolerant).mismatch
        }
        Target::Diff => {
            *runs += 2;
            let a = run_one(Imp::Client, mode.kind, cfg, seq, w, mode.backing);
            let ca = check(mode.kind, cfg, Imp::Client, seq, &a, false);
            let b = run_one(Imp::Hosted, mode.kind, cfg, seq, w, mode.backing);
            let cb = check(mode.kind, cfg, Imp::Hosted, seq, &b, false);
            if !ca.legal || ca.mismatch.is_some() || cb.mismatch.is_some() {
                return None;
            }
            differ(&a, &b)
        }
        Target::ReadOnly(imp) => {
            if seq.iter().any(|s| s.is_local()) {
                return None;
            }
            *runs += 1;
            let out = run_read_only(imp, mode.kind, cfg, seq, w);
            check(mode.kind, cfg, imp, seq, &out, mode.tolerant).mismatch
        }
        Target::Burst(imp) => {
            *runs += 2;
            let a = run_one(imp, mode.kind, cfg, seq, w, mode.backing);
            let ca = check(mode.kind, cfg, imp, seq, &a, false);
            if !ca.legal || ca.mismatch.is_some() || seq.iter().any(|s| s.is_local()) {
                return None;
            }
            let b = run_mode(imp, mode.kind, cfg, seq, w, mode.backing, true);
            burst_differs(&a, &b)
        }
    }
}

/// Law `burst_eq_stepwise`: callbacks fire in notification order whatever the pacing - the
/// callbacks of a run that found all frames in its buffer at once equal the concatenation of the
/// callbacks of the run that was given them one at a time.
fn burst_differs(stepwise: &RunOut, burst: &RunOut) -> Option<Mismatch> {
    if let Some(p) = &burst.panic {
        return Some(Mismatch { step: 0, desc: Desc { law: "no_panic", at: "burst".into(), field: "panic" }, expected: "no panic".into(), observed: p.clone() });
    }
    if burst.hang {
        return Some(Mismatch { step: 0, desc: Desc { law: "terminates", at: "burst".into(), field: "hang" }, expected: "quiescence".into(), observed: "poll budget exhausted".into() });
    }
    let flat: Vec<Cb> = stepwise.steps.iter().flatten().cloned().collect();
    let got: Vec<Cb> = burst.steps.iter().flatten().cloned().collect();
    if flat == got {
        return None;
    }
    let j = (0..flat.len().max(got.len())).find(|j| flat.get(*j) != got.get(*j)).unwrap();
    let at = match (flat.get(j), got.get(j)) {
        (Some(a), Some(b)) if a.label() == b.label() => a.label().to_string(),
        (a, b) => format!("stepwise:{}/burst:{}", a.map(|x| x.label()).unwrap_or("none"), b.map(|x| x.label()).unwrap_or("none")),
    };
    Some(Mismatch {
        step: stepwise.steps.len().saturating_sub(1),
        desc: Desc { law: "burst_eq_stepwise", at, field: "trace" },
        expected: format!("stepwise {:?}", flat),
        observed: format!("burst {:?}", got),
    })
}

// ------------------------------------------------------------------------------------------------
// signatures

#[derive(Clone, Debug)]
struct Pattern {
    target: Target,
    kind: Kind,
    backing_btree: bool,
    cfgs: [bool; 4],
    classes: Vec<&'static str>,
    desc: Desc,
    sig: String,
}

fn is_subseq(pat: &[&'static str], seq: &[Sym]) -> bool {
    let mut i = 0;
    for s in seq {
        if i < pat.len() && s.class() == pat[i] {
            i += 1;
        }
    }
    i == pat.len()
}

fn cfg_set_text(set: [bool; 4]) -> String {
    // CFGS order: (ewns,term) = (f,t) (f,f) (t,t) (t,f)
    let has = |e: bool, t: bool| set[CFGS.iter().position(|c| c.ewns == e && c.term == t).unwrap()];
    let es: Vec<bool> = [false, true].into_iter().filter(|e| has(*e, false) || has(*e, true)).collect();
    let ts: Vec<bool> = [false, true].into_iter().filter(|t| has(false, *t) || has(true, *t)).collect();
    let product = es.iter().all(|e| ts.iter().all(|t| has(*e, *t)));
    if product {
        let f = |v: &Vec<bool>| if v.len() == 2 { "*".to_string() } else { v[0].to_string() };
        format!("ewns:{},term:{}", f(&es), f(&ts))
    } else {
        CFGS.iter().zip(set.iter()).filter(|(_, b)| **b).map(|(c, _)| format!("(ewns:{},term:{})", c.ewns, c.term)).collect::<Vec<_>>().join("|")
    }
}

struct Finding {
    sig: String,
    /// ordering key for the deterministic choice of the reported representative
    key: (usize, String, usize),
    detail: Value,
    patterns: Vec<Pattern>,
}

/// Reduce a failing case (in one configuration) to a 1-minimal sequence with the smallest
/// arguments that fails with the same descriptor; also the set of configurations in which that
/// sequence fails the same way.
/// Does the implementation fold local writes into its replica unevenly on `seq` - i.e. does what it
/// reports match neither the fold of the notifications nor the fold of notifications and local
/// writes (the known, uniform, deviation of the client map downlink)?
fn uneven_local_fold(target: Target, mode: Mode, cfg: Cfg, seq: &[Sym], w: &Wire, runs: &mut u64) -> bool {
    match target {
        Target::One(imp) if seq.iter().any(|s| s.is_local()) => {
            *runs += 1;
            let out = run_one(imp, mode.kind, cfg, seq, w, mode.backing);
            out.panic.is_none() && !out.hang && model::check_with(mode.kind, cfg, imp, seq, &out, mode.tolerant, true).mismatch.is_some()
        }
        _ => false,
    }
}

fn reduce(target: Target, mode: Mode, cfg_idx: usize, seq: &[Sym], m: &Mismatch, w: &Wire, runs: &mut u64) -> (Vec<Sym>, Mismatch, [bool; 4]) {
    let cfg = CFGS[cfg_idx];
    // a reproducer of an uneven fold is reduced only to reproducers of an uneven fold (dropping the
    // operation that was not folded would otherwise lead back to the known, uniform, family)
    let keep_uneven = uneven_local_fold(target, mode, cfg, seq, w, runs);
    let same = |cand: &[Sym], runs: &mut u64| fails(target, mode, cfg, cand, w, runs).filter(|x| x.desc == m.desc).filter(|_| !keep_uneven || uneven_local_fold(target, mode, cfg, cand, w, runs));
    let mut cur: Vec<Sym> = seq[..(m.step + 1).min(seq.len())].to_vec();
    if same(&cur, runs).is_none() {
        cur = seq.to_vec();
    }
    let mut last = m.clone();
    loop {
        let mut changed = false;
        let mut i = 0;
        while i < cur.len() {
            let mut cand = cur.clone();
            cand.remove(i);
            if let Some(x) = same(&cand, runs) {
                cur = cand;
                last = x;
                changed = true;
            } else {
                i += 1;
            }
        }
        if !changed {
            break;
        }
    }
    // smallest arguments: replace each symbol by the first symbol of its class that still fails
    let alpha = alphabet(mode.kind, true);
    for i in 0..cur.len() {
        for a in alpha.iter().filter(|a| a.class() == cur[i].class()) {
            if *a == cur[i] {
                break;
            }
            let mut cand = cur.clone();
            cand[i] = *a;
            if let Some(x) = same(&cand, runs) {
                cur = cand;
                last = x;
                break;
            }
        }
    }
    let mut set = [false; 4];
    for (j, c) in CFGS.iter().enumerate() {
        set[j] = j == cfg_idx || fails(target, mode, *c, &cur, w, runs).map(|x| x.desc == m.desc).unwrap_or(false);
    }
    (cur, last, set)
}

/// Canonical identity of a failure: reduce it in its own configuration, then in every other
/// configuration in which the reduced sequence still fails, and take the overall smallest
/// reproducer as the representative. The signature is built from the representative only:
/// descriptor of the first disagreement, the classes of inputs other than linked/synced/upd/ev
/// that it needs ("culprits"), and the configurations in which it fails. Any failure whose
/// 1-minimal reproducer needs a local write is one family: the fold of *notifications* is
/// disturbed by a local write.
fn minimise(target: Target, mode: Mode, cfg_idx: usize, seq: &[Sym], m: &Mismatch, leg: &str, w: &Wire, runs: &mut u64) -> Finding {
    let (local, local_last, local_set) = reduce(target, mode, cfg_idx, seq, m, w, runs);
    let mut best = (local.clone(), local_last.clone(), local_set, cfg_idx);
    for j in 0..CFGS.len() {
        if j == cfg_idx || !local_set[j] {
            continue;
        }
        if let Some(mj) = fails(target, mode, CFGS[j], &local, w, runs).filter(|x| x.desc == m.desc) {
            let (c, l, s) = reduce(target, mode, j, &local, &mj, w, runs);
            if (c.len(), seq_text(&c), j) < (best.0.len(), seq_text(&best.0), best.3) {
                best = (c, l, s, j);
            }
        }
    }
    let (cur, last, set, _) = best;
    let mut culprits: Vec<&'static str> = cur.iter().map(|s| s.class()).filter(|c| !matches!(*c, "linked" | "synced" | "upd" | "ev")).collect();
    culprits.sort();
    culprits.dedup();
    let classes: Vec<&'static str> = cur.iter().map(|s| s.class()).collect();
    let panicky = m.desc.law == "no_panic" || m.desc.law == "terminates";
    // a deviation that needs a local write is the known family only if the implementation does
    // what it evidently intends - fold every local write into the replica while linked; folding
    // some operations or phases and not others is a different defect
    let folds_uniformly = !uneven_local_fold(target, mode, CFGS[set.iter().position(|b| *b).unwrap_or(cfg_idx)], &cur, w, runs);
    let mut sig = if culprits.contains(&"local_write") && !panicky && folds_uniformly {
        format!("impl={} kind={} law={} cause=local_write (a local write through the handle changes what the callbacks report)", target.name(), mode.kind.name(), m.desc.law)
    } else if culprits.contains(&"local_write") && !panicky {
        format!(
            "impl={} kind={} law={} cause=local_write_folded_unevenly (the replica matches neither the fold of the notifications nor the fold of notifications and local writes) at={} needs={}",
            target.name(),
            mode.kind.name(),
            m.desc.law,
            m.desc.at,
            cur.iter().filter(|s| s.is_local()).map(|s| s.class_detail()).collect::<Vec<_>>().join("+")
        )
    } else {
        format!(
            "impl={} kind={} law={} at={} field={} culprits={} cfg={}",
            target.name(),
            mode.kind.name(),
            m.desc.law,
            m.desc.at,
            m.desc.field,
            if culprits.is_empty() { "-".to_string() } else { culprits.join("+") },
            cfg_set_text(set)
        )
    };
    if panicky {
        sig.push_str(&format!(" shape={}", classes.join(",")));
    }
    if mode.backing == Backing::BTree {
        sig.push_str(" backing=btree");
    }
    let first_cfg = set.iter().position(|b| *b).unwrap();
    let detail = json!({
        "leg": leg,
        "target": target.name(),
        "kind": mode.kind.name(),
        "tolerant": mode.tolerant,
        "backing": if mode.backing == Backing::BTree { "btree" } else { "hash" },
        "cfg": {"ewns": CFGS[first_cfg].ewns, "term": CFGS[first_cfg].term},
        "seq": seq_text(&cur),
        "failing_step": last.step,
        "expected": last.expected,
        "observed": last.observed,
        "fails_in_cfgs": CFGS.iter().zip(set.iter()).filter(|(_, b)| **b).map(|(c, _)| c.text()).collect::<Vec<_>>(),
        "found_as": format!("{} [{}]", seq_text(seq), CFGS[cfg_idx].text()),
        "what": format!("{} {} downlink, inputs [{}] with {}: expected {} but observed {}", target.name(), mode.kind.name(), seq_text(&cur), CFGS[first_cfg].text(), last.expected, last.observed),
        "input": format!("{} [{}]", seq_text(&cur), CFGS[first_cfg].text()),
    });
    let bt = mode.backing == Backing::BTree;
    let mut patterns = vec![Pattern { target, kind: mode.kind, backing_btree: bt, cfgs: set, classes, desc: m.desc.clone(), sig: sig.clone() }];
    let local_classes: Vec<&'static str> = local.iter().map(|s| s.class()).collect();
    if local_classes != patterns[0].classes || local_set != set {
        patterns.push(Pattern { target, kind: mode.kind, backing_btree: bt, cfgs: local_set, classes: local_classes, desc: m.desc.clone(), sig: sig.clone() });
    }
    Finding { key: (cur.len(), seq_text(&cur), first_cfg), patterns, sig, detail }
}

// ------------------------------------------------------------------------------------------------
// packed sequences

const CLIENT_OK: u64 = 1;
const HOSTED_OK: u64 = 2;
const DIFF_OK: u64 = 4;
const BURST_C_OK: u64 = 8;
const BURST_H_OK: u64 = 16;

#[derive(Clone, Copy)]
struct Node(u64);

impl Node {
    fn root(mask: u64) -> Node {
        Node(mask << 4)
    }
    fn len(self) -> usize {
        (self.0 & 15) as usize
    }
    fn mask(self) -> u64 {
        (self.0 >> 4) & 31
    }
    fn with_mask(self, m: u64) -> Node {
        Node((self.0 & !(31 << 4)) | (m << 4))
    }
    fn push(self, sym_idx: usize) -> Node {
        let l = self.len();
        Node(((self.0 & !15) | (l as u64 + 1)) | ((sym_idx as u64) << (9 + 5 * l)))
    }
    fn syms(self, alpha: &[Sym]) -> Vec<Sym> {
        (0..self.len()).map(|i| alpha[((self.0 >> (9 + 5 * i)) & 31) as usize]).collect()
    }
}

// ------------------------------------------------------------------------------------------------
// breadth-first leg

struct Bfs<'a> {
    name: &'a str,
    mode: Mode,
    local: bool,
    depth: usize,
    /// which targets are checked: CLIENT_OK | HOSTED_OK | DIFF_OK
    mask: u64,
    cap_s: f64,
}

#[derive(Default, Clone)]
struct Stats {
    states: u64,
    evals: u64,
    transitions: u64,
    nontrivial: u64,
    compared: u64,
    failing_prefixes: u64,
    attributed: u64,
    minimise_runs: u64,
}

impl Stats {
    fn add(&mut self, o: &Stats) {
        self.states += o.states;
        self.evals += o.evals;
        self.transitions += o.transitions;
        self.nontrivial += o.nontrivial;
        self.compared += o.compared;
        self.failing_prefixes += o.failing_prefixes;
        self.attributed += o.attributed;
        self.minimise_runs += o.minimise_runs;
    }
}

/// An event arrived while linked but not yet synced and the link then synced: the state built
/// before sync is observed at `on_synced`.
fn presync_observed(seq: &[Sym]) -> bool {
    let mut linked = false;
    let mut synced = false;
    let mut ev = false;
    for s in seq {
        match s {
            Sym::Linked => {
                if !linked {
                    linked = true;
                    synced = false;
                    ev = false;
                }
            }
            Sym::Unlinked => {
                linked = false;
                synced = false;
                ev = false;
            }
            Sym::Synced => {
                if linked && !synced {
                    if ev {
                        return true;
                    }
                    synced = true;
                }
            }
            x if x.is_event() => {
                if linked && !synced {
                    ev = true;
                }
            }
            _ => {}
        }
    }
    false
}

struct Shared<'a> {
    ctx: &'a Ctx,
    wire: Wire,
    patterns: Mutex<Vec<Pattern>>,
    findings: Mutex<BTreeMap<String, ((usize, String, usize), String, Value)>>,
    samples: Mutex<Vec<Value>>,
}

impl<'a> Shared<'a> {
    fn record(&self, leg: &str, f: Finding) {
        let mut g = self.findings.lock().unwrap();
        match g.get(&f.sig) {
            Some((k, _, _)) if *k <= f.key => {}
            _ => {
                g.insert(f.sig.clone(), (f.key, leg.to_string(), f.detail));
            }
        }
    }
}

fn attribute(frozen: &[Pattern], target: Target, mode: Mode, cfg_idx: usize, seq: &[Sym], m: &Mismatch) -> bool {
    frozen.iter().any(|p| {
        p.target == target
            && p.kind == mode.kind
            && p.backing_btree == (mode.backing == Backing::BTree)
            && p.cfgs[cfg_idx]
            && p.desc == m.desc
            && is_subseq(&p.classes, seq)
    })
}

/// One layer of the breadth-first search for one configuration: every legal one-symbol extension
/// of the still-passing sequences of the previous layer. Returns `None` if the wall cap was hit.
fn run_layer(sh: &Shared, leg: &Bfs, cfg_idx: usize, depth: usize, frontier: &[Node], t0: Instant, total: &mut Stats) -> Option<Vec<Node>> {
    let cfg = CFGS[cfg_idx];
    let alpha = alphabet(leg.mode.kind, leg.local);
    assert!(alpha.len() <= 32 && leg.depth <= 10);
    {
        if t0.elapsed().as_secs_f64() > leg.cap_s {
            return None;
        }
        let frozen: Vec<Pattern> = sh.patterns.lock().unwrap().clone();
        let chunks: Vec<&[Node]> = frontier.chunks(256).collect();
        let capped = AtomicBool::new(false);
        let last = depth == leg.depth;
        let results = vcommon::par_map(&chunks, vcommon::ncpu(), |_, chunk| {
            let mut st = Stats::default();
            let mut next: Vec<Node> = vec![];
            let mut new_patterns: Vec<Pattern> = vec![];
            if capped.load(Ordering::Relaxed) {
                return (st, next, new_patterns, false);
            }
            if t0.elapsed().as_secs_f64() > leg.cap_s {
                capped.store(true, Ordering::Relaxed);
                return (st, next, new_patterns, false);
            }
            for parent in chunk.iter() {
                let pseq = parent.syms(&alpha);
                for (ai, a) in alpha.iter().enumerate() {
                    let mut seq = pseq.clone();
                    seq.push(*a);
                    // legality by the reference alone
                    let mut r = Ref::new(leg.mode.kind, cfg);
                    let mut ok = true;
                    for s in &seq {
                        match r.step(*s).class {
                            Class::Legal => {}
                            Class::Redundant if leg.mode.tolerant => {}
                            _ => {
                                ok = false;
                                break;
                            }
                        }
                    }
                    if !ok || r.post_term > 1 {
                        continue;
                    }
                    st.states += 1;
                    if presync_observed(&seq) {
                        st.nontrivial += 1;
                    }
                    let mut mask = parent.mask();
                    let mut outs: [Option<RunOut>; 2] = [None, None];
                    for (bit, imp, slot) in [(CLIENT_OK, Imp::Client, 0usize), (HOSTED_OK, Imp::Hosted, 1usize)] {
                        if mask & bit == 0 {
                            continue;
                        }
                        st.evals += 1;
                        st.transitions += seq.len() as u64;
                        let out = run_one(imp, leg.mode.kind, cfg, &seq, &sh.wire, leg.mode.backing);
                        let c = check(leg.mode.kind, cfg, imp, &seq, &out, leg.mode.tolerant);
                        st.compared += c.compared_states as u64;
                        if let Some(m) = c.mismatch {
                            mask &= !(bit | DIFF_OK | if imp == Imp::Client { BURST_C_OK } else { BURST_H_OK });
                            st.failing_prefixes += 1;
                            let uneven = seq.iter().any(|s| s.is_local()) && out.panic.is_none() && !out.hang && model::check_with(leg.mode.kind, cfg, imp, &seq, &out, leg.mode.tolerant, true).mismatch.is_some();
                            if !uneven && (attribute(&frozen, Target::One(imp), leg.mode, cfg_idx, &seq, &m) || attribute(&new_patterns, Target::One(imp), leg.mode, cfg_idx, &seq, &m)) {
                                st.attributed += 1;
                            } else {
                                let f = minimise(Target::One(imp), leg.mode, cfg_idx, &seq, &m, leg.name, &sh.wire, &mut st.minimise_runs);
                                new_patterns.extend(f.patterns.iter().cloned());
                                sh.record(leg.name, f);
                            }
                        } else {
                            let bbit = if imp == Imp::Client { BURST_C_OK } else { BURST_H_OK };
                            if mask & bbit != 0 && seq.len() > 1 {
                                st.evals += 1;
                                st.transitions += seq.len() as u64;
                                let b = run_mode(imp, leg.mode.kind, cfg, &seq, &sh.wire, leg.mode.backing, true);
                                if let Some(m) = burst_differs(&out, &b) {
                                    mask &= !bbit;
                                    st.failing_prefixes += 1;
                                    let t = Target::Burst(imp);
                                    if attribute(&frozen, t, leg.mode, cfg_idx, &seq, &m) || attribute(&new_patterns, t, leg.mode, cfg_idx, &seq, &m) {
                                        st.attributed += 1;
                                    } else {
                                        let f = minimise(t, leg.mode, cfg_idx, &seq, &m, leg.name, &sh.wire, &mut st.minimise_runs);
                                        new_patterns.extend(f.patterns.iter().cloned());
                                        sh.record(leg.name, f);
                                    }
                                }
                            }
                            outs[slot] = Some(out);
                        }
                    }
                    if mask & DIFF_OK != 0 {
                        if let (Some(a), Some(b)) = (&outs[0], &outs[1]) {
                            if let Some(m) = differ(a, b) {
                                mask &= !DIFF_OK;
                                st.failing_prefixes += 1;
                                if attribute(&frozen, Target::Diff, leg.mode, cfg_idx, &seq, &m) || attribute(&new_patterns, Target::Diff, leg.mode, cfg_idx, &seq, &m) {
                                    st.attributed += 1;
                                } else {
                                    let f = minimise(Target::Diff, leg.mode, cfg_idx, &seq, &m, leg.name, &sh.wire, &mut st.minimise_runs);
                                    new_patterns.extend(f.patterns.iter().cloned());
                                    sh.record(leg.name, f);
                                }
                            }
                        }
                    }
                    if !last && mask & (CLIENT_OK | HOSTED_OK) != 0 && r.post_term == 0 {
                        next.push(parent.push(ai).with_mask(mask));
                    }
                }
            }
            (st, next, new_patterns, true)
        });
        let mut next_frontier = vec![];
        let mut all_done = true;
        let mut pats = sh.patterns.lock().unwrap();
        for (st, next, np, done) in results {
            total.add(&st);
            next_frontier.extend(next);
            for p in np {
                if !pats.iter().any(|q| q.sig == p.sig && q.classes == p.classes && q.target == p.target) {
                    pats.push(p);
                }
            }
            all_done &= done;
        }
        pats.sort_by(|a, b| (a.classes.len(), &a.sig, &a.classes).cmp(&(b.classes.len(), &b.sig, &b.classes)));
        drop(pats);
        if !all_done {
            return None;
        }
        Some(next_frontier)
    }
}

fn bfs_leg(sh: &Shared, leg: Bfs) {
    let t0 = Instant::now();
    let exhaustive = AtomicBool::new(true);
    let mut total = Stats::default();
    // iterative deepening across the configurations, so that a wall cap cuts the deepest layer of
    // the last configurations instead of starving them completely
    let mut frontiers: Vec<Option<Vec<Node>>> = (0..CFGS.len()).map(|_| Some(vec![Node::root(leg.mask)])).collect();
    let mut done = vec![0usize; CFGS.len()];
    'outer: for depth in 1..=leg.depth {
        for cfg_idx in 0..CFGS.len() {
            let Some(frontier) = frontiers[cfg_idx].take() else { continue };
            if frontier.is_empty() {
                done[cfg_idx] = leg.depth; // fixpoint: nothing left to extend
                frontiers[cfg_idx] = Some(frontier);
                continue;
            }
            match run_layer(sh, &leg, cfg_idx, depth, &frontier, t0, &mut total) {
                Some(next) => {
                    done[cfg_idx] = depth;
                    frontiers[cfg_idx] = Some(next);
                }
                None => {
                    exhaustive.store(false, Ordering::SeqCst);
                    break 'outer;
                }
            }
        }
    }
    let depths: Vec<Value> = (0..CFGS.len()).map(|i| json!({"cfg": CFGS[i].text(), "depth_completed": done[i]})).collect();
    // samples: a few legal sequences with their traces
    let mut samples = vec![];
    let sample_seqs: Vec<Vec<Sym>> = match leg.mode.kind {
        Kind::Map => vec![
            vec![Sym::Linked, Sym::Upd(1, 1), Sym::Upd(2, 2), Sym::Rem(1), Sym::Synced, Sym::Upd(2, 1)],
            vec![Sym::Linked, Sym::Upd(1, 1), Sym::Upd(2, 1), Sym::Take(1), Sym::Synced, Sym::Unlinked],
        ],
        Kind::Value => vec![vec![Sym::Linked, Sym::Ev(1), Sym::Ev(2), Sym::Synced, Sym::Ev(1), Sym::Unlinked]],
    };
    for s in sample_seqs {
        let imp = if leg.mask & CLIENT_OK != 0 { Imp::Client } else { Imp::Hosted };
        let out = run_one(imp, leg.mode.kind, CFGS[3], &s, &sh.wire, leg.mode.backing);
        samples.push(json!({"impl": imp.name(), "cfg": CFGS[3].text(), "seq": seq_text(&s), "callbacks": format!("{:?}", out.steps)}));
    }
    sh.samples.lock().unwrap().extend(samples.iter().cloned());
    let ex = exhaustive.load(Ordering::SeqCst);
    let targets: Vec<&str> = [
        ("client", leg.mask & CLIENT_OK != 0),
        ("hosted", leg.mask & HOSTED_OK != 0),
        ("client==hosted", leg.mask & DIFF_OK != 0),
        ("client burst==stepwise", leg.mask & BURST_C_OK != 0),
        ("hosted burst==stepwise", leg.mask & BURST_H_OK != 0),
    ]
        .iter()
        .filter(|x| x.1)
        .map(|x| x.0)
        .collect();
    sh.ctx.add_leg(Leg {
        name: leg.name.to_string(),
        engine: "E2-sequence-enum".into(),
        states: total.states,
        transitions: total.transitions,
        evaluations: total.evals,
        distinct_nontrivial: total.nontrivial,
        rule: "distinct (configuration, sequence) accepted by the legality acceptor and run; non-trivial = an event arrives while linked-but-unsynced and the link then syncs (the pre-sync fold is observed at on_synced)".into(),
        samples,
        exhaustive: ex,
        bounds: json!({
            "kind": leg.mode.kind.name(), "alphabet": alphabet(leg.mode.kind, leg.local).iter().map(|s| s.text()).collect::<Vec<_>>(),
            "max_len": leg.depth, "configs": 4, "per_config": depths,
            "targets": targets,
            "state_snapshots_compared_with_fold": total.compared,
            "failing_prefixes_not_extended": total.failing_prefixes,
            "failing_prefixes_attributed_to_known_pattern": total.attributed,
            "runs_spent_minimising": total.minimise_runs,
            "accepts_redundant_inputs": leg.mode.tolerant,
        }),
        wall_s: t0.elapsed().as_secs_f64(),
    });
}

// ------------------------------------------------------------------------------------------------
// robustness leg: every sequence, legal or not

/// Every legal notification sequence up to `depth` on the client downlink whose write handle was
/// dropped before the first notification (the task's read-only mode), against the reference fold.
fn readonly_leg(sh: &Shared, imp: Imp, kind: Kind, depth: usize, cap_s: f64) {
    if vcommon::sched::is_worker() {
        return;
    }
    let t0 = Instant::now();
    let name = match (imp, kind) {
        (Imp::Client, Kind::Value) => "readonly-client-value",
        (Imp::Client, Kind::Map) => "readonly-client-map",
        (Imp::Hosted, Kind::Value) => "readonly-hosted-value",
        (Imp::Hosted, Kind::Map) => "readonly-hosted-map",
    };
    let alpha = alphabet(kind, false);
    let mode = Mode { kind, tolerant: false, backing: Backing::Hash };
    // work items: (configuration, first two symbols)
    let mut items: Vec<(usize, Vec<Sym>)> = vec![];
    for ci in 0..CFGS.len() {
        for a in &alpha {
            for b in &alpha {
                items.push((ci, vec![*a, *b]));
            }
        }
    }
    let capped = AtomicBool::new(false);
    let results = vcommon::par_map(&items, vcommon::ncpu(), |_, (ci, prefix)| {
        let mut st = Stats::default();
        let cfg = CFGS[*ci];
        fn legal(kind: Kind, cfg: Cfg, seq: &[Sym]) -> Option<usize> {
            let mut r = Ref::new(kind, cfg);
            for s in seq {
                if r.step(*s).class != Class::Legal {
                    return None;
                }
            }
            Some(r.post_term)
        }
        if legal(kind, cfg, prefix).is_none() {
            return (st, true);
        }
        let mut stack: Vec<Vec<Sym>> = vec![prefix.clone()];
        while let Some(seq) = stack.pop() {
            if capped.load(Ordering::Relaxed) || t0.elapsed().as_secs_f64() > cap_s {
                capped.store(true, Ordering::Relaxed);
                return (st, false);
            }
            let mut extended = false;
            if seq.len() < depth {
                for a in &alpha {
                    let mut s2 = seq.clone();
                    s2.push(*a);
                    if let Some(pt) = legal(kind, cfg, &s2) {
                        if pt <= 1 {
                            stack.push(s2);
                            extended = true;
                        }
                    }
                }
            }
            if extended {
                continue; // every step of a prefix is checked through its maximal extensions
            }
            st.states += 1;
            st.evals += 1;
            st.transitions += seq.len() as u64;
            let out = run_read_only(imp, kind, cfg, &seq, &sh.wire);
            let c = check(kind, cfg, imp, &seq, &out, false);
            st.compared += c.compared_states as u64;
            if presync_observed(&seq) {
                st.nontrivial += 1;
            }
            if let Some(m) = c.mismatch {
                st.failing_prefixes += 1;
                let f = minimise(Target::ReadOnly(imp), mode, *ci, &seq, &m, name, &sh.wire, &mut st.minimise_runs);
                sh.record(name, f);
            }
        }
        (st, true)
    });
    let mut total = Stats::default();
    let mut all = true;
    for (st, done) in results {
        total.add(&st);
        all &= done;
    }
    sh.ctx.add_leg(Leg {
        name: name.to_string(),
        engine: "E2-sequence-enum".into(),
        states: total.states,
        transitions: total.transitions,
        evaluations: total.evals,
        distinct_nontrivial: total.nontrivial,
        rule: "every maximal legal notification sequence up to the depth bound (every prefix is checked step by step within it), in all four configurations, on the downlink after its write handle was dropped; every callback compared with the reference fold".into(),
        samples: vec![],
        exhaustive: all && !capped.load(Ordering::Relaxed),
        bounds: json!({"depth": depth, "alphabet": alpha.len(), "configurations": CFGS.len(), "wall_cap_s": cap_s}),
        wall_s: t0.elapsed().as_secs_f64(),
    });
}

fn robust_leg(sh: &Shared, kind: Kind, depth: usize, cap_s: f64) {
    let t0 = Instant::now();
    let alpha = alphabet(kind, true);
    let a = alpha.len();
    // all sequences of length 0..=depth, numbered smallest first; work items are index ranges
    let mut starts = vec![0u64];
    for l in 0..=depth {
        let last = *starts.last().unwrap();
        starts.push(last + (a as u64).pow(l as u32));
    }
    let n_total = *starts.last().unwrap();
    let decode = |mut i: u64| -> Vec<Sym> {
        let mut l = 0;
        while i >= starts[l + 1] {
            l += 1;
        }
        i -= starts[l];
        let mut v = vec![alpha[0]; l];
        for p in (0..l).rev() {
            v[p] = alpha[(i % a as u64) as usize];
            i /= a as u64;
        }
        v
    };
    let block = 1024u64;
    let items: Vec<u64> = (0..n_total).step_by(block as usize).collect();
    let capped = AtomicBool::new(false);
    let mode = Mode { kind, tolerant: false, backing: Backing::Hash };
    let results = vcommon::par_map(&items, vcommon::ncpu(), |_, start| {
        let mut st = Stats::default();
        for i in *start..(*start + block).min(n_total) {
            if capped.load(Ordering::Relaxed) {
                return (st, false);
            }
            if i % 64 == 0 && t0.elapsed().as_secs_f64() > cap_s {
                capped.store(true, Ordering::Relaxed);
                return (st, false);
            }
            let seq = decode(i);
            st.states += CFGS.len() as u64;
            let mut r = Ref::new(kind, CFGS[0]);
            if seq.iter().any(|s| r.step(*s).class != Class::Legal) {
                st.nontrivial += CFGS.len() as u64;
            }
            for (ci, cfg) in CFGS.iter().enumerate() {
                for imp in [Imp::Client, Imp::Hosted] {
                    st.evals += 1;
                    st.transitions += seq.len() as u64;
                    let out = run_one(imp, kind, *cfg, &seq, &sh.wire, Backing::Hash);
                    if out.panic.is_some() || out.hang {
                        let c = check(kind, *cfg, imp, &seq, &out, false);
                        if let Some(m) = c.mismatch {
                            st.failing_prefixes += 1;
                            let f = minimise(Target::One(imp), mode, ci, &seq, &m, "robust", &sh.wire, &mut st.minimise_runs);
                            sh.record("robust", f);
                        }
                    }
                }
            }
        }
        (st, true)
    });
    let mut total = Stats::default();
    let mut all = true;
    for (st, done) in results {
        total.add(&st);
        all &= done;
    }
    let name = format!("robust-{}", kind.name());
    sh.ctx.add_leg(Leg {
        name,
        engine: "E4-sequence-enum".into(),
        states: total.states,
        transitions: total.transitions,
        evaluations: total.evals,
        distinct_nontrivial: total.nontrivial,
        rule: "every sequence over the whole alphabet up to the length bound, run on both implementations in all four configurations for panic-freedom and quiescence; non-trivial = (configuration, sequence) pairs whose sequence a lane cannot produce (by the acceptor under the default configuration)".into(),
        samples: vec![json!({"seq": "synced,linked,linked,synced,synced", "checked": "no panic, quiescence after every input and after closing the input"})],
        exhaustive: all,
        bounds: json!({"kind": kind.name(), "alphabet_size": a, "max_len": depth, "configs": 4, "impls": ["client", "hosted"]}),
        wall_s: t0.elapsed().as_secs_f64(),
    });
}

// ------------------------------------------------------------------------------------------------

fn replay(ctx: &Ctx, sh: &Shared, r: &Value) {
    let d = &r["detail"];
    let bad = |what: &str| -> ! { vcommon::machinery_failure(&format!("replay file: bad {}", what)) };
    let target = d["target"].as_str().and_then(Target::parse).unwrap_or_else(|| bad("target"));
    let kind = d["kind"].as_str().and_then(Kind::parse).unwrap_or_else(|| bad("kind"));
    let seq = d["seq"].as_str().and_then(parse_seq).unwrap_or_else(|| bad("seq"));
    let ewns = d["cfg"]["ewns"].as_bool().unwrap_or_else(|| bad("cfg"));
    let term = d["cfg"]["term"].as_bool().unwrap_or_else(|| bad("cfg"));
    let cfg_idx = CFGS.iter().position(|c| c.ewns == ewns && c.term == term).unwrap();
    let mode = Mode { kind, tolerant: d["tolerant"].as_bool().unwrap_or(false), backing: if d["backing"] == "btree" { Backing::BTree } else { Backing::Hash } };
    let mut runs = 0;
    match fails(target, mode, CFGS[cfg_idx], &seq, &sh.wire, &mut runs) {
        Some(m) => {
            eprintln!("replay: still fails at step {}: {:?}\n  expected {}\n  observed {}", m.step, m.desc, m.expected, m.observed);
            let f = minimise(target, mode, cfg_idx, &seq, &m, "replay", &sh.wire, &mut runs);
            ctx.violation("replay", &f.sig, f.detail);
        }
        None => eprintln!("replay: the case no longer fails"),
    }
}

fn main() {
    if std::env::var("C08_REPRO").is_ok() {
        repro::run();
        return;
    }
    std::panic::set_hook(Box::new(|_| {}));
    let ctx = Ctx::from_env("C08");
    let sh = Shared { ctx: &ctx, wire: Wire::new(), patterns: Mutex::new(vec![]), findings: Mutex::new(BTreeMap::new()), samples: Mutex::new(vec![]) };

    if let Some(r) = ctx.replay_request() {
        let r = r.clone();
        replay(&ctx, &sh, &r);
        ctx.finish("model_checking", "replay");
    }

    if let Ok(s) = std::env::var("C08_TRACE") {
        // debugging aid: C08_TRACE="map;client;0;linked,upd:1:1,synced"
        let p: Vec<&str> = s.split(';').collect();
        let kind = Kind::parse(p[0]).unwrap();
        let imp = Imp::parse(p[1]).unwrap();
        let cfg = CFGS[p[2].parse::<usize>().unwrap()];
        let seq = parse_seq(p[3]).unwrap();
        let out = run_one(imp, kind, cfg, &seq, &sh.wire, Backing::Hash);
        println!("{} {} {} {}\n{:#?}", kind.name(), imp.name(), cfg.text(), seq_text(&seq), out);
        let c = check(kind, cfg, imp, &seq, &out, false);
        println!("legal={} mismatch={:?}", c.legal, c.mismatch);
        std::process::exit(0);
    }

    let q = ctx.quick();
    let both = CLIENT_OK | HOSTED_OK | DIFF_OK;
    let burst = BURST_C_OK | BURST_H_OK;
    let hash = Backing::Hash;
    let m = |kind, tolerant, backing| Mode { kind, tolerant, backing };
    // value: alphabet 7 (5 without local writes); map: alphabet 21 (14 without local writes)
    bfs_leg(&sh, Bfs { name: "legal-value", mode: m(Kind::Value, false, hash), local: true, depth: if q { 7 } else { 9 }, mask: both, cap_s: 200.0 });
    bfs_leg(&sh, Bfs { name: "legal-value-notifications-only", mode: m(Kind::Value, false, hash), local: false, depth: if q { 8 } else { 10 }, mask: both | burst, cap_s: 200.0 });
    bfs_leg(&sh, Bfs { name: "legal-map", mode: m(Kind::Map, false, hash), local: true, depth: if q { 5 } else { 7 }, mask: both, cap_s: if q { 40.0 } else { 600.0 } });
    bfs_leg(&sh, Bfs { name: "legal-map-notifications-only", mode: m(Kind::Map, false, hash), local: false, depth: if q { 6 } else { 7 }, mask: both | burst, cap_s: if q { 40.0 } else { 500.0 } });
    bfs_leg(&sh, Bfs { name: "redundant-client-value", mode: m(Kind::Value, true, hash), local: false, depth: if q { 7 } else { 9 }, mask: CLIENT_OK, cap_s: 100.0 });
    bfs_leg(&sh, Bfs { name: "redundant-client-map", mode: m(Kind::Map, true, hash), local: false, depth: if q { 5 } else { 6 }, mask: CLIENT_OK, cap_s: if q { 20.0 } else { 300.0 } });
    bfs_leg(&sh, Bfs { name: "hosted-map-btree-backing", mode: m(Kind::Map, false, Backing::BTree), local: false, depth: if q { 5 } else { 6 }, mask: HOSTED_OK, cap_s: if q { 20.0 } else { 300.0 } });
    for imp in [Imp::Client, Imp::Hosted] {
        readonly_leg(&sh, imp, Kind::Value, if q { 8 } else { 10 }, if q { 30.0 } else { 300.0 });
        readonly_leg(&sh, imp, Kind::Map, if q { 5 } else { 6 }, if q { 30.0 } else { 300.0 });
    }
    robust_leg(&sh, Kind::Value, if q { 6 } else { 8 }, if q { 30.0 } else { 300.0 });
    robust_leg(&sh, Kind::Map, if q { 4 } else { 5 }, if q { 30.0 } else { 400.0 });

    let findings = std::mem::take(&mut *sh.findings.lock().unwrap());
    for (sig, (_, leg, detail)) in findings {
        ctx.violation(&leg, &sig, detail);
    }
    ctx.assume("one input at a time, the task is run to quiescence after each (the interleaving of a local write with a notification that is already in flight is not explored here)");
    ctx.assume("keys {1,2}, values {1,2}, take/drop counts {0,1}; i32 keys and values (Recon order == numeric order)");
    ctx.assume("legality acceptor: linked only while unlinked; events and synced only while linked; synced at most once per link (value: only after an event); unlinked any time; local writes any time");
    ctx.assume("tokio::select! start branch is not enumerated: with one input at a time at most one branch is ready");
    ctx.finish(
        "model_checking",
        "bounded-exhaustive enumeration of notification / local-write sequences run on the real client DownlinkTask and the real hosted downlink channels, every lifecycle callback (with its state snapshot) compared with a reference fold, plus the differential law client == hosted",
    );
}

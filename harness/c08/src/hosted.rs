//! Driver for the agent-hosted downlinks (`HostedValueDownlink` / `HostedMapDownlink`).
//!
//! The factories are private to `swimos_agent`, but the public `OpenMapDownlinkAction` /
//! `OpenValueDownlinkAction` hand them, boxed, to the `LinkSpawner` of the `ActionContext` they
//! are stepped in. The harness supplies its own spawner, takes the factory, creates the channel
//! on its own byte channels and then drives it exactly as the agent task does
//! (`await_ready` -> `next_event` -> run the handler to completion).

use crate::model::{Cb, Cfg, Kind, RunOut, Status, Sym, M};
use crate::wire::{self, Wire};
use bytes::BytesMut;
use std::cell::RefCell;
use std::collections::{BTreeMap, HashMap};
use std::num::NonZeroUsize;
use std::sync::{Arc, Mutex};
use swimos_agent::agent_model::downlink::{
    BoxDownlinkChannel, BoxDownlinkChannelFactory, DownlinkChannelError, DownlinkChannelEvent, OpenMapDownlinkAction, OpenValueDownlinkAction,
};
use swimos_agent::config::{MapDownlinkConfig, SimpleDownlinkConfig};
use swimos_agent::downlink_lifecycle::{
    OnDownlinkClear, OnDownlinkEvent, OnDownlinkRemove, OnDownlinkSet, OnDownlinkUpdate, OnFailed, OnLinked, OnSynced, OnUnlinked,
};
use swimos_agent::event_handler::{
    ActionContext, DownlinkSpawnOnDone, HandlerAction, HandlerActionExt, HandlerFuture, LaneSpawnOnDone, LaneSpawner, LinkSpawner,
    LocalBoxEventHandler, SideEffect, Spawner, StepResult,
};
use swimos_agent::AgentMetadata;
use swimos_api::address::Address;
use swimos_api::agent::{AgentConfig, WarpLaneKind};
use swimos_api::error::{CommanderRegistrationError, DynamicRegistrationError};
use swimos_model::Text;
use swimos_utilities::byte_channel::{byte_channel, BudgetedFutureExt};
use swimos_utilities::routing::RouteUri;
use vcommon::sched::Subject;

pub struct Agent;

type Log = Arc<Mutex<Vec<Cb>>>;

fn take(log: &Log) -> Vec<Cb> {
    std::mem::take(&mut *log.lock().unwrap())
}

/// Snapshot of a map backing as an ordered map.
pub trait Snap: Default + Send + 'static {
    fn snap(&self) -> M;
}

impl Snap for HashMap<i32, i32> {
    fn snap(&self) -> M {
        self.iter().map(|(k, v)| (*k, *v)).collect()
    }
}

impl Snap for BTreeMap<i32, i32> {
    fn snap(&self) -> M {
        self.clone()
    }
}

struct Lc {
    log: Log,
}

impl OnLinked<Agent> for Lc {
    type OnLinkedHandler<'a> = LocalBoxEventHandler<'a, Agent> where Self: 'a;
    fn on_linked(&self) -> Self::OnLinkedHandler<'_> {
        SideEffect::from(move || self.log.lock().unwrap().push(Cb::Linked)).boxed_local()
    }
}

impl OnUnlinked<Agent> for Lc {
    type OnUnlinkedHandler<'a> = LocalBoxEventHandler<'a, Agent> where Self: 'a;
    fn on_unlinked(&self) -> Self::OnUnlinkedHandler<'_> {
        SideEffect::from(move || self.log.lock().unwrap().push(Cb::Unlinked)).boxed_local()
    }
}

impl OnFailed<Agent> for Lc {
    type OnFailedHandler<'a> = LocalBoxEventHandler<'a, Agent> where Self: 'a;
    fn on_failed(&self) -> Self::OnFailedHandler<'_> {
        SideEffect::from(move || self.log.lock().unwrap().push(Cb::Failed)).boxed_local()
    }
}

impl<B: Snap> OnSynced<B, Agent> for Lc {
    type OnSyncedHandler<'a> = LocalBoxEventHandler<'a, Agent> where Self: 'a;
    fn on_synced<'a>(&'a self, value: &B) -> Self::OnSyncedHandler<'a> {
        let map = value.snap();
        SideEffect::from(move || self.log.lock().unwrap().push(Cb::SyncedM(map))).boxed_local()
    }
}

impl<B: Snap> OnDownlinkUpdate<i32, i32, B, Agent> for Lc {
    type OnUpdateHandler<'a> = LocalBoxEventHandler<'a, Agent> where Self: 'a;
    fn on_update<'a>(&'a self, key: i32, map: &B, previous: Option<i32>, new_value: &i32) -> Self::OnUpdateHandler<'a> {
        let map = map.snap();
        let new = *new_value;
        SideEffect::from(move || self.log.lock().unwrap().push(Cb::Update { k: key, old: previous, new, map })).boxed_local()
    }
}

impl<B: Snap> OnDownlinkRemove<i32, i32, B, Agent> for Lc {
    type OnRemoveHandler<'a> = LocalBoxEventHandler<'a, Agent> where Self: 'a;
    fn on_remove<'a>(&'a self, key: i32, map: &B, removed: i32) -> Self::OnRemoveHandler<'a> {
        let map = map.snap();
        SideEffect::from(move || self.log.lock().unwrap().push(Cb::Remove { k: key, old: removed, map })).boxed_local()
    }
}

impl<B: Snap> OnDownlinkClear<B, Agent> for Lc {
    type OnClearHandler<'a> = LocalBoxEventHandler<'a, Agent> where Self: 'a;
    fn on_clear(&self, map: B) -> Self::OnClearHandler<'_> {
        let old = map.snap();
        SideEffect::from(move || self.log.lock().unwrap().push(Cb::Clear { old })).boxed_local()
    }
}

struct VLc {
    log: Log,
}

impl OnLinked<Agent> for VLc {
    type OnLinkedHandler<'a> = LocalBoxEventHandler<'a, Agent> where Self: 'a;
    fn on_linked(&self) -> Self::OnLinkedHandler<'_> {
        SideEffect::from(move || self.log.lock().unwrap().push(Cb::Linked)).boxed_local()
    }
}

impl OnUnlinked<Agent> for VLc {
    type OnUnlinkedHandler<'a> = LocalBoxEventHandler<'a, Agent> where Self: 'a;
    fn on_unlinked(&self) -> Self::OnUnlinkedHandler<'_> {
        SideEffect::from(move || self.log.lock().unwrap().push(Cb::Unlinked)).boxed_local()
    }
}

impl OnFailed<Agent> for VLc {
    type OnFailedHandler<'a> = LocalBoxEventHandler<'a, Agent> where Self: 'a;
    fn on_failed(&self) -> Self::OnFailedHandler<'_> {
        SideEffect::from(move || self.log.lock().unwrap().push(Cb::Failed)).boxed_local()
    }
}

impl OnSynced<i32, Agent> for VLc {
    type OnSyncedHandler<'a> = LocalBoxEventHandler<'a, Agent> where Self: 'a;
    fn on_synced<'a>(&'a self, value: &i32) -> Self::OnSyncedHandler<'a> {
        let v = *value;
        SideEffect::from(move || self.log.lock().unwrap().push(Cb::SyncedV(v))).boxed_local()
    }
}

impl OnDownlinkEvent<i32, Agent> for VLc {
    type OnEventHandler<'a> = LocalBoxEventHandler<'a, Agent> where Self: 'a;
    fn on_event(&self, value: &i32) -> Self::OnEventHandler<'_> {
        let v = *value;
        SideEffect::from(move || self.log.lock().unwrap().push(Cb::Event(v))).boxed_local()
    }
}

impl OnDownlinkSet<i32, Agent> for VLc {
    type OnSetHandler<'a> = LocalBoxEventHandler<'a, Agent> where Self: 'a;
    fn on_set<'a>(&'a self, previous: Option<i32>, new_value: &i32) -> Self::OnSetHandler<'a> {
        let new = *new_value;
        SideEffect::from(move || self.log.lock().unwrap().push(Cb::Set { old: previous, new })).boxed_local()
    }
}

/// Spawner that takes the downlink factory an `Open*DownlinkAction` registers.
#[derive(Default)]
struct Capture {
    factory: RefCell<Option<BoxDownlinkChannelFactory<Agent>>>,
}

impl Spawner<Agent> for Capture {
    fn spawn_suspend(&self, _fut: HandlerFuture<Agent>) {
        panic!("harness: unexpected suspend");
    }
    fn schedule_timer(&self, _at: tokio::time::Instant, _id: u64) {
        panic!("harness: unexpected timer");
    }
}

impl LinkSpawner<Agent> for Capture {
    fn spawn_downlink(&self, _path: Address<Text>, make_channel: BoxDownlinkChannelFactory<Agent>, _on_done: DownlinkSpawnOnDone<Agent>) {
        *self.factory.borrow_mut() = Some(make_channel);
    }
    fn register_commander(&self, _path: Address<Text>) -> Result<u16, CommanderRegistrationError> {
        panic!("harness: unexpected commander");
    }
}

impl LaneSpawner<Agent> for Capture {
    fn spawn_warp_lane(&self, _name: &str, _kind: WarpLaneKind, _on_done: LaneSpawnOnDone<Agent>) -> Result<(), DynamicRegistrationError> {
        panic!("harness: unexpected lane");
    }
}

struct Env {
    uri: RouteUri,
    params: HashMap<String, String>,
    config: AgentConfig,
}

impl Env {
    fn new() -> Env {
        Env { uri: RouteUri::try_from("/node").expect("uri"), params: HashMap::new(), config: AgentConfig::DEFAULT }
    }
}

/// Step a handler action to completion in a context with the capturing spawner.
fn run_action<H: HandlerAction<Agent>>(mut h: H, agent: &Agent, spawner: &Capture, env: &Env) -> H::Completion {
    let meta = AgentMetadata::new(&env.uri, &env.params, &env.config);
    let mut join_lane_init = HashMap::new();
    let mut command_buffer = BytesMut::new();
    let mut context = ActionContext::new(spawner, spawner, spawner, &mut join_lane_init, &mut command_buffer);
    let mut steps = 0;
    loop {
        match h.step(&mut context, meta, agent) {
            StepResult::Continue { .. } => {
                steps += 1;
                if steps > 10_000 {
                    panic!("lifecycle handler does not complete");
                }
            }
            StepResult::Fail(err) => panic!("lifecycle handler failed: {}", err),
            StepResult::Complete { result, .. } => break result,
        }
    }
}

/// The agent task's treatment of one hosted downlink (`HostedDownlink::wait_on_downlink` plus the
/// `HandlerReady` arm of the agent loop), without reconnection.
async fn drive(mut chan: BoxDownlinkChannel<Agent>) {
    let agent = Agent;
    let spawner = Capture::default();
    let env = Env::new();
    loop {
        match chan.await_ready().await {
            Some(Ok(DownlinkChannelEvent::HandlerReady)) => {
                if let Some(h) = chan.next_event(&agent) {
                    run_action(h, &agent, &spawner, &env);
                }
            }
            Some(Ok(_)) => {}
            Some(Err(DownlinkChannelError::ReadFailed)) => {
                if let Some(h) = chan.next_event(&agent) {
                    run_action(h, &agent, &spawner, &env);
                }
                break;
            }
            Some(Err(DownlinkChannelError::WriteFailed(_))) => break,
            None => break,
        }
    }
}

const CHANNEL: usize = 4096;
const POLL_CAP: u64 = 10_000;

fn settle<T>(subj: &mut Subject<T>, out: &mut RunOut) {
    while subj.runnable() {
        subj.poll();
        if subj.polls > POLL_CAP {
            out.hang = true;
            break;
        }
    }
}

#[derive(Clone, Copy, PartialEq, Eq, Debug)]
pub enum Backing {
    Hash,
    BTree,
}

pub fn run(kind: Kind, cfg: Cfg, seq: &[Sym], w: &Wire, backing: Backing, burst: bool) -> RunOut {
    match (kind, backing) {
        (Kind::Map, Backing::Hash) => run_map_hash(cfg, seq, w, burst, false),
        (Kind::Map, Backing::BTree) => run_map_btree(cfg, seq, w, burst, false),
        (Kind::Value, _) => run_value(cfg, seq, w, burst, false),
    }
}

/// The same downlink after the agent has dropped its handle (the write stream of the channel
/// terminates; local write symbols are ignored).
pub fn run_read_only(kind: Kind, cfg: Cfg, seq: &[Sym], w: &Wire) -> RunOut {
    match kind {
        Kind::Map => run_map_hash(cfg, seq, w, false, true),
        Kind::Value => run_value(cfg, seq, w, false, true),
    }
}

macro_rules! run_map_impl {
    ($name:ident, $backing:ty) => {
fn $name(cfg: Cfg, seq: &[Sym], w: &Wire, burst: bool, read_only: bool) -> RunOut {
    let mut out = RunOut::default();
    let log: Log = Default::default();
    let agent = Agent;
    let spawner = Capture::default();
    let env = Env::new();
    let config = MapDownlinkConfig { events_when_not_synced: cfg.ewns, terminate_on_unlinked: cfg.term };
    let action = OpenMapDownlinkAction::<i32, i32, $backing, Lc>::new(Address::text(None, "/node", "lane"), Lc { log: log.clone() }, config);
    let mut handle = Some(run_action(action, &agent, &spawner, &env));
    let factory = spawner.factory.borrow_mut().take().expect("harness: no downlink factory registered");
    let (mut in_tx, in_rx) = byte_channel(NonZeroUsize::new(CHANNEL).unwrap());
    let (out_tx, out_rx) = byte_channel(NonZeroUsize::new(CHANNEL).unwrap());
    let chan = factory.create_box(&agent, out_tx, in_rx);
    let mut subj = Subject::new(drive(chan).budgeted());
    settle(&mut subj, &mut out);
    if read_only {
        handle = None;
        settle(&mut subj, &mut out);
    }
    for (_i, s) in seq.iter().enumerate() {
        match *s {
            Sym::LUpd(k, x) => {
                if let Some(h) = &handle {
                    let _ = h.update(k, x);
                }
            }
            Sym::LRem(k) => {
                if let Some(h) = &handle {
                    let _ = h.remove(k);
                }
            }
            Sym::LClear => {
                if let Some(h) = &handle {
                    let _ = h.clear();
                }
            }
            other => {
                if let Some(bytes) = w.map_bytes(other) {
                    let _ = wire::write_bytes(&mut in_tx, bytes);
                }
            }
        }
        if burst && _i + 1 < seq.len() {
            continue;
        }
        settle(&mut subj, &mut out);
        out.steps.push(take(&log));
        out.status.push(Status { done: !subj.alive(), failed: false, linked: handle.as_ref().map(|h| h.is_linked()), stopped: handle.as_ref().map(|h| h.is_stopped()) });
        if out.hang {
            return out;
        }
    }
    drop(in_tx);
    settle(&mut subj, &mut out);
    out.tail = take(&log);
    out.polls = subj.polls;
    drop(out_rx);
    out
}
    };
}

run_map_impl!(run_map_hash, HashMap<i32, i32>);
run_map_impl!(run_map_btree, BTreeMap<i32, i32>);

fn run_value(cfg: Cfg, seq: &[Sym], w: &Wire, burst: bool, read_only: bool) -> RunOut {
    let mut out = RunOut::default();
    let log: Log = Default::default();
    let agent = Agent;
    let spawner = Capture::default();
    let env = Env::new();
    let config = SimpleDownlinkConfig { events_when_not_synced: cfg.ewns, terminate_on_unlinked: cfg.term };
    let action = OpenValueDownlinkAction::<i32, VLc>::new(Address::text(None, "/node", "lane"), VLc { log: log.clone() }, config);
    let mut handle = Some(run_action(action, &agent, &spawner, &env));
    let factory = spawner.factory.borrow_mut().take().expect("harness: no downlink factory registered");
    let (mut in_tx, in_rx) = byte_channel(NonZeroUsize::new(CHANNEL).unwrap());
    let (out_tx, out_rx) = byte_channel(NonZeroUsize::new(CHANNEL).unwrap());
    let chan = factory.create_box(&agent, out_tx, in_rx);
    let mut subj = Subject::new(drive(chan).budgeted());
    settle(&mut subj, &mut out);
    if read_only {
        handle = None;
        settle(&mut subj, &mut out);
    }
    for (_i, s) in seq.iter().enumerate() {
        match *s {
            Sym::LSet(x) => {
                if let Some(h) = handle.as_mut() {
                    let _ = h.set(x);
                }
            }
            other => {
                if let Some(bytes) = w.value_bytes(other) {
                    let _ = wire::write_bytes(&mut in_tx, bytes);
                }
            }
        }
        if burst && _i + 1 < seq.len() {
            continue;
        }
        settle(&mut subj, &mut out);
        out.steps.push(take(&log));
        out.status.push(Status { done: !subj.alive(), failed: false, linked: handle.as_ref().map(|h| h.is_linked()), stopped: handle.as_ref().map(|h| h.is_stopped()) });
        if out.hang {
            return out;
        }
    }
    drop(in_tx);
    settle(&mut subj, &mut out);
    out.tail = take(&log);
    out.polls = subj.polls;
    drop(out_rx);
    out
}

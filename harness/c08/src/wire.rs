//! Pre-encoded notification frames (with the repository's own encoders) and small polling helpers.

use crate::model::Sym;
use bytes::BytesMut;
use std::collections::HashMap;
use std::future::Future;
use std::pin::Pin;
use std::task::{Context, Poll};
use swimos_agent_protocol::encoding::downlink::DownlinkNotificationEncoder;
use swimos_agent_protocol::encoding::map::MapMessageEncoder;
use swimos_agent_protocol::{DownlinkNotification, MapMessage};
use swimos_utilities::byte_channel::ByteWriter;
use tokio::io::AsyncWrite;
use tokio_util::codec::Encoder;

pub struct Wire {
    map: HashMap<Sym, Vec<u8>>,
    value: HashMap<Sym, Vec<u8>>,
}

fn frame(n: DownlinkNotification<Vec<u8>>) -> Vec<u8> {
    let mut buf = BytesMut::new();
    DownlinkNotificationEncoder.encode(n, &mut buf).expect("encode notification");
    buf.to_vec()
}

fn map_body(m: MapMessage<i32, i32>) -> Vec<u8> {
    let mut enc = MapMessageEncoder::default();
    let mut buf = BytesMut::new();
    enc.encode(m, &mut buf).expect("encode map message");
    buf.to_vec()
}

impl Wire {
    pub fn new() -> Wire {
        let mut map = HashMap::new();
        let mut value = HashMap::new();
        for t in [&mut map, &mut value] {
            t.insert(Sym::Linked, frame(DownlinkNotification::Linked));
            t.insert(Sym::Synced, frame(DownlinkNotification::Synced));
            t.insert(Sym::Unlinked, frame(DownlinkNotification::Unlinked));
        }
        for k in crate::model::KEYS.into_iter().chain([1, 2]) {
            for x in [1, 2] {
                map.insert(Sym::Upd(k, x), frame(DownlinkNotification::Event { body: map_body(MapMessage::Update { key: k, value: x }) }));
            }
            map.insert(Sym::Rem(k), frame(DownlinkNotification::Event { body: map_body(MapMessage::Remove { key: k }) }));
        }
        map.insert(Sym::Clear, frame(DownlinkNotification::Event { body: map_body(MapMessage::Clear) }));
        for n in [0u64, 1] {
            map.insert(Sym::Take(n), frame(DownlinkNotification::Event { body: map_body(MapMessage::Take(n)) }));
            map.insert(Sym::Drop(n), frame(DownlinkNotification::Event { body: map_body(MapMessage::Drop(n)) }));
        }
        for x in [1, 2] {
            value.insert(Sym::Ev(x), frame(DownlinkNotification::Event { body: format!("{}", x).into_bytes() }));
        }
        Wire { map, value }
    }

    pub fn map_bytes(&self, s: Sym) -> Option<&[u8]> {
        self.map.get(&s).map(|v| v.as_slice())
    }

    pub fn value_bytes(&self, s: Sym) -> Option<&[u8]> {
        self.value.get(&s).map(|v| v.as_slice())
    }
}

/// Write a whole frame into the channel without blocking (the channel is far larger than a run's
/// input). A `Pending` can only be the byte channel's cooperative budget; it is retried.
pub fn write_bytes(w: &mut ByteWriter, bytes: &[u8]) -> bool {
    let waker = futures::task::noop_waker();
    let mut cx = Context::from_waker(&waker);
    let mut off = 0;
    let mut spins = 0;
    while off < bytes.len() {
        match Pin::new(&mut *w).poll_write(&mut cx, &bytes[off..]) {
            Poll::Ready(Ok(n)) => off += n,
            Poll::Ready(Err(_)) => return false,
            Poll::Pending => {
                spins += 1;
                if spins > 1000 {
                    panic!("harness: input channel full");
                }
            }
        }
    }
    true
}

/// Poll a future once with a no-op waker.
pub fn poll_once<F: Future>(f: F) -> Option<F::Output> {
    let waker = futures::task::noop_waker();
    let mut cx = Context::from_waker(&waker);
    let mut f = std::pin::pin!(f);
    match f.as_mut().poll(&mut cx) {
        Poll::Ready(v) => Some(v),
        Poll::Pending => None,
    }
}

//! C09 - Recon text is a faithful and stable encoding, however it is chunked.
//! Engine E4: bounded-exhaustive enumeration of model values / typed values, the three printers,
//! the one-shot parser and the two resumable decoders under every 1-cut, every 2-cut (len <= 48)
//! and the byte-by-byte chunking.

mod checks;
mod gen;
mod lex;
mod model;
mod subject;
mod typed;
mod watch;

use checks::{text_violations, text_violations_lim, value_laws, value_violations, Viol, SENTINEL};
use gen::{shapes, Space};
use model::{from_json, ref_print, strict_eq, text_class};
use serde_json::json;
use std::collections::{BTreeMap, BTreeSet};
use std::sync::Mutex;
use std::time::Instant;
use subject::{calls, print};
use swimos_model::Value;
use vcommon::{ncpu, par_map, Ctx, Leg};

/// Violations found so far: per signature the one with the smallest key (deterministic whatever
/// the thread interleaving).
struct Acc {
    found: Mutex<BTreeMap<String, Viol>>,
}

impl Acc {
    fn add(&self, v: Viol) {
        let mut f = self.found.lock().unwrap();
        match f.get(&v.sig) {
            Some(old) if old.key <= v.key => {}
            _ => {
                f.insert(v.sig.clone(), v);
            }
        }
    }
    fn add_all(&self, vs: Vec<Viol>) {
        for v in vs {
            self.add(v);
        }
    }
}

#[derive(Clone)]
enum Job {
    Memo { s: usize, start: usize, end: usize },
    Shape { s: usize, shape: usize, start: u64, end: u64 },
}

fn jobs_for(sp: &Space, sizes: std::ops::RangeInclusive<usize>, chunk: u64) -> Vec<Job> {
    let mut jobs = vec![];
    for s in sizes {
        if s < sp.vals.len() {
            let n = sp.vals[s].len();
            let mut a = 0;
            while a < n {
                let b = (a + chunk as usize).min(n);
                jobs.push(Job::Memo { s, start: a, end: b });
                a = b;
            }
        } else {
            for (k, sh) in shapes(s).iter().enumerate() {
                let n = sp.shape_count(sh);
                let mut a = 0;
                while a < n {
                    let b = (a + chunk).min(n);
                    jobs.push(Job::Shape { s, shape: k, start: a, end: b });
                    a = b;
                }
            }
        }
    }
    jobs
}

fn for_each_value(sp: &Space, shape_tabs: &BTreeMap<usize, Vec<gen::Shape>>, job: &Job, mut f: impl FnMut(&Value)) {
    match job {
        Job::Memo { s, start, end } => {
            for v in &sp.vals[*s][*start..*end] {
                f(v);
            }
        }
        Job::Shape { s, shape, start, end } => {
            let sh = &shape_tabs[s][*shape];
            for i in *start..*end {
                let v = sp.build(sh, i);
                f(&v);
            }
        }
    }
}

fn value_nontrivial(v: &Value) -> bool {
    match v {
        Value::Record(a, i) => !a.is_empty() || !i.is_empty(),
        Value::Text(t) => text_class(t.as_str()) != "ident",
        _ => false,
    }
}

#[derive(Default, Clone)]
struct Tally {
    states: u64,
    evaluations: u64,
    transitions: u64,
    nontrivial: u64,
    extra: u64,
    /// jobs not run because the leg's wall-clock cap was reached
    skipped: u64,
    skipped_inputs: u64,
}

impl Tally {
    fn merge(&mut self, o: &Tally) {
        self.states += o.states;
        self.evaluations += o.evaluations;
        self.transitions += o.transitions;
        self.nontrivial += o.nontrivial;
        self.extra += o.extra;
        self.skipped += o.skipped;
        self.skipped_inputs += o.skipped_inputs;
    }
}

/// Oracles (1), (2), (4) on every value of the jobs.
fn run_value_jobs(sp: &Space, tabs: &BTreeMap<usize, Vec<gen::Shape>>, jobs: &[Job], acc: &Acc, leg: &str, cap_s: f64) -> Tally {
    let started = Instant::now();
    let res = par_map(jobs, ncpu(), |_, job| {
        let c0 = calls();
        let mut t = Tally::default();
        if started.elapsed().as_secs_f64() > cap_s {
            t.skipped = 1;
            return t;
        }
        checks::reset_cache();
        for_each_value(sp, tabs, job, |v| {
            watch::enter("value", "");
            t.states += 1;
            if value_nontrivial(v) {
                t.nontrivial += 1;
            }
            let laws = value_laws(v, false);
            t.evaluations += laws.evaluations;
            if laws.producible {
                t.extra += 1;
            }
            if !laws.failed.is_empty() {
                watch::enter("value", &ref_print(v));
                let (vs, e) = value_violations(v, false, &laws, leg);
                t.evaluations += e;
                acc.add_all(vs);
            }
            watch::leave();
        });
        t.transitions = calls() - c0;
        t
    });
    let mut t = Tally::default();
    for r in &res {
        t.merge(r);
    }
    t
}

/// The distinct texts the three printers produce for the values of the jobs.
fn collect_texts(sp: &Space, tabs: &BTreeMap<usize, Vec<gen::Shape>>, jobs: &[Job], max_chars: Option<usize>) -> BTreeSet<String> {
    let res = par_map(jobs, ncpu(), |_, job| {
        let mut out = BTreeSet::new();
        for_each_value(sp, tabs, job, |v| {
            for i in 0..3 {
                if let Ok(t) = print(i, v) {
                    if max_chars.map(|m| t.chars().count() <= m).unwrap_or(true) {
                        out.insert(t);
                    }
                }
            }
        });
        out
    });
    let mut all = BTreeSet::new();
    for r in res {
        all.extend(r);
    }
    all
}

/// Oracles (3), (4) on every text; for texts the one-shot parser accepts, oracle (1) on the value
/// it produced (it is parser-produced by construction).
fn run_text_jobs(texts: &[String], acc: &Acc, leg: &str, max_cuts: usize, check_parsed: bool, cap_s: f64) -> Tally {
    let started = Instant::now();
    let idx: Vec<usize> = (0..texts.len()).step_by(64).collect();
    let res = par_map(&idx, ncpu(), |_, &a| {
        let c0 = calls();
        let mut t = Tally::default();
        if started.elapsed().as_secs_f64() > cap_s {
            t.skipped = 1;
            t.skipped_inputs = ((a + 64).min(texts.len()) - a) as u64;
            return t;
        }
        checks::reset_cache();
        for text in &texts[a..(a + 64).min(texts.len())] {
            watch::enter("text", text);
            t.states += 1;
            let (vs, st, oneshot) = text_violations::<Value>(text, &strict_eq, SENTINEL, max_cuts, leg, "Value");
            t.evaluations += st.evaluations;
            t.nontrivial += st.nontrivial;
            if st.oneshot_ok {
                t.extra += 1;
            }
            acc.add_all(vs);
            if check_parsed {
                if let Some(w) = oneshot.ok() {
                    let laws = value_laws(w, true);
                    t.evaluations += laws.evaluations;
                    if !laws.failed.is_empty() {
                        let (vs, e) = value_violations(w, true, &laws, leg);
                        t.evaluations += e;
                        acc.add_all(vs);
                    }
                }
            }
            watch::leave();
        }
        t.transitions = calls() - c0;
        t
    });
    let mut t = Tally::default();
    for r in &res {
        t.merge(r);
    }
    t
}

/// Every single-character deletion and duplication.
fn mutations(text: &str) -> Vec<String> {
    let cs: Vec<char> = text.chars().collect();
    let mut out = vec![];
    for i in 0..cs.len() {
        let mut d: Vec<char> = cs.clone();
        d.remove(i);
        out.push(d.into_iter().collect());
        let mut u: Vec<char> = cs.clone();
        u.insert(i, cs[i]);
        out.push(u.into_iter().collect());
    }
    out
}

fn replay(ctx: Ctx) -> ! {
    let r = ctx.replay_request().unwrap().clone();
    let d = &r["detail"];
    let acc = Acc { found: Mutex::new(BTreeMap::new()) };
    let leg = d["leg"].as_str().unwrap_or("replay").to_string();
    match d["kind"].as_str().unwrap_or("") {
        "value" => {
            let v = from_json(&d["value"]).unwrap_or_else(|| vcommon::machinery_failure("replay: bad value"));
            let force = d["force_producible"].as_bool().unwrap_or(false);
            let laws = value_laws(&v, force);
            let (vs, _) = value_violations(&v, force, &laws, &leg);
            acc.add_all(vs);
        }
        "text" => {
            let text = d["text"].as_str().unwrap_or_else(|| vcommon::machinery_failure("replay: no text"));
            let max_cuts = d["max_cuts"].as_u64().unwrap_or(2) as usize;
            let lim = match d["one_cut_limit"].as_u64().unwrap_or(0) {
                0 => usize::MAX,
                n => n as usize,
            };
            let (vs, _, oneshot) = text_violations_lim::<Value>(text, &strict_eq, SENTINEL, max_cuts, &leg, "Value", lim);
            acc.add_all(vs);
            if let Some(w) = oneshot.ok() {
                let laws = value_laws(w, true);
                let (vs, _) = value_violations(w, true, &laws, &leg);
                acc.add_all(vs);
            }
        }
        "typed" => {
            let name = d["type"].as_str().unwrap_or("").to_string();
            let index = d["index"].as_u64().unwrap_or(0) as usize;
            let mut out = vec![];
            let mut st = typed::TypedStats { states: 0, evaluations: 0, nontrivial: 0, samples: vec![] };
            let mut runner = typed::Runner { out: &mut out, stats: &mut st, max_cuts: 2, only: Some((name, index)) };
            typed::run_all(&mut runner);
            acc.add_all(out);
        }
        "hang" => {
            // re-run the stage on the recorded input under the watchdog
            let input = d["input"].as_str().unwrap_or("");
            watch::enter("text", input);
            let (vs, _, _) = text_violations::<Value>(input, &strict_eq, SENTINEL, 2, &leg, "Value");
            acc.add_all(vs);
            watch::leave();
        }
        other => vcommon::machinery_failure(&format!("replay: unknown kind {:?}", other)),
    }
    let want = r["signature"].as_str().unwrap_or("").to_string();
    for (sig, v) in acc.found.into_inner().unwrap() {
        if sig == want {
            eprintln!("replay: reproduced {}", sig);
        }
        ctx.violation("replay", &sig, v.detail);
    }
    ctx.finish("model_checking", "replay")
}

struct Cfg {
    one_cut_limit: usize,
    big_bytes: usize,
}

fn sample_texts(v: &Value) -> String {
    format!("{} -> {:?}", ref_print(v), (0..3).map(|i| print(i, v).unwrap_or_default()).collect::<Vec<_>>())
}

fn tabs_for(max: usize) -> BTreeMap<usize, Vec<gen::Shape>> {
    let mut tabs = BTreeMap::new();
    for s in 2..=max {
        tabs.insert(s, shapes(s));
    }
    tabs
}

/// Oracles (1), (2), (4) on all values of `sizes` of a space.
fn model_leg(ctx: &Ctx, acc: &Acc, name: &str, pool: &str, sp: &Space, sizes: std::ops::RangeInclusive<usize>, cap_s: f64) {
    let t0 = Instant::now();
    let tabs = tabs_for(*sizes.end());
    let jobs = jobs_for(sp, sizes.clone(), 2048);
    let t = run_value_jobs(sp, &tabs, &jobs, acc, name, cap_s);
    let mid = &sp.vals[3];
    ctx.add_leg(Leg {
        name: name.into(),
        engine: "E4-enum".into(),
        states: t.states,
        transitions: t.transitions,
        evaluations: t.evaluations,
        distinct_nontrivial: t.nontrivial,
        rule: "every model value of the stated tree sizes x 3 printers (+ the re-print of every differing parse image, + reductions of failing values); non-trivial = records with at least one attribute or item and texts that are not bare identifiers".into(),
        samples: vec![json!(sample_texts(&sp.vals[2][7])), json!(sample_texts(&mid[mid.len() / 5])), json!(sample_texts(&mid[mid.len() - 3]))],
        exhaustive: t.skipped == 0,
        bounds: json!({"tree_sizes": format!("{}..={}", sizes.start(), sizes.end()), "atom_pool": pool, "atoms": sp.vals[1].len() - 1,
            "attr_names": gen::NAMES, "attrs_max": 2, "items_max": 2,
            "values_per_size": sizes.clone().map(|s| sp.count(s)).collect::<Vec<_>>(), "parser_producible_values": t.extra,
            "wall_cap_s": cap_s, "jobs": jobs.len(), "jobs_skipped_by_cap": t.skipped,
            "completed": if t.skipped == 0 { "all".to_string() } else { format!("{} of {} jobs of 2048 values (job order: size, shape, index)", jobs.len() as u64 - t.skipped, jobs.len()) }}),
        wall_s: t0.elapsed().as_secs_f64(),
    });
}

fn texts_of(sp: &Space, sizes: std::ops::RangeInclusive<usize>, max_chars: Option<usize>) -> BTreeSet<String> {
    let tabs = tabs_for(*sizes.end());
    let jobs = jobs_for(sp, sizes, 2048);
    collect_texts(sp, &tabs, &jobs, max_chars)
}

fn text_leg(ctx: &Ctx, acc: &Acc, name: &str, texts: &[String], check_parsed: bool, rule: &str, mut bounds: serde_json::Value, cap_s: f64) {
    let t0 = Instant::now();
    let t = run_text_jobs(texts, acc, name, 2, check_parsed, cap_s);
    bounds["distinct_texts"] = json!(texts.len());
    bounds["two_cut_limit_bytes"] = json!(48);
    bounds["accepted_by_oneshot"] = json!(t.extra);
    bounds["wall_cap_s"] = json!(cap_s);
    bounds["texts_skipped_by_cap"] = json!(t.skipped_inputs);
    let n = texts.len();
    ctx.add_leg(Leg {
        name: name.into(),
        engine: "E4-enum".into(),
        states: t.states,
        transitions: t.transitions,
        evaluations: t.evaluations,
        distinct_nontrivial: t.nontrivial,
        rule: rule.into(),
        samples: if n >= 8 { vec![json!(texts[n / 3]), json!(texts[n / 2]), json!(texts[n - 7])] } else { texts.iter().map(|t| json!(t)).collect() },
        exhaustive: t.skipped == 0,
        bounds,
        wall_s: t0.elapsed().as_secs_f64(),
    });
}

fn deep_leg(ctx: &Ctx, acc: &Acc, cfg: &Cfg) {
    let t0 = Instant::now();
    let one_cut_limit = cfg.one_cut_limit;
    let mut inputs: Vec<(String, Value)> = vec![];
    for d in 1..=64 {
        for f in 0..3 {
            inputs.push((format!("{} depth {}", gen::LINEAR_NAMES[f], d), gen::linear(f, d)));
        }
    }
    inputs.extend(gen::big_values(cfg.big_bytes));
    // heaviest first for load balance
    inputs.reverse();
    let res = par_map(&inputs, ncpu(), |_, (name, v)| {
        let c0 = calls();
        let mut t = Tally::default();
        checks::reset_cache();
        watch::enter("deep_value", name);
        t.states += 1;
        t.nontrivial += 1;
        let laws = value_laws(v, false);
        t.evaluations += laws.evaluations;
        if laws.producible {
            t.extra += 1;
        }
        if !laws.failed.is_empty() {
            let (vs, e) = value_violations(v, false, &laws, "deep_and_long");
            t.evaluations += e;
            acc.add_all(vs);
        }
        let mut texts = BTreeSet::new();
        for i in 0..3 {
            if let Ok(s) = print(i, v) {
                texts.insert(s);
            }
        }
        for text in texts {
            let tt = Instant::now();
            watch::enter("deep_text", &format!("{} ({} bytes)", name, text.len()));
            let (vs, st, _) = text_violations_lim::<Value>(&text, &strict_eq, SENTINEL, 2, "deep_and_long", "Value", one_cut_limit);
            if text.len() > one_cut_limit {
                t.skipped_inputs += 1;
            }
            if std::env::var("C09_DEBUG").is_ok() && tt.elapsed().as_secs_f64() > 1.0 {
                eprintln!("  slow: {} {} bytes evals {} {:.1}s", name, text.len(), st.evaluations, tt.elapsed().as_secs_f64());
            }
            t.evaluations += st.evaluations;
            t.nontrivial += st.nontrivial;
            acc.add_all(vs);
        }
        watch::leave();
        t.transitions = calls() - c0;
        t
    });
    let mut t = Tally::default();
    for r in &res {
        t.merge(r);
    }
    ctx.add_leg(Leg {
        name: "deep_and_long".into(),
        engine: "E4-enum".into(),
        states: t.states,
        transitions: t.transitions,
        evaluations: t.evaluations,
        distinct_nontrivial: t.nontrivial,
        rule: "three linear record families at every depth 1..64 and one long text per boundary character / three long blobs: value laws + no cut, every 1-cut (within the stated window for texts longer than one_cut_limit), every 2-cut when len <= 48 and byte-by-byte, on their three renderings; all inputs non-trivial".into(),
        samples: vec![json!(sample_texts(&gen::linear(0, 3))), json!(sample_texts(&gen::linear(1, 3))), json!(sample_texts(&gen::linear(2, 3)))],
        exhaustive: true,
        bounds: json!({"depths": "1..=64", "families": gen::LINEAR_NAMES, "long_atom_bytes": cfg.big_bytes, "inputs": inputs.len(), "parser_producible": t.extra,
            "one_cut_limit_bytes": one_cut_limit, "texts_longer_than_one_cut_limit": t.skipped_inputs,
            "coverage_of_longer_texts": "no cut, byte-by-byte, and every 1-cut within one_cut_limit/2 bytes of either end"}),
        wall_s: t0.elapsed().as_secs_f64(),
    });
}

fn typed_leg(ctx: &Ctx, acc: &Acc) {
    let t0 = Instant::now();
    let c0 = calls();
    let mut out = vec![];
    let mut st = typed::TypedStats { states: 0, evaluations: 0, nontrivial: 0, samples: vec![] };
    let mut runner = typed::Runner { out: &mut out, stats: &mut st, max_cuts: 2, only: None };
    typed::run_all(&mut runner);
    acc.add_all(out);
    ctx.add_leg(Leg {
        name: "typed".into(),
        engine: "E4-enum".into(),
        states: st.states,
        transitions: calls() - c0,
        evaluations: st.evaluations,
        distinct_nontrivial: st.nontrivial,
        rule: "battery of built-in and derived types: parse::<T>(print_i(t)) == t for the three printers, and both decoders with T's recognizer under all chunkings of the three renderings; non-trivial = instances whose rendering contains a quote, attribute or record, plus chunkings cutting inside a token".into(),
        samples: st.samples.clone(),
        exhaustive: true,
        bounds: json!({"instances": st.states, "two_cut_limit_bytes": 48}),
        wall_s: t0.elapsed().as_secs_f64(),
    });
}

const CHUNK_RULE: &str = "every distinct text printed (3 printers) for the stated values x {RecognizerDecoder, WithLenRecognizerDecoder} x {no cut, every 1-cut, every 2-cut when len <= 48, byte-by-byte}, each followed by a sentinel text through the same decoder instance; non-trivial = chunkings with a cut strictly inside a token, a UTF-8 sequence or the length prefix";
const MUT_RULE: &str = "every single-character deletion / duplication of every printed text of <= 24 chars of the stated values, minus the printed texts themselves: no panic, no hang, chunked == one-shot, and round trip of the parsed value when the one-shot parser accepts the text; non-trivial as in chunking_printed";

fn main() {
    std::panic::set_hook(Box::new(|_| {}));
    let ctx = Ctx::from_env("C09");
    // hang guard: one input may stay current for this long (normal inputs: microseconds to seconds)
    let limit = std::env::var("C09_WATCHDOG_S").ok().and_then(|s| s.parse().ok()).unwrap_or(ctx.tier.pick(120, 300));
    watch::start(ctx.root.clone(), ctx.id.clone(), ctx.tier.name(), ctx.seed, limit);
    if ctx.replay_request().is_some() {
        replay(ctx);
    }
    let quick = ctx.quick();
    let acc = Acc { found: Mutex::new(BTreeMap::new()) };
    let env_usize = |k: &str, d: usize| std::env::var(k).ok().and_then(|s| s.parse().ok()).unwrap_or(d);
    let cfg = Cfg {
        one_cut_limit: env_usize("C09_ONE_CUT_LIMIT", ctx.tier.pick(4200, 8400)),
        big_bytes: env_usize("C09_BIG", ctx.tier.pick(1024, 4096)),
    };
    let cap = env_usize("C09_CAP_S", ctx.tier.pick(100_000, 600)) as f64;

    let t0 = Instant::now();
    let full = Space::new(gen::atoms_full(), 3);
    let reduced = Space::new(gen::atoms_reduced(), if quick { 3 } else { 4 });
    eprintln!(
        "[C09] spaces built in {:.1}s: full pool counts {:?}; reduced pool counts {:?}",
        t0.elapsed().as_secs_f64(),
        (1..=4).map(|s| full.count(s)).collect::<Vec<_>>(),
        (1..=(if quick { 4 } else { 5 })).map(|s| reduced.count(s)).collect::<Vec<_>>()
    );

    // leg 1: model values, full pool, tree size <= 4
    model_leg(&ctx, &acc, "model_values", "full", &full, 1..=4, cap);
    if !quick {
        // leg 1b: the shapes that only exist at size 5, over one atom per lexical class
        model_leg(&ctx, &acc, "model_values_size5", "reduced (one atom per lexical class)", &reduced, 5..=5, cap);
    }

    // leg 2: chunking of printed texts
    let printed: Vec<String> = texts_of(&full, 1..=3, None).into_iter().collect();
    text_leg(&ctx, &acc, "chunking_printed", &printed, false, CHUNK_RULE, json!({"values": "full pool, tree size <= 3"}), cap);
    let printed_set: BTreeSet<&String> = printed.iter().collect();
    let mut seen_more: BTreeSet<String> = BTreeSet::new();
    if !quick {
        let more: Vec<String> = texts_of(&reduced, 4..=4, None).into_iter().filter(|t| !printed_set.contains(t)).collect();
        text_leg(&ctx, &acc, "chunking_printed_size4", &more, false, CHUNK_RULE, json!({"values": "reduced pool (one atom per lexical class), tree size 4"}), cap);
        seen_more.extend(more);
    }

    // leg 3: mutated texts
    {
        let base = texts_of(&full, 1..=(if quick { 2 } else { 3 }), Some(24));
        let base_v: Vec<&String> = base.iter().collect();
        let parts = par_map(&base_v, ncpu(), |_, t| mutations(t));
        let mut set: BTreeSet<String> = BTreeSet::new();
        for p in parts {
            set.extend(p);
        }
        let texts: Vec<String> = set.into_iter().filter(|t| !printed_set.contains(t) && !seen_more.contains(t)).collect();
        text_leg(
            &ctx,
            &acc,
            "mutated_texts",
            &texts,
            true,
            MUT_RULE,
            json!({"values": format!("full pool, tree size <= {}", if quick { 2 } else { 3 }), "base_texts_of_at_most_24_chars": base.len()}),
            cap,
        );
    }

    // leg 3b: every escape sequence
    {
        let texts = gen::escape_texts();
        text_leg(
            &ctx,
            &acc,
            "escape_sequences",
            &texts,
            true,
            "the string literal \"\\uXXXX\" for every one of the 65536 code units, \"\\c\" for every printable ASCII c, and malformed / repeated-u forms: no panic, no hang, chunked == one-shot under all chunkings, and round trip of the parsed text (every BMP character as a one-character text) through the three printers; non-trivial as in chunking_printed",
            json!({"code_units": "0x0000..=0xffff", "single_char_escapes": "0x20..=0x7e"}),
            cap,
        );
    }

    // leg 4: deep and long inputs; leg 5: typed values
    deep_leg(&ctx, &acc, &cfg);
    typed_leg(&ctx, &acc);

    for (sig, v) in acc.found.into_inner().unwrap() {
        ctx.violation(v.detail["leg"].as_str().unwrap_or("c09"), &sig, v.detail.clone());
    }
    ctx.assume("atom pool of boundary values; other magnitudes / strings are not enumerated");
    ctx.assume("one-shot parser = parse_recognize(.., allow_comments = false), the mode the decoders use");
    ctx.assume("error results are compared by class (error vs value), not by message or offset");
    ctx.assume("floats are finite: values containing NaN/infinity (which the parser yields for e.g. 1e999) are only subject to the no-panic law, as the property states");
    ctx.assume("a model value counts as parser-producible when the one-shot parser returns exactly it on the harness's own fully quoted rendering, or when it was obtained from the parser");
    ctx.finish(
        "model_checking",
        "bounded-exhaustive enumeration of model values, typed values, printed and mutated texts and of all chunkings, against the real printers, parser and decoders",
    );
}

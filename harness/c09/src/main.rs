fn main() {
    vcommon::machinery_failure("C09: engine not built yet");
}

//! The typed battery: built-in serialisable types at their boundaries and a set of derived types
//! covering every field placement the derive macro offers (tag, header, header_body, attr, slot,
//! body, renamed fields, newtype, enums with unit / tuple / struct variants, nesting, generics).

use crate::checks::{self, Viol};
use crate::subject::{parse, print, Out, PRINTERS};
use num_bigint::{BigInt, BigUint};
use serde_json::json;
use std::collections::HashMap;
use std::fmt::Debug;
use swimos_form::Form;
use swimos_model::{Blob, Text, Value};

#[derive(Form, Debug, Clone, PartialEq)]
pub struct Plain {
    a: i32,
    b: String,
}

#[derive(Form, Debug, Clone, PartialEq)]
#[form(tag = "hdr")]
pub struct WithHeader {
    #[form(header)]
    h: i32,
    #[form(attr)]
    at: String,
    opt: Option<i32>,
}

#[derive(Form, Debug, Clone, PartialEq)]
pub struct HeaderBody {
    #[form(header_body)]
    hb: String,
    x: i64,
}

#[derive(Form, Debug, Clone, PartialEq)]
pub struct Delegating {
    #[form(header)]
    flag: bool,
    #[form(body)]
    inner: Vec<i32>,
}

#[derive(Form, Debug, Clone, PartialEq)]
pub struct DelegatingText {
    #[form(attr)]
    n: u64,
    #[form(body)]
    inner: String,
}

#[derive(Form, Debug, Clone, PartialEq)]
pub struct Renamed {
    #[form(name = "first field")]
    a: i32,
    #[form(name = "true")]
    b: String,
}

#[derive(Form, Debug, Clone, PartialEq)]
#[form(tag = "spaced tag")]
pub struct SpacedTag {
    a: i32,
}

#[derive(Form, Debug, Clone, PartialEq)]
pub struct Tuple2(i32, String);

#[derive(Form, Debug, Clone, PartialEq)]
#[form(newtype)]
pub struct NewT(String);

#[derive(Form, Debug, Clone, PartialEq)]
pub struct UnitS;

#[derive(Form, Debug, Clone, PartialEq)]
pub enum En {
    Unit,
    Tup(i32, String),
    Stru {
        a: f64,
        b: Option<Plain>,
    },
    #[form(tag = "other")]
    Hdr {
        #[form(header)]
        h: String,
        v: Vec<String>,
    },
}

#[derive(Form, Debug, Clone, PartialEq)]
pub struct Outer {
    inner: Plain,
    list: Vec<Plain>,
    map: HashMap<String, i32>,
    e: En,
    blob: Blob,
}

#[derive(Form, Debug, Clone, PartialEq)]
pub struct Gen<T> {
    #[form(header)]
    k: T,
    v: Option<T>,
}

/// A record whose body is delegated to a primitive (`@Dp(n: ..) <body>`): the only way a
/// primitive is written by a printer that has already written attributes.
#[derive(Form, Debug, Clone, PartialEq)]
pub struct Dp<T> {
    #[form(header)]
    n: i32,
    #[form(body)]
    inner: T,
}

/// Same, with the attribute written by `#[form(attr)]`.
#[derive(Form, Debug, Clone, PartialEq)]
pub struct Da<T> {
    #[form(attr)]
    n: String,
    #[form(body)]
    inner: T,
}

/// Tag only, body delegated: `@Db <body>` - the primitive follows an attribute without a body.
#[derive(Form, Debug, Clone, PartialEq)]
pub struct Db<T> {
    #[form(body)]
    inner: T,
}

fn strs() -> Vec<String> {
    crate::gen::text_atoms().into_iter().map(|s| s.to_string()).collect()
}

pub struct TypedStats {
    pub states: u64,
    pub evaluations: u64,
    pub nontrivial: u64,
    pub samples: Vec<serde_json::Value>,
}

pub struct Runner<'a> {
    pub out: &'a mut Vec<Viol>,
    pub stats: &'a mut TypedStats,
    pub max_cuts: usize,
    /// replay filter: only this (type, index)
    pub only: Option<(String, usize)>,
}

impl<'a> Runner<'a> {
    /// Oracle (1) for typed values plus oracle (3)/(4) on their three renderings with the type's
    /// own recognizer.
    pub fn run<T: Form + PartialEq + Debug + Clone>(&mut self, name: &str, cases: Vec<T>) {
        let sentinel = print(1, &cases[0]).unwrap_or_default();
        for (k, t) in cases.iter().enumerate() {
            if let Some((n, i)) = &self.only {
                if n != name || *i != k {
                    continue;
                }
            }
            self.stats.states += 1;
            crate::watch::enter("typed", &format!("{} #{} {:?}", name, k, t));
            let mut failed: Vec<(&'static str, &'static str, String)> = vec![];
            let mut texts: Vec<String> = vec![];
            for i in 0..3 {
                self.stats.evaluations += 1;
                match print(i, t) {
                    Err(m) => failed.push((PRINTERS[i], "print_panic", m)),
                    Ok(text) => {
                        match parse::<T>(&text) {
                            Out::Ok(x) if &x == t => {}
                            Out::Ok(x) => failed.push((PRINTERS[i], "other_value", format!("{:?} parses to {:?}", text, x))),
                            Out::Panic(m) => failed.push((PRINTERS[i], "parse_panic", format!("{:?}: {}", text, m))),
                            o => failed.push((PRINTERS[i], "parse_error", format!("{:?} does not parse: {}", text, o.describe()))),
                        }
                        if !texts.contains(&text) {
                            texts.push(text);
                        }
                    }
                }
            }
            if texts.iter().any(|t| t.contains('"') || t.contains('@') || t.contains('{')) {
                self.stats.nontrivial += 1;
            }
            if self.stats.samples.len() < 3 && k == cases.len() - 1 {
                self.stats.samples.push(json!(format!("{} {:?} -> {:?}", name, t, texts)));
            }
            if !failed.is_empty() {
                let mut ps: Vec<&str> = failed.iter().map(|f| f.0).collect();
                ps.sort();
                ps.dedup();
                let mut gs: Vec<&str> = failed.iter().map(|f| f.1).collect();
                gs.sort();
                gs.dedup();
                let law = if gs.iter().any(|g| g.ends_with("panic")) { "no_panic" } else { "typed_roundtrip" };
                let what = format!("{} value {:?}: {}", name, t, failed[0].2);
                self.out.push(Viol {
                    law,
                    sig: format!("law={} type={} printers={} got={} value_class={}", law, name, ps.join("+"), gs.join("+"), checks::text_shape(&format!("{:?}", t))),
                    what: what.clone(),
                    detail: json!({"kind": "typed", "leg": "typed", "type": name, "index": k, "input": format!("{:?}", t), "what": what}),
                    key: (k, format!("{:?}", t)),
                });
            }
            for text in &texts {
                let (mut v, st, _) = checks::text_violations::<T>(text, &|a: &T, b: &T| a == b, &sentinel, self.max_cuts, "typed", name);
                for x in v.iter_mut() {
                    if !x.sig.contains("input=top_level_primitive_token_cut") {
                        x.sig = format!("{} type={}", x.sig, name);
                    }
                    x.detail["kind"] = json!("typed");
                    x.detail["index"] = json!(k);
                }
                self.stats.evaluations += st.evaluations;
                self.stats.nontrivial += st.nontrivial;
                self.out.append(&mut v);
            }
            crate::watch::leave();
        }
    }
}

pub fn run_all(r: &mut Runner) {
    r.run::<i32>("i32", vec![0, -1, 1, i32::MAX, i32::MIN]);
    r.run::<i64>("i64", vec![0, -1, i64::MAX, i64::MIN, i32::MAX as i64 + 1]);
    r.run::<u32>("u32", vec![0, 1, u32::MAX]);
    r.run::<u64>("u64", vec![0, u64::MAX, i64::MAX as u64 + 1]);
    r.run::<usize>("usize", vec![0, usize::MAX]);
    r.run::<f64>(
        "f64",
        vec![0.0, 1.0, -1.0, 1.5, 1e300, -1e-300, f64::MIN_POSITIVE, f64::MAX, f64::MIN, 5e-324, 0.1, 1e21, 1e-7, 123456789.125],
    );
    r.run::<bool>("bool", vec![true, false]);
    r.run::<()>("unit", vec![()]);
    r.run::<String>("String", strs());
    r.run::<Text>("Text", strs().iter().map(|s| Text::new(s)).collect());
    r.run::<Blob>(
        "Blob",
        vec![Blob::from_vec(vec![]), Blob::from_vec(vec![0]), Blob::from_vec(vec![0, 255]), Blob::from_vec(vec![1, 2, 3]), Blob::from_vec((0..=255).collect())],
    );
    r.run::<Vec<u8>>("Vec<u8>", vec![vec![], vec![0, 255], vec![1, 2, 3, 4]]);
    let two64: BigInt = BigInt::from(u64::MAX) + 1u32;
    r.run::<BigInt>("BigInt", vec![BigInt::from(0), BigInt::from(-1), two64.clone(), -two64.clone(), BigInt::from(i64::MIN)]);
    r.run::<BigUint>("BigUint", vec![BigUint::from(0u32), BigUint::from(u64::MAX), BigUint::from(u64::MAX) + 1u32]);
    r.run::<Option<i32>>("Option<i32>", vec![None, Some(0), Some(-1)]);
    r.run::<Option<String>>("Option<String>", vec![None, Some(String::new()), Some("a b".into()), Some("true".into())]);
    r.run::<Vec<i32>>("Vec<i32>", vec![vec![], vec![1], vec![1, -2], vec![1, 2, 3]]);
    r.run::<Vec<String>>("Vec<String>", vec![vec![], vec!["".into()], vec!["a".into(), "a b".into()], vec!["\n".into(), "é".into(), "\"".into()]]);
    r.run::<Vec<Option<i32>>>("Vec<Option<i32>>", vec![vec![None], vec![None, None], vec![Some(1), None], vec![None, Some(1)]]);
    r.run::<Vec<Vec<i32>>>("Vec<Vec<i32>>", vec![vec![vec![]], vec![vec![1]], vec![vec![1, 2], vec![]], vec![vec![], vec![]]]);
    r.run::<HashMap<String, i32>>(
        "HashMap<String,i32>",
        vec![
            HashMap::new(),
            [("a".to_string(), 1)].into_iter().collect(),
            [("a b".to_string(), 1), ("".to_string(), -1)].into_iter().collect(),
            [("true".to_string(), 0)].into_iter().collect(),
        ],
    );
    r.run::<HashMap<i32, Vec<i32>>>("HashMap<i32,Vec<i32>>", vec![[(1, vec![])].into_iter().collect(), [(1, vec![1, 2]), (-1, vec![3])].into_iter().collect()]);
    r.run::<(i32, String)>("(i32,String)", vec![(0, "".into()), (-1, "a b".into())]);
    r.run::<Value>("Value(parser-producible)", vec![Value::Int32Value(1), Value::text("a b"), Value::from_vec(vec![(Value::text("k"), Value::Int32Value(1))])]);

    let p = |a: i32, b: &str| Plain { a, b: b.to_string() };
    r.run::<Plain>("Plain", vec![p(0, ""), p(-1, "a"), p(i32::MAX, "a b"), p(1, "\"\\\n"), p(1, "é\u{10FFFF}"), p(1, "true"), p(2, "@x")]);
    r.run::<WithHeader>(
        "WithHeader",
        vec![
            WithHeader { h: 0, at: "".into(), opt: None },
            WithHeader { h: -1, at: "a b".into(), opt: Some(1) },
            WithHeader { h: i32::MIN, at: "a".into(), opt: Some(-1) },
            WithHeader { h: 1, at: "\u{0}".into(), opt: None },
        ],
    );
    r.run::<HeaderBody>(
        "HeaderBody",
        vec![HeaderBody { hb: "".into(), x: 0 }, HeaderBody { hb: "a b".into(), x: i64::MIN }, HeaderBody { hb: "a".into(), x: i64::MAX }, HeaderBody { hb: "é".into(), x: 1 }],
    );
    r.run::<Delegating>(
        "Delegating",
        vec![
            Delegating { flag: true, inner: vec![] },
            Delegating { flag: false, inner: vec![1] },
            Delegating { flag: true, inner: vec![1, 2] },
        ],
    );
    r.run::<DelegatingText>(
        "DelegatingText",
        vec![
            DelegatingText { n: 0, inner: "".into() },
            DelegatingText { n: u64::MAX, inner: "a".into() },
            DelegatingText { n: 1, inner: "a b".into() },
            DelegatingText { n: 1, inner: "true".into() },
        ],
    );
    r.run::<Renamed>("Renamed", vec![Renamed { a: 1, b: "x".into() }, Renamed { a: -1, b: "".into() }]);
    r.run::<SpacedTag>("SpacedTag", vec![SpacedTag { a: 1 }]);
    r.run::<Tuple2>("Tuple2", vec![Tuple2(0, "".into()), Tuple2(-1, "a b".into())]);
    r.run::<NewT>("NewT", vec![NewT("".into()), NewT("a".into()), NewT("a b".into()), NewT("1".into())]);
    r.run::<UnitS>("UnitS", vec![UnitS]);
    let ens = vec![
        En::Unit,
        En::Tup(0, "".into()),
        En::Tup(-1, "a b".into()),
        En::Stru { a: 0.0, b: None },
        En::Stru { a: 1.5, b: Some(p(1, "a")) },
        En::Stru { a: -1e300, b: Some(p(-1, "a b")) },
        En::Hdr { h: "".into(), v: vec![] },
        En::Hdr { h: "a b".into(), v: vec!["a".into(), "".into()] },
    ];
    r.run::<En>("En", ens.clone());
    r.run::<Vec<En>>("Vec<En>", vec![vec![En::Unit], vec![En::Unit, En::Unit], vec![En::Tup(1, "a".into()), En::Unit]]);
    r.run::<Option<En>>("Option<En>", vec![None, Some(En::Unit), Some(En::Stru { a: 1.0, b: None })]);
    r.run::<Outer>(
        "Outer",
        vec![
            Outer { inner: p(0, ""), list: vec![], map: HashMap::new(), e: En::Unit, blob: Blob::from_vec(vec![]) },
            Outer {
                inner: p(1, "a b"),
                list: vec![p(1, "a")],
                map: [("k".to_string(), 1)].into_iter().collect(),
                e: En::Tup(1, "x".into()),
                blob: Blob::from_vec(vec![0, 255]),
            },
            Outer {
                inner: p(-1, "é"),
                list: vec![p(1, "a"), p(2, "")],
                map: [("k".to_string(), 1), ("a b".to_string(), 2)].into_iter().collect(),
                e: En::Stru { a: 1.5, b: Some(p(3, "\n")) },
                blob: Blob::from_vec(vec![1, 2, 3]),
            },
        ],
    );
    fn dp<T: Clone>(xs: &[T]) -> Vec<Dp<T>> {
        xs.iter().map(|x| Dp { n: 1, inner: x.clone() }).collect()
    }
    fn da<T: Clone>(xs: &[T]) -> Vec<Da<T>> {
        xs.iter().map(|x| Da { n: "a".to_string(), inner: x.clone() }).collect()
    }
    r.run::<Dp<i32>>("Dp<i32>", dp(&[0, -1, i32::MAX]));
    r.run::<Dp<i64>>("Dp<i64>", dp(&[i64::MIN, i64::MAX]));
    r.run::<Dp<u32>>("Dp<u32>", dp(&[0, u32::MAX]));
    r.run::<Dp<u64>>("Dp<u64>", dp(&[u64::MAX]));
    r.run::<Dp<f64>>("Dp<f64>", dp(&[0.0, -1.5, 1e300, f64::MIN_POSITIVE]));
    r.run::<Dp<bool>>("Dp<bool>", dp(&[true, false]));
    r.run::<Dp<BigInt>>("Dp<BigInt>", dp(&[two64.clone(), -two64.clone()]));
    r.run::<Dp<BigUint>>("Dp<BigUint>", dp(&[BigUint::from(u64::MAX) + 1u32]));
    r.run::<Dp<String>>("Dp<String>", dp(&["".to_string(), "a".to_string(), "a b".to_string(), "true".to_string(), "\n".to_string()]));
    r.run::<Dp<Blob>>("Dp<Blob>", dp(&[Blob::from_vec(vec![]), Blob::from_vec(vec![0, 255])]));
    r.run::<Dp<Option<i32>>>("Dp<Option<i32>>", dp(&[None, Some(1)]));
    r.run::<Dp<Plain>>("Dp<Plain>", dp(&[p(1, "a"), p(-1, "a b")]));
    fn db<T: Clone>(xs: &[T]) -> Vec<Db<T>> {
        xs.iter().map(|x| Db { inner: x.clone() }).collect()
    }
    r.run::<Db<i32>>("Db<i32>", db(&[0, -1, i32::MAX]));
    r.run::<Db<i64>>("Db<i64>", db(&[i64::MIN, i64::MAX]));
    r.run::<Db<u32>>("Db<u32>", db(&[0, u32::MAX]));
    r.run::<Db<u64>>("Db<u64>", db(&[u64::MAX]));
    r.run::<Db<f64>>("Db<f64>", db(&[0.0, -1.5, 1e300]));
    r.run::<Db<bool>>("Db<bool>", db(&[true, false]));
    r.run::<Db<BigInt>>("Db<BigInt>", db(&[two64.clone(), -two64.clone()]));
    r.run::<Db<BigUint>>("Db<BigUint>", db(&[BigUint::from(u64::MAX) + 1u32]));
    r.run::<Db<String>>("Db<String>", db(&["".to_string(), "a".to_string(), "a b".to_string(), "true".to_string()]));
    r.run::<Db<Blob>>("Db<Blob>", db(&[Blob::from_vec(vec![]), Blob::from_vec(vec![0, 255])]));
    r.run::<Db<Vec<i32>>>("Db<Vec<i32>>", db(&[vec![], vec![1], vec![1, 2]]));
    r.run::<Da<i32>>("Da<i32>", da(&[0, -1]));
    r.run::<Da<f64>>("Da<f64>", da(&[1.5, -1e-300]));
    r.run::<Da<bool>>("Da<bool>", da(&[true]));
    r.run::<Da<Vec<i32>>>("Da<Vec<i32>>", da(&[vec![], vec![1], vec![1, 2]]));
    r.run::<Gen<i32>>("Gen<i32>", vec![Gen { k: 0, v: None }, Gen { k: -1, v: Some(1) }]);
    r.run::<Gen<String>>("Gen<String>", vec![Gen { k: "".into(), v: None }, Gen { k: "a b".into(), v: Some("a".into()) }]);
    r.run::<Gen<Plain>>("Gen<Plain>", vec![Gen { k: p(1, "a"), v: None }, Gen { k: p(1, "a b"), v: Some(p(2, "")) }]);
}
